//! C02 bounded stand-in / witness search: real `Head::try_read` on heads built from request lines and
//! field lines, against a hand-written RFC 7230 section 3 recogniser (no regular expressions).
use fixed_buffer::FixedBuf;
use servlin::internal::{Head, HeadError};

fn is_tchar(b: u8) -> bool { b.is_ascii_alphanumeric() || b"!#$%&'*+-.^_`|~".contains(&b) }
fn is_ws4(b: u8) -> bool { b == b' ' || b == b'\t' || b == b'\r' || b == b'\n' }
/// reference for a field line (no line terminator inside): Ok((name, value)) or Err(())
fn ref_field(line: &[u8]) -> Result<(Vec<u8>, Vec<u8>), ()> {
    let colon = line.iter().position(|&b| b == b':').ok_or(())?;
    let name = &line[..colon];
    if name.is_empty() || !name.iter().all(|&b| is_tchar(b)) { return Err(()); }
    let mut v = &line[colon + 1..];
    while let Some((&f, rest)) = v.split_first() { if is_ws4(f) { v = rest } else { break } }
    while let Some((&l, rest)) = v.split_last() { if is_ws4(l) { v = rest } else { break } }
    if !v.is_ascii() { return Err(()); } // the library documents ASCII header values
    Ok((name.to_vec(), v.to_vec()))
}
#[derive(Debug, PartialEq)]
enum ReqRef { Ok(Vec<u8>, Vec<u8>), MalformedRequestLine, MalformedPath, UnsupportedProtocol }
fn ref_request(line: &[u8]) -> ReqRef {
    let parts: Vec<&[u8]> = line.split(|&b| b == b' ').collect();
    let bad = |p: &[u8]| p.is_empty() || p.iter().any(|&b| b == b'\t' || b == b'\r' || b == b'\n');
    if parts.len() != 3 || parts[0].is_empty() || !parts[0].iter().all(|&b| is_tchar(b)) || bad(parts[1]) || bad(parts[2]) { return ReqRef::MalformedRequestLine; }
    if std::str::from_utf8(parts[1]).is_err() || parts[1][0] != b'/' { return ReqRef::MalformedPath; }
    if parts[2] != b"HTTP/1.1" { return ReqRef::UnsupportedProtocol; }
    ReqRef::Ok(parts[0].to_vec(), parts[1].to_vec())
}
fn try_read(head: &[u8]) -> Result<Result<Head, HeadError>, ()> {
    std::panic::catch_unwind(|| { let mut b: FixedBuf<4096> = FixedBuf::new(); b.write_bytes(head).unwrap(); Head::try_read(&mut b) }).map_err(|_| ())
}
fn check_field(line: &[u8]) -> Option<String> {
    let mut head = b"M / HTTP/1.1\r\n".to_vec(); head.extend_from_slice(line); head.extend_from_slice(b"\r\n\r\n");
    let desc = format!("field line={}", hex(line));
    let want = ref_field(line);
    match try_read(&head) {
        Err(()) => Some(format!("{desc} expected={} actual=panic", if want.is_ok() { "accepted" } else { "MalformedHeader" })),
        Ok(Ok(h)) => match want {
            Err(()) => Some(format!("{desc} expected=MalformedHeader actual=accepted({:?})", h.headers)),
            Ok((n, v)) => { let hs = &h.headers; if hs.len() == 1 && hs[0].name.as_bytes() == n && hs[0].value.as_bytes() == v { None } else { Some(format!("{desc} expected=name/value={:?}/{:?} actual={:?}", String::from_utf8_lossy(&n), String::from_utf8_lossy(&v), hs)) } }
        },
        Ok(Err(HeadError::MalformedHeader)) => if want.is_err() { None } else { Some(format!("{desc} expected=accepted actual=MalformedHeader")) },
        Ok(Err(e)) => Some(format!("{desc} expected={} actual={e:?}", if want.is_ok() { "accepted" } else { "MalformedHeader" })),
    }
}
fn check_request(line: &[u8]) -> Option<String> {
    let mut head = line.to_vec(); head.extend_from_slice(b"\r\n\r\n");
    let desc = format!("request line={}", hex(line));
    let want = ref_request(line);
    match try_read(&head) {
        Err(()) => Some(format!("{desc} expected={want:?} actual=panic")),
        Ok(r) => {
            let got = match &r { Ok(h) => ReqRef::Ok(h.method.as_bytes().to_vec(), Vec::new()), Err(HeadError::MalformedRequestLine) => ReqRef::MalformedRequestLine,
                Err(HeadError::MalformedPath) => ReqRef::MalformedPath, Err(HeadError::UnsupportedProtocol) => ReqRef::UnsupportedProtocol, Err(e) => return Some(format!("{desc} expected={want:?} actual={e:?}")) };
            let same = match (&got, &want) { (ReqRef::Ok(m, _), ReqRef::Ok(wm, wp)) => m == wm && r.as_ref().unwrap().url.path().as_bytes().len() <= wp.len() * 3 + 1, (a, b) => std::mem::discriminant(a) == std::mem::discriminant(b) };
            // url crate may reject some origin-form targets (implementation-free): MalformedPath for a well-formed line is tolerated
            if same || (matches!(want, ReqRef::Ok(..)) && matches!(got, ReqRef::MalformedPath)) { None } else { Some(format!("{desc} expected={want:?} actual={got:?}")) }
        }
    }
}
fn hex(b: &[u8]) -> String { b.iter().map(|x| format!("{x:02x}")).collect() }
fn unhex(s: &str) -> Vec<u8> { (0..s.len() / 2).map(|i| u8::from_str_radix(&s[2 * i..2 * i + 2], 16).unwrap()).collect() }
fn main() {
    std::panic::set_hook(Box::new(|_| {}));
    let args: Vec<String> = std::env::args().collect();
    if args.len() >= 3 && args[1] == "replay" {
        let w = args[2..].join(" ");
        let line = unhex(w.split("line=").nth(1).unwrap().split(' ').next().unwrap());
        let r = if w.starts_with("field") { check_field(&line) } else { check_request(&line) };
        match r { Some(m) => { println!("WITNESS {m}"); std::process::exit(1) } None => { println!("OK witness no longer fails"); std::process::exit(0) } }
    }
    let thorough = args.iter().any(|a| a == "--thorough");
    let mut n = 0u64; let mut found = Vec::new();
    // field lines: every single byte in name / separator / value positions, OWS variants
    for b in 0..=255u8 {
        if b == b'\n' { continue; } // LF splits lines: a different line structure, covered by C01's corpus
        for line in [vec![b, b':', b'v'], vec![b'n', b, b':', b'v'], vec![b'n', b':', b, b'v'], vec![b'n', b':', b'v', b], vec![b'n', b':', b'a', b, b'b'], vec![b'n', b, b'v']] {
            if line.ends_with(b"\r") || line.contains(&b'\n') { continue; }
            n += 1; if let Some(m) = check_field(&line) { if found.len() < 6 { found.push(m) } }
        }
        for line in [vec![b, b' ', b'/', b' ', b'H', b'T', b'T', b'P', b'/', b'1', b'.', b'1'], [b"M /".as_slice(), &[b], b" HTTP/1.1"].concat(), [b"M / HTTP/1.".as_slice(), &[b]].concat(), [b"M".as_slice(), &[b], b"/ HTTP/1.1"].concat()] {
            if line.ends_with(b"\r") || line.contains(&b'\n') { continue; }
            n += 1; if let Some(m) = check_request(&line) { if found.len() < 6 { found.push(m) } }
        }
    }
    for line in [&b"n:v"[..], b"n: v", b"n:\tv", b"n: \t v \t ", b"n:", b"n: ", b"Name-1.x:a:b", b"n :v", b" n:v", b":v", b"n", b"n:\x80", b"n:a\x00b", b"n|~:v"] {
        n += 1; if let Some(m) = check_field(line) { if found.len() < 6 { found.push(m) } }
    }
    for line in [&b"GET / HTTP/1.1"[..], b"GET /a?b=c HTTP/1.1", b"get / HTTP/1.1", b"G|T / HTTP/1.1", b"GET  / HTTP/1.1", b"GET / HTTP/1.1 ", b" GET / HTTP/1.1", b"GET a HTTP/1.1", b"GET * HTTP/1.1",
                 b"GET http://x/ HTTP/1.1", b"GET / HTTP/1.0", b"GET / HTTP/2", b"GET /", b"GET", b"", b"GET / HTTP/1.1 x", b"G(T / HTTP/1.1", b"GET /\xff HTTP/1.1", b"GET /%zz HTTP/1.1"] {
        n += 1; if let Some(m) = check_request(line) { if found.len() < 6 { found.push(m) } }
    }
    let _ = thorough;
    println!("EVALUATED {n}");
    for f in &found { println!("WITNESS {f}"); }
    std::process::exit(if found.is_empty() { 0 } else { 1 });
}
