//! C14 witness search / replay: real `HeaderList` against a Vec-based reference model.
use servlin::{AsciiString, Header, HeaderList};
use std::convert::TryFrom;

fn a(s: &str) -> AsciiString { AsciiString::try_from(s).unwrap() }

/// names: e.g. "a,B,a,c"; values are v0,v1,...; op in {remove_all, remove_only, get_all, get_only}
fn run(names: &str, op: &str, target: &str) -> Option<String> {
    // a leading '=' gives every field the same value (repeated identical field lines): matching is by name, never by value
    let same = names.starts_with('=');
    let names: Vec<&str> = names.trim_start_matches('=').split(',').filter(|s| !s.is_empty()).collect();
    let mut list = HeaderList::new();
    let mut model: Vec<(String, String)> = Vec::new();
    for (i, n) in names.iter().enumerate() {
        let v = if same { "v".to_string() } else { format!("v{i}") };
        list.add(n, a(&v));
        model.push((n.to_string(), v));
    }
    let is_match = |n: &str| n.eq_ignore_ascii_case(target);
    let want_vals: Vec<String> = model.iter().filter(|(n, _)| is_match(n)).map(|(_, v)| v.clone()).collect();
    let want_rest: Vec<(String, String)> = model.iter().filter(|(n, _)| !is_match(n)).cloned().collect();
    let desc = format!("headers names={}{} op={op} target={target}", if same { "=" } else { "" }, names.join(","));
    let (got_vals, got_rest): (Vec<String>, Vec<(String, String)>) = match op {
        "remove_all" => {
            let v = list.remove_all(target).into_iter().map(String::from).collect();
            (v, list.iter().map(|h: &Header| (h.name.to_string(), h.value.to_string())).collect())
        }
        "remove_only" => {
            let v: Vec<String> = list.remove_only(target).into_iter().map(String::from).collect();
            let want: Vec<String> = if want_vals.len() == 1 { want_vals.clone() } else { vec![] };
            let rest: Vec<(String, String)> = list.iter().map(|h: &Header| (h.name.to_string(), h.value.to_string())).collect();
            if v != want { return Some(format!("{desc} expected={want:?} actual={v:?}")); }
            if rest != want_rest { return Some(format!("{desc} expected_rest={want_rest:?} actual_rest={rest:?}")); }
            return None;
        }
        "get_all" => (list.get_all(target).into_iter().map(|s| s.to_string()).collect(), want_rest.clone()),
        _ => {
            let v: Vec<String> = list.get_only(target).into_iter().map(|s| s.to_string()).collect();
            let want: Vec<String> = if want_vals.len() == 1 { want_vals.clone() } else { vec![] };
            if v != want { return Some(format!("{desc} expected={want:?} actual={v:?}")); }
            return None;
        }
    };
    if got_vals != want_vals { return Some(format!("{desc} expected={want_vals:?} actual={got_vals:?}")); }
    if got_rest != want_rest { return Some(format!("{desc} expected_rest={want_rest:?} actual_rest={got_rest:?}")); }
    None
}

/// every string constructor of AsciiString: Ok iff the input is ASCII, and then the same text
/// "the header list a handler sees is the list the client sent, in order, minus the framing fields the library consumes":
/// the real read_http_request on whole field lines; the list handed on is the list sent without every Content-Type, Expect and
/// Transfer-Encoding field (any case, any value, however many)
fn handlerlist(lines: &[&str]) -> Option<String> {
    use verif_replay::{block_on, ScriptReader, Step};
    let desc = format!("handlerlist lines={}", lines.iter().map(|l| l.bytes().map(|b| format!("{b:02x}")).collect::<String>()).collect::<Vec<_>>().join(","));
    let mut msg = b"POST / HTTP/1.1\r\n".to_vec();
    for l in lines { msg.extend_from_slice(l.as_bytes()); msg.extend_from_slice(b"\r\n"); }
    msg.extend_from_slice(b"\r\n");
    let want: Vec<(String, String)> = lines.iter().map(|l| { let (n, v) = l.split_once(':').unwrap(); (n.to_string(), v.trim_matches(|c| c == ' ' || c == '\t').to_string()) })
        .filter(|(n, _)| !["content-type", "expect", "transfer-encoding"].contains(&n.to_ascii_lowercase().as_str())).collect();
    let r = std::panic::catch_unwind(|| {
        let mut buf: fixed_buffer::FixedBuf<4096> = fixed_buffer::FixedBuf::new();
        let mut rd = ScriptReader::new(vec![Step::Data(msg.clone()), Step::Eof]);
        block_on(servlin::internal::read_http_request("127.0.0.1:1".parse().unwrap(), &mut buf, &mut rd))
            .map(|r| r.headers.iter().map(|h| (h.name.as_str().to_string(), h.value.as_str().to_string())).collect::<Vec<_>>())
    });
    match r {
        Err(_) => Some(format!("{desc} expected=no-panic actual=panic")),
        Ok(Err(_)) => None,   // a refused request reaches no handler
        Ok(Ok(got)) => if got == want { None } else { Some(format!("{desc} expected=handler sees {want:?} actual={got:?}")) },
    }
}
fn check_ctors() -> (u64, Vec<String>) {
    use std::borrow::Cow;
    let mut n = 0u64; let mut found = Vec::new();
    let mut chk = |desc: String, input_ascii: bool, text: &str, got: Result<AsciiString, String>, n: &mut u64| {
        *n += 1;
        let ok = match &got { Ok(a) => input_ascii && a.as_str() == text && a.as_str().is_ascii(), Err(_) => !input_ascii };
        if !ok && found.len() < 5 { found.push(format!("ctor {desc} expected={} actual={:?}", if input_ascii { "Ok(same text)" } else { "Err" }, got.map(|a| a.as_str().to_string()))); }
    };
    for cp in (0u32..=0x10FFFF).filter_map(char::from_u32) {
        let c = cp;
        if (c as u32) > 0x400 && (c as u32) % 97 != 0 { continue; }
        chk(format!("kind=char cp={}", c as u32), c.is_ascii(), &c.to_string(), AsciiString::try_from(c), &mut n);
    }
    for s in ["", "a", "abc xyz", "\u{7f}", "\u{80}", "caf\u{e9}", "\u{ff}", "\u{100}", "a\u{20ac}b", "\u{1F600}"] {
        let asc = s.is_ascii();
        chk(format!("kind=String text={s:?}"), asc, s, AsciiString::try_from(s.to_string()), &mut n);
        chk(format!("kind=&String text={s:?}"), asc, s, AsciiString::try_from(&s.to_string()), &mut n);
        chk(format!("kind=&str text={s:?}"), asc, s, AsciiString::try_from(s), &mut n);
        let mut owned = s.to_string();
        chk(format!("kind=&mut-str text={s:?}"), asc, s, AsciiString::try_from(owned.as_mut_str()), &mut n);
        chk(format!("kind=Box<str> text={s:?}"), asc, s, AsciiString::try_from(s.to_string().into_boxed_str()), &mut n);
        chk(format!("kind=Cow text={s:?}"), asc, s, AsciiString::try_from(Cow::Borrowed(s)), &mut n);
    }
    for v in [0i64, 1, -1, 9, 10, 255, -128, 65535, i64::MAX, i64::MIN] {
        n += 1;
        let a = AsciiString::from(v);
        if a.as_str() != v.to_string() || !a.as_str().is_ascii() { if found.len() < 5 { found.push(format!("ctor kind=i64 value={v} expected={v} actual={}", a.as_str())); } }
    }
    (n, found)
}
fn main() {
    let args: Vec<String> = std::env::args().collect();
    if args.len() >= 3 && args[1] == "replay" {
        let w = args[2..].join(" ");
        let get = |k: &str| w.split(&format!("{k}=")).nth(1).map(|s| s.split(' ').next().unwrap_or("").to_string()).unwrap_or_default();
        if w.starts_with("handlerlist") {
            let ls: Vec<String> = get("lines").split(',').map(|h| String::from_utf8((0..h.len() / 2).map(|i| u8::from_str_radix(&h[2 * i..2 * i + 2], 16).unwrap()).collect()).unwrap()).collect();
            let ls: Vec<&str> = ls.iter().map(String::as_str).collect();
            match handlerlist(&ls) { Some(m) => { println!("WITNESS {m}"); std::process::exit(1) } None => { println!("OK witness no longer fails"); std::process::exit(0) } }
        }
        if w.starts_with("ctor") {
            let key = w.split(" expected=").next().unwrap_or("").to_string();
            let (_, f) = check_ctors();
            if f.iter().any(|m| m.starts_with(&key)) { println!("WITNESS {w}"); std::process::exit(1) }
            println!("OK witness no longer fails"); std::process::exit(0)
        }
        match run(&get("names"), &get("op"), &get("target")) {
            Some(m) => { println!("WITNESS {m}"); std::process::exit(1) }
            None => { println!("OK witness no longer fails"); std::process::exit(0) }
        }
    }
    let thorough = args.iter().any(|a| a == "--thorough");
    let pool = ["a", "A", "b", "B", "c"];
    let maxlen = if thorough { 7 } else { 5 };
    let mut n = 0u64;
    let mut found = Vec::new();
    for len in 0..=maxlen {
        let total = pool.len().pow(len as u32);
        for code in 0..total {
            let mut c = code;
            let names: Vec<&str> = (0..len).map(|_| { let x = pool[c % pool.len()]; c /= pool.len(); x }).collect();
            let names = names.join(",");
            for op in ["remove_all", "remove_only", "get_all", "get_only"] {
                n += 1;
                if let Some(m) = run(&names, op, "a") { if found.len() < 5 { found.push(m) } }
                if len <= 4 { n += 1; if let Some(m) = run(&format!("={names}"), op, "a") { if found.len() < 5 { found.push(m) } } }
            }
        }
    }
    // the matching relation itself: every pair of one-character names over printable ASCII (and the same inside a longer
    // name) -- a field matches a lookup iff the names are equal up to ASCII letter case, nothing else
    for x in 0x21u8..0x7f { for y in 0x21u8..0x7f {
        if x == b',' || y == b',' { continue; }
        let (xs, ys) = ((x as char).to_string(), (y as char).to_string());
        n += 1;
        if let Some(m) = run(&xs, "get_all", &ys) { if found.len() < 5 { found.push(m) } }
        if (x ^ y) == 0x20 || x == y {
            for op in ["remove_all", "remove_only", "get_only"] { n += 1; if let Some(m) = run(&format!("X-{xs}1,other,X-{ys}1"), op, &format!("x-{ys}1")) { if found.len() < 5 { found.push(m) } } }
        }
    }}
    // lookup names outside ASCII never match a field (names are pure ASCII; only ASCII letters fold): every character
    // below U+10000 whose Unicode lower / upper case form contains an ASCII character (KELVIN SIGN, LONG S, dotted I ...)
    for cp in 0x80u32..0x10000 {
        let Some(c) = char::from_u32(cp) else { continue };
        let folds: Vec<char> = c.to_lowercase().chain(c.to_uppercase()).filter(char::is_ascii_alphanumeric).collect();
        for l in folds { for stored in [l.to_ascii_lowercase(), l.to_ascii_uppercase()] {
            for op in ["get_all", "get_only", "remove_all", "remove_only"] {
                n += 1;
                if let Some(m) = run(&format!("x{stored}y,other,X{stored}Y"), op, &format!("x{c}y")) { if found.len() < 5 { found.push(m) } }
            }
        } }
    }
    // what the handler sees: consumed fields of every spelling and value, once or repeated, among other fields
    let consumed = ["Expect: 100-continue", "expect: 100-Continue", "EXPECT: 200-ok", "expect:", "Content-Type: text/plain", "content-type: x/y; q=1", "CONTENT-TYPE:",
        "Transfer-Encoding: chunked", "transfer-encoding: gzip", "Transfer-Encoding: gzip, chunked"];
    let kept = ["A: 1", "b: 2", "Cookie: k=v", "content-length: 0", "Expected: no", "x-expect: 100-continue"];
    for c1 in consumed { for pos in 0..=2usize {
        let mut l: Vec<&str> = vec![kept[0], kept[1]]; l.insert(pos, c1);
        n += 1; if let Some(m) = handlerlist(&l) { if found.len() < 5 { found.push(m) } }
        for c2 in consumed { for pos2 in [0usize, 3] {
            let mut l2 = l.clone(); l2.insert(pos2, c2);
            n += 1; if let Some(m) = handlerlist(&l2) { if found.len() < 5 { found.push(m) } }
        } }
    } }
    { let all: Vec<&str> = kept.to_vec(); n += 1; if let Some(m) = handlerlist(&all) { if found.len() < 5 { found.push(m) } } }
    let (cn, cf) = check_ctors();
    n += cn;
    found.extend(cf);
    println!("EVALUATED {n}");
    for f in &found { println!("WITNESS {f}"); }
    std::process::exit(if found.is_empty() { 0 } else { 1 });
}
