// what one writer step may do to the files (taken from the property: no loss, duplication, split or reordering of a
// line across rotation; deletion oldest first, so what survives is a suffix)
pub open spec fn step_same_file(f0: LogFile, s0: PrefixFileSet, f1: LogFile, s1: PrefixFileSet, line: Seq<u8>) -> bool {
    &&& f1.file.content() == f0.file.content() + line
    &&& f1.path == f0.path
    &&& s1.files_()@.is_suffix_of(s0.files_()@)
}
pub open spec fn step_rotated(f0: LogFile, s0: PrefixFileSet, f1: LogFile, s1: PrefixFileSet, line: Seq<u8>) -> bool {
    &&& f1.file.content() == line
    // the file handed over carries its full length and is the newest of the set (deleting "oldest first" by mtime is
    // then deleting in the order the files were written)
    &&& exists|i: int, pf: PrefixFile| 0 <= i <= s0.files_()@.len() && pf.len == f0.len && pf.path == f0.path
            && not_after(s0.files_()@, pf.mtime)
            && #[trigger] s1.files_()@.is_suffix_of(s0.files_()@.insert(i, pf))
}
// vacuity canary -- must FAIL
fn canary_logwriter(w: &LogFileWriter, event: LogEvent, file: LogFile, set: PrefixFileSet, p: PathBuf)
    requires lf_wf(file), wf(set), file_set_small(set, file, event), not_after(set.files_()@, step_now()),
        w.max_keep_age matches Some(d) ==> time_of(step_now()) - dur_of(d) >= time_min(),
{
    let r = w.region_writer_step(event, Vec::new(), file, set, p);
    let n = SystemTime::now();
    let a = r.1.age(n);
    assert(false);
}
pub open spec fn file_set_small(set: PrefixFileSet, file: LogFile, event: LogEvent) -> bool {
    set.len_() + file.len + event.line().len() <= u64::MAX
}
