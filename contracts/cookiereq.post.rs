// vacuity canary -- must FAIL
fn canary_cookiereq(head: &Head, cookies: &mut HashMap<String, String>, v: &AsciiString)
{
    let r = region_cookies(head, cookies);
    let s = cookie_segments(v);
    assert(false);
}
