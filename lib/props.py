"""Registry: which verification units decide which property (DESIGN.md sections 3-4)."""

# verus: sidecar names under contracts/ ; kani: harness module names under kani/ ;
# witness: binary of the replay crate used to look for a concrete failing input when an
# obligation of that unit fails (Verus gives no counterexample).
PROPS = {
    "C16": {
        "title": "Calendar conversion and date arithmetic",
        "design_ref": "DESIGN.md section 3 (C16)",
        "technique": "Verus contracts on the real src/time.rs functions against a proleptic-Gregorian spec (days/secs since epoch); the rendering "
                     "(SystemTime::to_datetime, iso8601_utc) on its real text with format! expanded by rule R13 against the fixed-width form YYYY-MM-DDTHH:MM:SSZ",
        "level_text": "Deductive proof, for every i64 input in the stated ranges and every loop iteration (no bound), that DateTime::new(s) "
                      "yields the valid civil date-time whose seconds-since-epoch is s, and that dt + d yields the valid date-time with "
                      "secs(dt)+d; includes overflow-, assert- and unimplemented-freedom and termination of both balance loops. Rendering (unit timefmt): "
                      "to_datetime yields the valid date-time of the instant's whole seconds; iso8601_utc is year, month, day, hour, minute, second of that "
                      "date-time, each zero-padded to 4 / 2 digits, with '-', '-', 'T', ':', ':' and a final 'Z'; through year 9999 the text has exactly 20 "
                      "characters with the separators at fixed positions (thm_iso_fixed_width).",
        "level_note": "Trusted: Verus/Z3/rustc, vstd; assumed contracts for Duration::as_secs and i64::try_from(u64); the format!() calls that "
                      "print the proven fields are not under contract; ranges are preconditions (seconds <= 2^48).",
        "verus": ["time", "timefmt"],
        "verus_thorough": [],
        "kani": [],
        "witness": "c16",
        "assumptions": [
            "machine integers are NOT treated as mathematical: Verus proves absence of i64 overflow in every extracted function under the stated ranges",
            "range preconditions: epoch seconds in [0, 2^48]; added duration <= 2^48 - 60 s; start year <= 2^44 (covers 1970..9999 and far beyond)",
            "instants before 1970 are excluded (to_datetime unwraps duration_since(UNIX_EPOCH))",
            "assumed contract: std::time::Duration::as_secs returns the duration's whole seconds (uninterpreted dur_secs)",
            "assumed contract: i64::try_from(u64) succeeds iff the value fits (vstd leaves this pair unspecified)",
            "assumed (std::fmt, rule R13): format! writes the literal pieces verbatim and `{:0N}` as the zero-padded decimal; of a non-negative integer below 10^N that is exactly N digits (axiom_pad_width)",
            "assumed: instants are not before 1970 and within 2^48 seconds (the unwraps in to_datetime panic otherwise); rule S1 stand-in for `self.duration_since(SystemTime::UNIX_EPOCH)`",
            "LogFile::create's file name and write_jsonl's time member use the same fields with their own format strings: write_jsonl's is under contract in unit jsonl (C17); LogFile::create's naming statement is a region of unit timefmt (rule S1: `path_str.push(..)` -> os_push, assumed to append the text)",
        ],
        "not_covered": [
            "LogFile::create outside its naming statement (the loop over attempt numbers, create_new)",
            "SystemTime::now / duration_since (clock source)",
        ],
    },
    "C07": {
        "title": "Chunked encoder",
        "design_ref": "DESIGN.md section 3 (C07)",
        "technique": "Verus contracts on the real copy_chunked_async / hex_digit / trim_prefix against an RFC 7230 4.1 encoding spec over the reader's event history",
        "level_text": "Deductive proof, for every sequence of read events the reader contract allows (any piece length 1..=65528, any number of "
                      "reads, EOF or error at any point) and every writer failure point, unbounded: the bytes written are exactly the "
                      "concatenation of hex_min(len) CRLF data CRLF per piece, followed by 0 CRLF CRLF iff the reader reported end of stream; "
                      "a reader error ends the output without the terminating chunk; a writer error leaves a prefix; the returned count "
                      "is payload+3; all indexing in bounds, every unwrap/unimplemented unreachable, the loop terminates on finite streams. Read-back (unit respparse): a chunked reader written from "
                      "RFC 7230 section 4.1 applied to that encoding followed by anything recovers exactly the concatenation of the pieces, stops at the terminating chunk and leaves the rest "
                      "(thm_chunked_reads_back: hex_min is hexadecimal without CR / LF and reads back as the length).",
        "level_note": "Assumed contracts of futures-io/futures-lite read and write_all (contracts/io.pre.rs); streams are finite and shorter "
                      "than 2^64-3 bytes; byte-string literal axioms are generated from the literal tokens; async/.await removed (D1/D2): "
                      "cancellation between chunks is not covered. The reader contract's 'Ok(0) only at end of "
                      "stream' is proved for EventReceiver::poll_read in unit sse (C11; it did not hold before the repair 371a514: an event with empty data encoded to 0 bytes).",
        "verus": ["chunked", "respparse"],
        "verus_thorough": [],
        "kani": [],
        "witness": "c07",
        "assumptions": [
            "assumed contract (futures-lite AsyncReadExt::read): returns Ok(n) with n <= buf.len() bytes placed at buf[..n], Ok(0), or Err; nothing else is consumed",
            "assumed contract (futures-lite AsyncWriteExt::write_all): Ok => whole slice appended; Err => a prefix of the slice appended",
            "streams are finite (reader.limit()), total length + 3 <= u64::MAX",
            "byte-string literals denote their bytes (axiom generated from each literal token of the extracted function)",
            "usize is 64 bits in the verified configuration (Verus default arch assumption for `as u64`)",
        ],
        "not_covered": [
            "cancellation of the future between chunks",
            "the call site in write_http_response (proved in unit respwrite, C06)",
        ],
    },
    "C11": {
        "title": "Server-sent events: the encoder under contract and read back by an EventSource client (deductive); delivery order, exactly-once and stream end over a live server (bounded)",
        "design_ref": "DESIGN.md section 3 (C11)",
        "technique": "Verus contracts on the real Event::write_to, Event::custom and EventSender::send / disconnect / is_connected (src/event.rs; write! through rule R12 on a byte-slice sink, the line splitter through a rule-S1 stand-in) against a block specification, plus theorems over that specification: an EventSource client written from the WHATWG text dispatches exactly the event sent; the queue, the threads and the response writer only by a bounded stand-in over a live server",
        "level_text": "Deductive proof for every event: write_to hands the body writer exactly the block enc(e) -- an `event:` field iff the event has a type, one `data:` field per line of the data, lines split at CRLF, LF and CR -- reports its UTF-8 length and never reports 0 bytes (the body writer reads 0 as the end of the stream, so no event content can end it); Event::custom refuses exactly the types containing CR or LF. Theorems over enc: a client with empty buffers that receives enc(e), a blank line and anything else dispatches exactly one event with e's type (`message` when none) and e's data with line ends as LF (exactly the data when it has no CR), leaves the last-event-id and the reconnection time alone and continues with empty buffers (thm_event_reads_back); a sequence of blocks is dispatched exactly once each in order (thm_stream_in_order). EventSender: send never leaves a sender connected whose event the queue did not take, a disconnected sender stays disconnected. EventReceiver::poll_read with read_waiting / read_event: while part of an event is waiting, the queue is left alone and the next piece is delivered (as much as fits, in order, never 0 bytes, the rest keeps waiting); otherwise a 0-byte read (the end of the stream) is reported when and only when the queue reports that every sender is gone, Pending iff the queue is pending, and a received event is handed on as its whole block if the window holds it, else as its first bytes with exactly the rest left waiting -- no event is refused for its size (repaired defect f72b510); the blocking form (impl Read for EventReceiver) against the same contract without the Pending case.",
        "level_note": "Partial claim with one open known finding: the block is not ended by a blank line (tests/event.rs pins the bytes `data: msg1\\n`), so a conforming client never dispatches; the theorems supply the blank line. Not within the technique: the bounded queue between sender threads and the response writer, exactly-once delivery and the terminating chunk under real concurrency -- bounded only (stand-in c11: live server, one event per chunk, 30-40 events in order, contents that must not end the stream, two senders, overrun of the queue of 50). Assumed: the rule-S1 stand-ins (byte slice as io::Write with UTF-8 lengths additive; the line splitter = lines_of, compared with the real expression by c11 on all strings over a 6-letter alphabet up to length 5), try_send does not block.",
        "verus": ["sse"],
        "verus_thorough": [],
        "kani": [],
        "witness": "c11",
        "assumptions": [
            "rule S1: `mut buf: &mut [u8]` -> SliceSink (std's impl Write for &mut [u8]: bytes copied to the front, slice advanced, WriteZero when it does not fit; len() + UTF-8 length of what was written == original length)",
            "rule S1: `data.replace(\"\\r\\n\", \"\\n\").split(|c| c == '\\n' || c == '\\r')` -> sse_lines(data) with the meaning lines_of (assumed; compared with the real expression by c11)",
            "rule S1: str::contains(char) -> str_has_char; rule R5: the error text of Event::custom is opaque",
            "assumed: SyncSender::try_send never blocks and reports whether the queue took the value (queue_takes is uninterpreted)",
            "rule S1 on poll_read: `mut self: Pin<&mut Self>` -> `&mut self`, `Pin::new(&mut self.0).poll(cx)` -> recv_poll(&mut self.0, cx) (its answer is the uninterpreted last_poll), `futures_io::AsyncRead` -> a one-method stand-in trait",
            "utf8_len is uninterpreted with additivity, >= character count, 0 for the empty text",
            "the byte level of a partly delivered event: rule S1 `buf.len().min(self.1.len())` -> min_usize(buf.capacity(), ..), `buf[..n].copy_from_slice(&self.1[..n]);` -> buf.put_front(&self.1, n), `self.1.drain(..n);` -> drop_front (assumed meanings); utf8(s) uninterpreted with length utf8_len(s)",
            "Event::push_to on its real text at the byte level (rule R9: `write!(buf, LIT, args..).unwrap()` on the Vec<u8> -> vw_lit / vw_arg, assumed meaning of std's formatting; a string's Display output is its UTF-8 form `utf8`): what is appended is delivered_form(e) = `event: ` utf8(T) LF iff typed, then `data: ` utf8(L) LF per line. That utf8 distributes over concatenation (delivered_form(e) == utf8(enc(e))) is not used and not assumed: the two forms are stated piece by piece",
        ],
        "not_covered": [
            "that the byte form of push_to and the character form of write_to denote the same text (utf8 over concatenation): compared byte for byte by c11",
            "ordering / exactly-once / queue overrun / sender outliving the client under real concurrency: bounded c11 only",
            "the closing blank line (open known finding)",
        ],
    },
    "C14": {
        "title": "Header collections",
        "design_ref": "DESIGN.md section 3 (C14)",
        "technique": "Verus contracts on the real HeaderList / AsciiString functions against an ordered-multimap view (matching / rest filters)",
        "level_text": "Deductive proof, for every header list, every name and every loop iteration (no bound): get_all returns exactly the "
                      "values of the matching fields in order; get_only / remove_only answer iff exactly one field matches; remove_all "
                      "returns the matching values in order and leaves exactly the non-matching fields in their original order (whole-view "
                      "postcondition); add appends; every AsciiString constructor under contract yields Ok iff the input is ASCII and then "
                      "holds exactly the input characters.",
        "level_note": "The name-matching relation is the uninterpreted result of str::eq_ignore_ascii_case (assumed contract), so the theorems "
                      "hold for whatever that relation is; assumed std contracts: AsRef::as_ref is a function of its argument, ToString of "
                      "String/Box<str>/char preserves characters, char::is_ascii. Not under contract: TryFrom<&mut str>, TryFrom<Cow<str>> "
                      "(vstd has no Deref spec for Cow), From<integer> constructors, Debug/Display impls, and that read_http_request performs "
                      "exactly the three removals (iterator adapters).",
        "verus": ["headers"],
        "verus_thorough": [],
        "kani": [],
        "witness": "c14",
        "assumptions": [
            "assumed contract: str::eq_ignore_ascii_case(a, b) is a fixed relation eq_ic(a, b) of the two strings (uninterpreted)",
            "assumed contract: AsRef<str>::as_ref returns a fixed function of its receiver",
            "assumed contract: ToString for String / Box<str> / char yields the same characters (vstd's to_string_from_display_ensures is uninterpreted for them)",
            "assumed contract: char::is_ascii(c) == (c as u32) < 128",
            "vstd specifications of Vec::push / remove / len / index, slice iteration, Option, str::is_ascii, str::to_string",
        ],
        "not_covered": [
            "TryFrom<Cow<str>> for AsciiString; From<i8..usize> (to_string of integers)",
            "that read_http_request removes exactly content-type / expect / transfer-encoding (split/map/filter chains are outside Verus)",
            "Deref/DerefMut/IntoIterator pass-throughs of HeaderList (callers can mutate the Vec directly)",
        ],
    },
    "C20": {
        "title": "Status helpers and error mapping",
        "design_ref": "DESIGN.md section 4 (C20)",
        "technique": "complete (loop-free, full-domain) Kani harnesses on the real crate: one generated per status-named constructor, "
                     "one per error-mapping table; Verus for 'every 5xx response that is sent is marked connection: close': write_response computes "
                     "close = 500..=599 (conn unit), write_http_response emits the field iff close (respwrite unit), theorem thm_5xx_marked_close; Verus contract on the real From<HttpError> for Response (unit errresp): status by error class whatever the payload, fixed body for server-caused errors",
        "level_text": "Bit-precise proof by CBMC over complete harnesses: every `fn NAME_DDD` constructor found in src/response.rs yields kind "
                      "Normal and code DDD (harnesses generated from the names in the working tree, so the set is exhaustive by construction); "
                      "every HttpError variant maps to its documented status with body exactly the kind name / the fixed 413 text / the fixed "
                      "500 text for arbitrary payload strings; is_1xx..is_5xx agree with the numeric class for all 65536 codes. Deductive "
                      "(Verus, unbounded): a 5xx response sent through HttpConn::write_response goes out with the field `connection: close` "
                      "right after the status line / content-type, and the write side is shut down after it. From<HttpError> for Response (Verus, every error value with every payload): the status is that of the error's class (err_code, written from the property), a server-caused error gets a body that says exactly `Internal server error` (as a static text or as its bytes) and BodyTooLong the fixed 413 text -- functions of a literal alone, so no payload text (paths, OS messages) can reach the client.",
        "level_note": "Kani/CBMC trusted; payload strings are 0..2 arbitrary chars (the mapping never inspects them).",
        "verus": ["conn", "respwrite", "errresp"],
        "kani": ["c20"],
        "witness": "c20",
        "assumptions": [
            "the harnesses run on a scratch copy of the working tree with the harness module appended under cfg(kani)",
            "unit errresp, rule S1: the anonymous `impl Into<ResponseBody>` parameter of Response::text / with_body is named (`<B: Into<ResponseBody>>`), so that the conversion is carried as call_ensures(<B as Into<ResponseBody>>::into, ..) and resolved through vstd's blanket Into specification to the proved From<&'static str> for ResponseBody (== StaticStr(s)) / From<String> for ResponseBody (== Vec of String::into_bytes, whose result is the uninterpreted text_bytes of the text); two `&str` with the same characters are the same value",
            "payload strings of the three payload-carrying variants range over 0..=2 arbitrary Unicode scalar values; the mapping code never reads them",
        ],
        "not_covered": [
            "HttpError::is_server_error classifies TimerThreadNotStarted as not-a-server-error although it maps to 500 (observation, outside the property statement)",
        ],
    },
    "C09": {
        "title": "Body size limits",
        "design_ref": "DESIGN.md section 3 (C09)",
        "technique": "Verus contracts on the real body readers (copy_async, read_http_body_to_vec/_to_file, read_http_unsized_body_to_vec/_to_file, "
                     "RequestBody::len/is_pending) over the reader event history, with assumed contracts for Take / File / TempFile / FixedBuf; "
                     "HttpConn::read_body_to_vec/_to_file and handle_http_conn_once with ghost state (declared body, handler consulted, handler limit) "
                     "and obligations at the body reads and at the final handler run",
        "level_text": "Deductive proof for every declared length, every limit in u64 (including 0 and u64::MAX) and every read partition, unbounded: "
                      "a known-length read consumes at most len bytes, returns exactly the next len bytes (Vec) / reports len (file) or fails "
                      "with Truncated; an unknown-length read takes at most max_len+1 bytes from the connection and writes exactly those to the "
                      "temp file, is accepted iff the stream ended within max_len bytes and otherwise fails with BodyTooLong; copy_async copies "
                      "every byte once, in order, and returns the count; no arithmetic overflows (max_len+1 at u64::MAX was a genuine defect, fixed). "
                      "handle_http_conn_once, for every S, handler and request: a body is read to memory without consulting the handler iff it is "
                      "declared with L <= S (and then arrives as a Vec of exactly L bytes); the handler is consulted about a pending body only when "
                      "L > S or undeclared; a body is fetched to a file only after the handler asked, with the handler's own limit M, and the "
                      "final handler run then sees a file body of n <= M bytes (n == L when declared) -- L > M never reaches a second run. Request::recv_body (the handler-side helper): a body whose known "
                      "length exceeds the limit is answered with a Normal 413 without being fetched, a body not yet fetched is asked for with exactly that limit, otherwise the request passes unchanged.",
        "level_note": "Assumed contracts: futures-lite Take (budget, pass-through, prophecy relation take_fate), async_fs::File as a writer, "
                      "temp_file::TempFile, fixed_buffer::FixedBuf (from its source), io read/write_all; the temp file's on-disk content is the "
                      "writer's ghost `cur()`; async removed (D1/D2); in handle_http_conn_once the handler future is replaced by its output (D4) and "
                      "the handler is an arbitrary FnOnce(Request) -> Response. 'never holds more than S bytes in "
                      "memory' only as far as the in-memory body is a Vec of the declared length <= S (the fixed head buffer is extra).",
        "verus": ["body", "conn"],
        "verus_thorough": ["copy"],
        "kani": [],
        "witness": ["c09", "cconn"],
        "assumptions": [
            "assumed contract (futures-lite Take): delivers at most `limit` bytes, each the next byte of the inner reader; reports Eof itself once the budget is used; inner reader given up with the Take",
            "assumed contract (async_fs::File / temp_file::TempFile): create gives an empty writer; what is written is the file's content",
            "assumed contract (fixed_buffer::FixedBuf 1.0.2): index arithmetic of new/writable/wrote/read_all as in its source",
            "assumed contracts of read / read_to_end / write_all / close (contracts/io.pre.rs)",
            "usize is 64 bits (Verus default) for `len as u64`",
        ],
        "not_covered": [
            "Request::recv_body's 413 constructor enters as a stand-in (payload_too_large_413 is a Normal 413: complete Kani harness in C20)",
            "memory residency beyond 'an in-memory body has its declared length <= S'",
        ],
    },
    "C04": {
        "title": "Per-connection exchange integrity: one handler run and one response per request",
        "design_ref": "DESIGN.md section 4 (C04)",
        "technique": "Verus: the real handle_http_conn_once and handle_http_conn (handler future replaced by its output, rule D4) with ghost "
                     "state inserted at the handler call sites (run counter, connection snapshot) and obligations at every run, at the "
                     "drop-connection returns and at the end of the per-connection loop body, over the HttpConn method contracts of C05; read_http_head through its contract in unit head (every request sent is seen once whatever the delivery schedule: the outcome is a function of the bytes, not of how they were cut into reads)",
        "level_text": "Deductive proof for every request, every threshold S and every handler (an arbitrary FnOnce(Request) -> Response): "
                      "the handler is run once per request, or a second time exactly when its first answer was the instruction to fetch the "
                      "body, and then with the fetched body (a file of the declared length within the handler's limit, no longer pending); a "
                      "handler that asks to drop the connection yields no bytes for that request (at most the interim 100-continue that "
                      "preceded a body it asked for); when the response is chosen nothing but a complete interim response has been written; "
                      "the per-connection loop starts an exchange only on a connection with nothing unread and nothing owed, and reads another "
                      "request only after an exchange that returned without error (every error, dropped connection, 4xx/5xx ends the loop; a "
                      "5xx shuts the write side, C05).",
        "level_note": "Partial: the clauses about a panicking handler (500), the blocking pool, and 'the client receives exactly the bytes of the "
                      "responses the handler returned, in order' across several requests are outside the deductive part -- the first two live in "
                      "src/lib.rs closures over safina's pool and catch_unwind, the last needs the serialiser (assumed as ser(resp, close) here) "
                      "and the request reader (assumed, never writes). The bounded stand-in c04 (real server over loopback, 888 scripted "
                      "connections incl. panics, pipelining, drops, fetched bodies) covers them with a stated bound and is labelled bounded.",
        "verus": ["conn", "head"],
        "verus_thorough": [],
        "kani": [],
        "witness": ["c04"],
        "assumptions": ["as C05", "the handler is modelled as a total function value of type F: FnOnce(Request) -> Response whose calls have no effect on the connection",
                        "rule D4: `Fut: Future<Output = Response>` is replaced by Response (a future is its output; cancellation not modelled)"],
        "not_covered": ["handler panic -> 500 (src/lib.rs, catch_unwind on the blocking pool) -- bounded stand-in c04 only",
                        "byte-exact equality of the responses on the wire with the handler's responses over several requests -- bounded stand-in c04 only",
                        "request order / body bytes as seen by the handler (framing: C01, bodies: C09)"],
    },
    "C05": {
        "title": "Connection protocol-state contract",
        "design_ref": "DESIGN.md section 3 (C05)",
        "technique": "Verus contracts on every HttpConn method (real text, async removed) against an explicit protocol-state specification over "
                     "(read_state, write_state, bytes on the wire); sequence clauses as lemmas over those contracts; complete Kani harness for the byte counter",
        "level_text": "Deductive proof for every pre-state, hence by induction for every call sequence: each guard returns exactly the documented "
                      "error and changes neither the states nor the wire; read_request owes a response before reading and derives read_state "
                      "from the body kind; 100-continue is sent only while a response is owed and automatically before a body announced with "
                      "Expect; interim responses keep the response owed; a final response moves to None and cannot be sent twice; 5xx and "
                      "partially failed writes shut the write side down; nothing is written after shutdown.",
        "level_note": "write_http_response is used through its contract, proved on the real function in unit respwrite (run with this check). Assumed at this level: read_http_request "
                      "(never writes), TcpStream / Chain / FixedBuf stand-ins, the poll-based AsyncWrite impl of AsyncWriteCounter (its "
                      "poll_write is discharged by a complete Kani harness). The body readers are the real functions, re-verified in this unit. "
                      "Not covered: that the peer observes the bytes (kernel), cancellation, that a body read consumes exactly len bytes of "
                      "*this* connection (proved over the reader handed to the body functions, C09). The bounded stand-in c05 drives the real HttpConn over a "
                      "loopback socket pair with every operation sequence up to length 3 (4 thorough) for twelve client scripts against a reference "
                      "state machine written from the property statement and compares results, states, bodies and the bytes received.",
        "verus": ["conn"],
        "verus_thorough": [],
        "kani": ["c05"],
        "witness": ["c05", "cconn"],
        "assumptions": [
            "write_http_response's contract (write_post: ser(resp, close) on Ok, a prefix on Err, refusal before any byte, counter in step) is proved on the real function in unit respwrite and used here through use_contract",
            "assumed contract: read_http_request never writes to the stream it reads from (kept(reader))",
            "assumed contracts: async_net::TcpStream as reader and writer; TcpStream::shutdown(&self) writes nothing; futures-lite Chain; FixedBuf",
            "assumed at Verus level: AsyncWriteCounter's AsyncWrite impl forwards to the inner writer and counts accepted bytes (poll_write discharged by Kani harness c05_counter_poll_write)",
            "#[derive(Structural)] is added to ReadState / WriteState / ResponseKind so that the derived == is read as structural equality",
        ],
        "not_covered": ["kernel / peer-side observation of the bytes", "task cancellation at await points",
                        "that the socket bytes follow the buffered ones in a body read (assumed contract chain_front of `(&mut FixedBuf).chain(stream)`; what a body read leaves in the buffer is proved: rb_exact_clause); the API-level model-based stand-in c05 observes both"],
    },
    "C08": {
        "title": "A failed response write never corrupts the connection",
        "design_ref": "DESIGN.md section 4 (C06/C08)",
        "technique": "Verus: write_response contract + lemmas thm_failed_write_is_final / thm_failed_write_nothing_sent over it (conn unit); "
                     "handle_http_conn_once postcondition once_post and the error branch of handle_http_conn (ghost connection snapshots, obligations at the "
                     "error write and at the return after shutdown_write); From<HttpError> for Response; "
                     "writer-error clauses of copy_async / copy_chunked_async (prefix of the correct output)",
        "level_text": "Deductive proof for every failure point the writer contract allows (failure after any number of bytes): the bytes on the wire "
                      "are a prefix of wire + ser(resp, close); if at least one byte was sent the write side is shut down and no later operation "
                      "adds a byte (no second status line); if none was sent the response is still owed and the wire is unchanged; body copy "
                      "loops leave a prefix of the correct body encoding on writer failure. "
                      "Per-connection loop: handle_http_conn_once, started on a ready connection, returns an error other than Disconnected only with "
                      "the write side shut down, nothing owed, or the response still owed and at most one complete 100-continue on the wire; the "
                      "error branch of handle_http_conn then writes nothing or a prefix of the one serialisation of a Normal 400/413/431/500/505 "
                      "response and always leaves the write side shut down.",
        "level_note": "'the one correct serialisation' is ser(resp, close) of unit respwrite, proved on the real write_http_response: body sources "
                      "that cannot be opened, fail while read, or deliver fewer bytes than declared all end in Err with a prefix written "
                      "(thm_failure_leaves_prefix, thm_short_body_is_error). In handle_http_conn the "
                      "handler future is replaced by its output (rule D4), println! is dropped (rule R8) and loop termination is not claimed.",
        "verus": ["conn", "respwrite", "copy", "chunked"],
        "verus_thorough": [],
        "kani": ["c05"],
        "witness": ["c08", "cconn"],
        "assumptions": ["as C05", "assumed write_all contract: on Err a prefix of the slice was appended"],
        "not_covered": ["the file system itself (a body file's content is whatever its reader delivers: assumed reader contract); connection-level fault injection is bounded (c08 / cconn)"],
    },
    "C01": {
        "title": "Request reading is total (framing and fragmentation part)",
        "design_ref": "DESIGN.md section 4 (C01)",
        "technique": "Verus contracts on the real find_slice / Head::read_head_bytes / read_http_head / trim_whitespace / From<HeadError> over the "
                     "reader event history, with Head::try_read's parsing half abstracted as an uninterpreted total function; partition independence as a lemma",
        "level_text": "Deductive proof for every buffer content, every stream and every partition into reads, unbounded: read_http_head "
                      "terminates; its outcome is a function of the bytes available (buffered ++ delivered) only -- HeadTooLong iff the buffer "
                      "fills without CRLFCRLF, Disconnected / Truncated on end of stream or read error with empty / non-empty buffer, otherwise "
                      "the parse result of exactly the bytes before the first CRLFCRLF -- the read index advances by exactly head+4 and everything "
                      "after stays readable, nothing is written; thm_partition_independent: two runs over prefixes of one stream agree.",
        "level_note": "Head::try_read is proved on its real text in unit tryread (Truncated iff no CRLFCRLF and then the buffer is untouched; "
                      "otherwise exactly head+4 bytes are consumed whatever the parse result; never Truncated / MissingRequestLine after that; "
                      "the iterator chain `split(LF).map(trim_trailing_cr)` enters through a rule-S1 stand-in keyed to its exact tokens). The head "
                      "unit uses try_read through that contract plus one assumption: the parse result is a function of the head bytes. "
                      "parse_header_line is under contract in unit `parse` (total, every unwrap unreachable, given the assumed meaning of its "
                      "regex matcher). Not covered: panic-freedom of parse_request_line (Url crate), the line splitting in try_read, panic "
                      "hooks. FixedBuf and the reader are assumed contracts.",
        "verus": ["head", "parse", "tryread", "request"],
        "verus_thorough": [],
        "kani": [],
        "witness": "c01",
        "assumptions": [
            "Head::try_read == read_head_bytes(buf)? ; parse(head bytes) with parse total and never Truncated (syntactic side conditions checked every run)",
            "assumed contract: fixed_buffer::FixedBuf index arithmetic (from its source)",
            "assumed contract: AsyncReadExt::read; streams finite",
            "`==` on [u8] is element-wise (vstd PartialEqSpec for slices)",
        ],
        "not_covered": [
            "parse_request_line's str::from_utf8 / url::Url (assumed); the split/map line iteration of try_read enters through a rule-S1 stand-in (unit tryread)",
            "that the safe_regex matcher implements the regular expression literal (assumed contract of Matcher2::match_slices, keyed to the exact literal)",
            "process panic hook / 'task silently killed'",
            "the rest of read_http_request between its regions (the struct literal at the end, ContentType / Expect derivation)",
        ],
    },
    "C19": {
        "title": "File log writer: rotation step and file-set bookkeeping",
        "design_ref": "DESIGN.md section 3 (C19)",
        "technique": "Verus contracts on the real PrefixFileSet operations and PrefixFile's ordering (priority-queue view, invariant len == sum of "
                     "file lengths) and on the body of the writer thread's per-event loop, extracted as a loop-body region of "
                     "LogFileWriter::start_writer_thread and proved against a step contract over (buffer, current file, file set) using "
                     "those operation contracts; LogFile::write_all / age on their real text; the directory scan of PrefixFileSet::new as a loop-body region (unit logscan: one directory entry, std::fs entries and metadata as stand-ins with uninterpreted attributes) and its closing statement",
        "level_text": "Deductive proof for every file set, every current file, every event and every configuration in u64 (no bound): one "
                      "writer step appends the event's line exactly once and whole, after everything written before -- to the current file, "
                      "only if that keeps it within the per-file size and age, or else as the first line of a fresh file after the old one "
                      "was handed to the file set with its full recorded length; after the step the total size of the set plus the current "
                      "file exceeds the keep-size by at most that one event, no file older than the keep-age remains, what remains of the set "
                      "is a suffix of the pop order (oldest deleted first), the length bookkeeping of file and set is exact, the buffer is "
                      "empty again, and no arithmetic under- or overflows (the keep-size subtraction did: genuine defect, fixed). "
                      "PrefixFileSet: push, delete_oldest, delete_older_than, delete_oldest_while_over_max_len preserve len == sum of lengths, "
                      "delete oldest first, reach total <= k / no file older than the cut-off, terminate; PrefixFile's Ord is reversed mtime. "
                      "PrefixFileSet::new (unit logscan), for whatever the file system reports: a directory entry joins the set exactly when its path starts with the prefix byte-wise and it is a regular file, with the "
                      "length and modification time reported for it; an unreadable entry or metadata is an error, never skipped; every other entry (other names, directories, links) leaves the set alone; the total the set "
                      "starts with is the sum of the recorded lengths, so the representation invariant the later operations preserve holds from the start.",
        "level_note": "The step contract is an inductive invariant of the `for event in receiver` loop (its precondition is re-established by "
                      "its postcondition); the loop itself, the channel and the thread are not modelled. `.unwrap()` on the step's I/O calls "
                      "is taken as 'the thread ends on I/O failure' (rule R11): 'the writer keeps running' is proved only in the sense that "
                      "nothing but a failed I/O call can panic. Assumed: LogFile::create gives an empty file with len 0, File::write_all "
                      "appends, LogEvent::write_jsonl appends one non-empty line, one clock reading per step, std BinaryHeap as a priority "
                      "queue over PrefixFile's Ord, SystemTime / Duration ordering and subtraction, remove_file. Not covered: "
                      "the `for` header over read_dir in PrefixFileSet::new (that every entry is visited once is std's iterator), the path handling before the scan, restarts.",
        "verus": ["logset", "logwriter", "logscan"],
        "verus_thorough": [],
        "kani": [],
        "witness": "c19",
        "assumptions": [
            "assumed contract: std::collections::BinaryHeap peek/pop return a greatest element under Ord (an oldest file, given the proved reversal), push inserts",
            "assumed contract: SystemTime is totally ordered by a timestamp; `now - duration` is defined when representable (precondition); Duration ordering; duration_since",
            "assumed: std::fs::remove_file returns a Result and has no effect on the in-memory set",
            "assumed: LogFile::create returns an empty file with len 0; std::fs::File::write_all appends the slice on Ok; LogEvent::write_jsonl appends the event's line (>= 1 byte) to the buffer",
            "assumed: the writer step reads the clock once (checked syntactically each run) and the keep-age can be subtracted from that reading",
            "rule R11: `.unwrap()` of the step's I/O results is where the thread may end; states after it exist only for Ok",
            "sizes are below 2^64: set total + current file + line <= u64::MAX (precondition)",
            "format!(..) error texts are opaque (R5)",
            "unit logscan: std::fs::DirEntry / Metadata as stand-ins whose path, kind, length and modification time are uninterpreted attributes; Metadata::modified is supported on the platform (the real code unwraps it); rule S1: the byte-wise starts_with on the two paths' encoded bytes -> path_has_byte_prefix, `files.iter().map(|f| f.len).sum()` -> heap_sum_len (the sum of the recorded lengths, assumed to fit 64 bits)",
        ],
        "not_covered": [
            "the thread, the channel (acceptance order = receive order), the loop header `for event in receiver`, sync_all at the end",
            "LogFile::create's body beyond its naming statement (create_new, the retry loop); of the start-up sequence of start_writer_thread the path handling and the directory scan (the statements after it are the region region_startup)",
            "of PrefixFileSet::new: path_prefix.parent(), read_dir and the loop header (the loop body and the closing statement are regions of unit logscan); behaviour across restarts",
            "panics caused by failing I/O (disk full): the writer thread ends",
        ],
    },
    "C15": {
        "title": "Cookies: Set-Cookie formatting and request parsing",
        "design_ref": "DESIGN.md section 3 (C15)",
        "technique": "Verus contracts on the real `impl Display for Cookie` and `impl From<Cookie> for AsciiString` (write! expanded by rule R12 over the "
                     "Display-as-contract model) against a stage-wise text specification; theorem over the specification: an RFC 6265 section 5.2 "
                     "parser written independently of the writer reads back the name, the value and the attribute list; the request-side "
                     "parser (iterator chains into a HashMap inside read_http_request) only by a bounded, exhaustive-over-a-small-alphabet stand-in",
        "level_text": "Deductive proof for every cookie (every name, value, domain, path, duration, flags): the one Set-Cookie value written is "
                      "name=value followed, in this order and each only under its condition, by `; Domain=`d, `; Expires=`t, `; HttpOnly`, "
                      "`; Max-Age=`secs in decimal, `; Path=`p, `; SameSite=`Strict|Lax|None, `; Secure`; it is pure ASCII, so building the header "
                      "cannot panic, and the header value is exactly that text. Theorem (thm_cookie_reads_back): for RFC-valid inputs (name "
                      "without ';' '=' and edge blanks, value / domain / path without ';' and edge blanks) the RFC 6265 5.2 algorithm -- cut at "
                      "the first ';', split the pair at its first '=', then attribute by attribute -- returns exactly the name, the value and "
                      "the list [Domain, Expires, HttpOnly, Max-Age, Path, SameSite, Secure] restricted to the ones set, with their values. "
                      "Request side (unit cookiereq): the Cookie loop of read_http_request, extracted as a region with its two nested loops under "
                      "invariants, fills the map with exactly the fold of `name = value` pairs over the Cookie fields in order and their pieces in "
                      "order (so later duplicates override earlier ones, across fields too), name and value split at the first '=', and returns "
                      "MalformedCookieHeader iff some non-empty piece has no '='.",
        "level_note": "Request side: the iterator chains `split(';').map(str::trim).filter(non-empty)` and `splitn(2, '=')` enter through rule-S1 "
                      "stand-ins keyed to their exact tokens, with the assumed meaning of those std functions written out as spec functions "
                      "(cut at ';', trim ASCII blanks, drop empty pieces; cut at the first '='); HashMap::insert overwrites (assumed). The bounded "
                      "stand-in c15 additionally runs the real read_http_request on every Cookie value over {a, b, '=', ';', ' '} up to 6 characters "
                      "(7 thorough) and pairs of fields. Assumed: the std::fmt model of rule R12, Display of u64, Duration::as_secs, "
                      "`t != UNIX_EPOCH` and `d > Duration::ZERO` as predicates (rule S1, keyed to the exact comparisons), iso8601_utc as a "
                      "function of the instant yielding ASCII without ';', `format!(\"{cookie}\")` = the Display output, AsciiString's type "
                      "invariant (its constructors are proved in unit headers). Not covered: interpretation of attribute values by a client "
                      "(domain matching, date parsing of Expires -- the library writes ISO 8601, which RFC 6265 clients ignore), Cookie::new's "
                      "panics on empty / non-ASCII names, one Set-Cookie field per cookie at the Response level (HeaderList::add, C14).",
        "verus": ["cookie", "cookiereq", "request", "errresp"],
        "verus_thorough": [],
        "kani": [],
        "witness": "c15",
        "assumptions": [
            "assumed meaning of std::fmt's write! (rule R12) and of format!(\"{x}\") as the Display output",
            "assumed: Display for u64 prints decimal digits; Duration::as_secs; the two time comparisons as predicates (rule S1 stand-ins keyed to the exact tokens)",
            "assumed: FormatTime::iso8601_utc is a function of the instant and yields ASCII without ';' and without edge blanks (precondition cookie_ok / axiom_iso_ascii)",
            "AsciiString's type invariant (pure ASCII): established by its constructors, proved in unit headers (C14), stated as a Verus type invariant here",
            "RFC-valid inputs are a precondition of the read-back theorem (cookie_ok), as in the property statement",
        ],
        "not_covered": [
            "the std meaning of str::split / trim / filter / splitn and HashMap::insert (assumed through stand-ins); that the map is handed to the handler unchanged (struct literal at the end of read_http_request)",
            "client-side interpretation of attribute values (Expires date syntax, Domain matching)",
            "that Cookie::new / with_domain / with_path panic on non-ASCII or empty-name input (the contracts state the accepted inputs as preconditions; the panics themselves are the documented behaviour)",
        ],
    },
    "C17": {
        "title": "Every log line is one valid JSON object that preserves the tag values",
        "design_ref": "DESIGN.md section 3 (C17)",
        "technique": "Verus contracts on the real write_json_str, Display for TagValue / TagList / Level and LogEvent::write_jsonl (write! / writeln! "
                     "expanded piece by piece by rule R12 over a character-sink model of std::fmt) against a piecewise line specification; theorems over "
                     "the specification: an RFC 8259 reader written independently of the encoder (strings with every escape; a flat object of string / "
                     "bare-token values) reads the line back as exactly the expected member list; the line has no control character except its final line break",
        "level_text": "Deductive proof for every string (every Unicode scalar value sequence), every tag list and every event, unbounded: "
                      "write_json_str appends exactly '\"' + escape of every character + '\"' (\\\", \\\\, \\n, \\r, \\t, \\u00XX for the other "
                      "characters below 0x20, everything else verbatim); a tag value is written as that JSON string, the decimal form of the "
                      "integer (all widths incl. 128 bit), true / false, null or the float's text; the tag list is \"name\":value joined by "
                      "commas in list order; write_jsonl writes {\"time\":\"YYYY-MM-DDTHH:MM:SSZ\",\"level\":\"<level>\",<members>,\"time_ns\":<n>} and "
                      "a line break, with no comma slip when the list is empty. Theorems: for every string s and every context, an RFC 8259 section 7 "
                      "string decoder started at the string's opening quote returns exactly s and ends exactly after its closing quote -- a "
                      "value cannot terminate its string early, add members or continue into the next member; every member name and string "
                      "value reads back (thm_string_member_reads_back); the line contains no character below 0x20 before its final '\\n' "
                      "(thm_one_line), so it is exactly one line; and the whole line, read by a reader written from the RFC 8259 grammar for a flat object "
                      "(key strings, ':' , string or bare-token values, ',' separators, '}' and the final line break), yields exactly the members "
                      "time, level, one per tag in list order -- string tags as strings that decode to the tag's text, the others as their bare "
                      "token -- and time_ns (thm_line_is_object, by lemma_parse_members: induction over the member list).",
        "level_note": "Assumed (std::fmt): write!/writeln! write the literal pieces verbatim and each argument through its Display impl, in order; "
                      "Display of the integer types is the decimal form (digits, leading '-'), `{:0N}` of a non-negative i64 is digits only; "
                      "Display of bool / String; Formatter::write_char / write_str append; char::from_digit. A Float tag holds the text std's "
                      "Display produced for a finite f32 / f64 (non-finite values are logged as strings since fix 61b4c0b); that this text is a "
                      "JSON number is not proved (it is a precondition `raw_ok` of the object theorem: a bare token without quote, separator, blank or "
                      "control character; bounded stand-in c17 checks real floats with an independent RFC 8259 parser). Bare tokens are not "
                      "checked against the number grammar in the deductive part (integers are digits with an optional leading '-' by the assumed "
                      "Display contract). SystemTime -> (date, ns) "
                      "conversions are uninterpreted here (C16 proves DateTime::new).",
        "verus": ["jsonl"],
        "verus_thorough": [],
        "kani": [],
        "witness": "c17",
        "assumptions": [
            "assumed meaning of std::fmt's write! / writeln!: literal pieces verbatim, `{}` = the argument's Display output, `{:0N}` = zero-padded decimal, in order, stopping at the first error (rule R12)",
            "assumed: Display for i8..i128 / u8..u128 / usize prints the decimal form; for bool true / false; for String / str the characters",
            "assumed: std::fmt::Formatter::write_char / write_str append to the output; char::from_digit(d, 16) is the lower-case hex digit",
            "assumed: a TagValue::Float holds std's Display text of a finite float, which has no control character (type invariant; From<f32>/<f64> are not under contract)",
            "string literals denote their characters (Verus reveal_strlit, generated from the literal tokens)",
        ],
        "not_covered": [
            "that a bare token is a valid JSON number / literal (the object reader accepts any token without quote, separator, blank or control character): bounded stand-in c17",
            "that std prints a finite float as a JSON number; From<f32> / From<f64> / From<&Path> conversions (format!)",
            "the stdout logger's non-JSON format (start_stdout_logger_thread), Debug impls",
            "UTF-8 encoding of the characters by the sink (std)",
        ],
    },
    "C18": {
        "title": "Logging front end: the request / response wrapper, `log` with its tag order and the three front functions (deductive); thread-local isolation and the installed logger (bounded)",
        "design_ref": "DESIGN.md section 3 (C18)",
        "technique": "Verus contracts on the real log_response and log_request_and_response (src/log/mod.rs) over an abstract logger (`log` as a "
                     "stand-in whose only effect is the uninterpreted fact was_logged(level, tags)), and on the real `log` (src/log/logger.rs) and error / info / debug "
                     "(unit logorder: the thread-local tags, the stable sort and the installed logger as rule-S1 / opaque stand-ins, the key closure on its real text); "
                     "the installed-logger state machine (unit loginstall: set_global_logger, the release in ClearGlobalLoggerOnDrop::drop, global_logger's start of the stdout default, GlobalLoggerGuard::new / deref) as functions of the state the global mutex hands out (rule S1: the lock becomes a `&mut GlobalLoggerState` parameter / region argument); "
                     "thread-local isolation and concurrency of the installed logger only by a bounded stand-in that installs a capturing logger",
        "level_text": "Deductive proof for every handler result: log_response returns the handler's own response for Ok, the error's response for an "
                      "Err that has one and the bare 500 otherwise; it hands the logger exactly the event [code, response_body_len when the length is "
                      "known] at info for a response and [the error's own tags, its message, (its backtrace,) code, response_body_len] at error for an "
                      "error; a stopped logger comes back as Err (the `?`), never as a panic. log_request_and_response returns exactly what "
                      "log_response makes of whatever the handler returned for that request, and operates on the per-thread tag set in this order: emptied, the request's tags added, the handler run, the duration added, the response logged (ghost operation log; the tag set itself is a thread_local!, so the effect of each operation is assumed). `log` (unit logorder): on Ok exactly one event was handed to the installed logger, with the "
                      "level given and the tags ordered(given tags ++ the calling thread's tags), where ordered = the msg tags, then http_method, path, request_body_len, request_body, "
                      "response_body_len, then all others -- each kind in the order given (the key closure's table is proved equal to that ranking); on Err nothing is claimed but the error. "
                      "error / info / debug: the same with their level and the message tag in front of the tags given. Theorems: ordered(s) has as many tags as s and exactly the same ones "
                      "(thm_all_tags_and_no_other); tags of one kind keep the order given (thm_order_given_is_kept); a leading msg tag stays first (thm_message_first). "
                      "Installed logger (unit loginstall, for every state None / Some / Default): set_global_logger refuses exactly while a logger is installed and then changes nothing, otherwise the sender given becomes the installed one (replacing a started default); "
                      "the release asserts `is_some` -- proved never to fail from the state an install leaves -- and leaves none installed; global_logger starts the stdout default exactly when nothing is there and otherwise leaves the state as it is, never returning with none; "
                      "the guard `log` sends through can only be built over a state that has a logger (type invariant) and hands out exactly that logger's sender (thm_installed_is_used, thm_release_after_use).",
        "level_note": "Partial claim. Not within the technique: that each call produces exactly one event *at the installed logger* under concurrent "
                      "install / clear, that tags of other threads never leak under real concurrency, the stdout default logger -- these need the "
                      "global mutex, the channel and thread_local! (no Verus model). Bounded only (stand-in c18, one thread plus one helper thread, "
                      "capturing logger through set_global_logger, events read back through write_jsonl): the same tag order end to end (incl. 48 tags), thread-local tags appended and "
                      "cleared, a foreign thread's tag absent, the three levels, the wrapper starting from a clean tag set and carrying the request's "
                      "tags, a stopped logger as Err. Assumed: Tag::new stores the name and the converted value (tv_of), "
                      "`e.response.unwrap_or_else(Response::internal_server_error_500)` as `the error's response or the bare 500` (rule S1; the "
                      "constructor is under a Kani harness in C20), ResponseBody::len (proved in unit respwrite).",
        "verus": ["logwrap", "logorder", "loginstall"],
        "verus_thorough": [],
        "kani": [],
        "witness": "c18",
        "assumptions": [
            "assumed: `log(time, level, tags)` delivers exactly one event with that level and those tags to the installed logger or returns LoggerStoppedError (stand-in; was_logged is uninterpreted)",
            "assumed: Tag::new(name, value) == Tag { name, value: value.into() } with the conversion kept abstract (tv_of)",
            "rule S1 stand-ins: `e.response.unwrap_or_else(Response::internal_server_error_500)`, `before.elapsed().as_millis()`; the thread-local tag operations are opaque calls",
            "unit logorder, rule S1: `tags.0.sort_by_key(KEY)` -> sort_tags_by_key(&mut tags.0, KEY) assumed to be a stable sort (for a key with the values 0..5, 99: the concatenation of the per-key subsequences in key order), with the precondition that KEY computes the ranking -- proved for the real closure; `with_thread_local_log_tags(|t| tags.0.extend_from_slice(t))` -> append_thread_tags (the thread's own tags are the uninterpreted thread_tags()); `tags.into()` / `msg.into()` -> abstract conversions (Into<TagList> for Vec<Tag> keeps the tags)",
            "unit logorder: two `&str` with the same characters are the same value (string-literal patterns are compared as values by Verus)",
            "unit logorder: global_logger().send(event) hands the event to the installed logger or fails (was_sent is uninterpreted)",
            "unit loginstall, rule S1: `let mut mutex_guard = lock_global_logger();` -> a `&mut GlobalLoggerState` parameter (set_global_logger) / region argument (drop, global_logger); `MutexGuard<'static, GlobalLoggerState>` -> `Box<GlobalLoggerState>` in GlobalLoggerGuard: assumed that the mutex is exclusive and that every access to the global goes through it (poisoning is ignored by the real code); start_stdout_logger_thread only yields a sender",
        ],
        "not_covered": [
            "exactly-once delivery and routing under concurrent set_global_logger / drop, the default stdout logger",
            "thread-local isolation under real concurrency (bounded c18 checks it with one sequential helper thread)",
            "that std's sort_by_key is stable, and which tags the thread-local holds (bounded c18 observes both end to end)",
        ],
    },
    "C03": {
        "title": "Message framing comes only from the headers",
        "design_ref": "DESIGN.md section 4 (C03)",
        "technique": "Verus on let-regions of read_http_request (repeated Content-Length / Transfer-Encoding rejected, from the proved HeaderList "
                     "lookups), on read_request's state derivation and the body readers; complete Kani harness on the body-classification "
                     "statement (and the same statement as a Verus region for every method string); the Expect and Content-Type statements as regions too, and the whole of read_http_request on its real text (unit request) so that the data flow between the statements is proved as well; bounded stand-in c03 for the same on concrete requests",
        "level_text": "Deductive: the statements of read_http_request that look up Content-Length and Transfer-Encoding return an error whenever "
                      "two or more fields match (any list, any case mix); the Content-Length region also decides the value: no field -> None, one field that is 1*DIGIT, "
                      "non-empty and fits 64 bits -> exactly that number, anything else -> InvalidContentLength (cl_result); the Transfer-Encoding statement answers (gzip, chunked) for exactly the lists `gzip`, `chunked`, `gzip, chunked` and the empty one and refuses "
                      "every other list and every repeated field with UnsupportedTransferEncoding (te_result; string-literal patterns on their real text); the statement that delimits the body is, for every "
                      "method string, length and flag, the RFC 7230 3.3.3 class (body_class: coding -> unknown length, N -> N bytes, neither -> to end of stream for POST / PUT / Expect / gzip, else none); read_request sets the body read state from the classification; a "
                      "known-length body read consumes at most / returns exactly len bytes (C09 unit) and is exactly the next len bytes as far as they were buffered, what followed them staying in the "
                      "connection buffer for the next request (rb_exact_clause in unit conn). Bit-precise (Kani, complete): the "
                      "classification statement maps every (chunked, gzip, expect, Option<u64> length, method) to the RFC 7230 3.3.3 class. "
                      "The whole read_http_request (unit request): the buffer is compacted and the head read as head_post says, and on success the request handed on is request_of(head): method, url, "
                      "content type, Expect flag, the two coding flags, the cookie map, the declared length and the body class are the functions of the head's fields stated above, applied to the field list as it "
                      "stands when each is computed, and the header list left for the handler is the head's list minus the Content-Type, Expect and Transfer-Encoding fields; a refusal is one of "
                      "UnsupportedTransferEncoding / MalformedCookieHeader / InvalidContentLength, exactly when the corresponding function says so. "
                      "The Expect flag is set exactly when there is one Expect field and it says 100-continue, the content type is ct_parse of the one Content-Type field (none or several: no type) -- both "
                      "functions of the header fields alone, the fields consumed. Bounded (never counted as proved): two-message pipelining, the ContentType table, via the "
                      "real read_http_request over the header cross product.",
        "level_note": "The table inside ContentType::parse is only exercised by the bounded stand-in (cookies: unit cookiereq, C15); the split/trim/filter chain that "
                      "cuts the Transfer-Encoding value into items enters through a rule-S1 stand-in (te_list is uninterpreted: the contract is about the list of items, whatever the cutting; c03 compares the real chain); the regions are statements "
                      "copied verbatim into wrapper functions (the wrapper signature is the only added text).",
        "verus": ["framing", "conn", "body", "request", "ctype"],
        "verus_thorough": [],
        "kani": ["c03"],
        "witness": ["c03", "c05"],
        "assumptions": [
            "unit ctype: ContentType::parse on its real text (rule S1: `s.split(';').next()` -> first_piece = the text before the first ';', assumed): a media type the library names gives its variant whatever parameters follow, anything else is kept as the whole text -- the table that framing / request use as the uninterpreted ct_parse",
            "as C14 for the HeaderList lookups (str::eq_ignore_ascii_case uninterpreted, AsRef)",
            "the let-regions are identified by the header-name literal they contain; a restructured read_http_request gives UNDECIDED and the bounded stand-in decides",
            "Kani harness: method drawn from a 10-string pool bracketing POST / PUT (prefixes, extensions, lower case)",
            "rule S1 stand-ins in the Content-Length region: `s.bytes().all(|b| b.is_ascii_digit())` -> all_ascii_digits, `s.parse()` -> parse_u64 with the assumed meaning of u64::from_str on digit-only text (non-empty and <= u64::MAX -> that value)",
            "rule S1 in the Transfer-Encoding region: the iterator chain `opt.as_ref().map(AsciiString::as_str).unwrap_or_default().split(',').map(str::trim).filter(..)` -> te_items (the items as a Vec, so that Verus' own next() specification applies); two `&str` with the same characters are the same value (string-literal patterns); Option::map_or by its definition",
            "assumed: chain_front, the contract of `(&mut FixedBuf).chain(stream)` (buffered bytes are delivered first; what was not delivered stays readable)",
        ],
        "not_covered": [
            "the table inside ContentType::parse (ct_parse is abstract: the property only asks for a function of the field); how the Transfer-Encoding value is cut into items (te_list is abstract)",
            "Request::id (a random number), remote_addr (passed through)",
        ],
    },
    "C06": {
        "title": "Response serialisation: the emitted bytes are the one serialisation of the response",
        "design_ref": "DESIGN.md section 3 (C06)",
        "technique": "Verus on the whole real write_http_response (format!/write! expanded piece by piece by rule R9) against a concrete "
                     "specification ser(resp, close) = head ++ framed body over the writer / reader event model; copy_async and "
                     "copy_chunked_async used through their proved contracts (use_contract); the duplicate-guard let-regions and "
                     "ResponseBody::len / is_empty as before; theorems over the contract, among them the read-back by an HTTP/1.1 reader written from RFC 7230 (unit respparse); "
                     "bounded stand-in c06 for the same on concrete responses",
        "level_text": "Deductive, unbounded, for every normal response, every body source and every pattern of partial socket writes the "
                      "writer contract allows: write_http_response writes exactly status line (HTTP/1.1 SP 3-digit code SP reason CRLF) ++ "
                      "automatic fields (content-type iff a type is set, connection: close iff closing, then exactly one of content-length = "
                      "decimal body length and transfer-encoding: chunked, by the body source alone) ++ the response's own fields in the "
                      "order added (name: value CRLF, value as ISO-8859-1) ++ CRLF ++ the body (exactly n bytes for a declared length n, "
                      "valid chunked coding otherwise, C07); on any failure a prefix of that; a non-normal response or one that would "
                      "duplicate an automatic field is refused with the specific error before any byte is written; a known-length body that "
                      "delivers fewer bytes than declared is never reported as sent. Read-back (unit respparse, theorems over ser): a reader written from RFC 7230 section 3 (status-line, "
                      "*(field-name \":\" OWS value OWS CRLF), CRLF) applied to ser's head followed by anything returns exactly the status code, the automatic fields by their fixed rules, then the "
                      "response's own fields in the order added with their values minus surrounding blanks, and leaves the body untouched (thm_head_reads_back); the content-length numeral reads back as "
                      "the number of body bytes that follow (thm_content_length_is_body_length); an RFC 7230 section 4.1 chunked reader recovers from a body of unknown length exactly the bytes the source "
                      "delivered and stops at the terminating chunk (thm_chunked_reads_back, thm_unknown_length_body_reads_back). The setters with_header / with_status / with_type / with_body (unit errresp) change exactly what they name; with_header appends at the end of the field list.",
        "level_note": "Assumed: std's formatting of `{}` placeholders is concatenation of the literal pieces and the arguments' Display output "
                      "(decimal for integers, the text for strings); reason_phrase / ContentType::as_str are functions of their argument (their "
                      "texts are uninterpreted); what a body source delivers is a function of the body value (files do not change while sent); "
                      "the statement converting a field value to ISO-8859-1 is replaced by a stand-in keyed to its exact tokens (rule S1). "
                      "The read-back theorems hold under the property's own hypotheses, stated as preconditions: a three-digit code, names non-empty and free of ':' CR LF, values free of CR LF, and "
                      "reason phrase / content-type text free of CR LF (their texts are uninterpreted here; the bounded stand-in c06 checks every code and type on the real tables).",
        "verus": ["respwrite", "respguard", "copy", "chunked", "respparse", "errresp", "ctype"],
        "verus_thorough": [],
        "kani": [],
        "witness": "c06",
        "assumptions": [
            "unit ctype: ContentType::as_str and reason_phrase on their real text (string-literal tables): no text the library supplies contains CR or LF (a hypothesis of thm_head_reads_back, now proved for the named types and every status code), a named type's text is its media type, alone or followed by `; charset=UTF-8`, and the text is empty exactly for a type whose media text is empty; respwrite still enters through ct_text / reason_text as functions of the argument","as C14 for the HeaderList lookups", "as C07 / C09 for the I/O contracts",
                        "assumed meaning of format!/write! with `{}` placeholders (rule R9): literal pieces and Display outputs concatenated in order; Display of u16/u64 is the decimal numeral, of &str / AsciiString the text",
                        "assumed: BodyAsyncReader delivers a prefix of body_events(body); in-memory bodies deliver their bytes then end of stream; streams shorter than 2^64-3 bytes",
                        "assumed: derive(PartialEq) on ContentType is structural equality; Vec::extend(b\"..\") == extend_from_slice (rule R10)",
                        "rule S1 stand-ins: extend_latin1 for the chars().map(..) statement, ek_unexpected_eof() for the opaque ErrorKind constructor"],
        "not_covered": ["the texts of reason phrases and content types (uninterpreted; that they contain no CR / LF is a hypothesis of the read-back theorems, checked by c06 on the real tables)",
                        "BodyAsyncReader / EventReceiver internals (assumed reader contract)"],
    },

    "C02": {
        "title": "Parsed head is faithful to the bytes sent (grammar part)",
        "design_ref": "DESIGN.md section 4 (C02)",
        "technique": "Verus contracts on parse_request_line / parse_header_line / trim_whitespace (real text; regex! replaced by a stand-in matcher "
                     "keyed to the exact literal) + a complete language-equivalence decision of each regex literal against the RFC 7230 reference expression",
        "level_text": "Deductive, for every line: parse_header_line returns the name verbatim and the matched value with exactly the surrounding "
                      "SP/HTAB/CR/LF run removed, rejects with MalformedHeader iff the line does not match or the value is not ASCII, and never "
                      "panics; parse_request_line yields MalformedRequestLine / MalformedPath / UnsupportedProtocol in that order, accepts only "
                      "HTTP/1.1 with a target starting with '/', and returns the method verbatim. Complete decision (product automaton over all "
                      "256 byte values): the two regex literals in the source accept exactly the language of the reference expressions "
                      "token SP [^ \\t\\r\\n]+ SP [^ \\t\\r\\n]+ and token ':' OWS .* OWS, with the same number of capture groups.",
        "level_note": "The language-equivalence step is a decision procedure, not a Verus obligation; it discharges the assumed matcher contract "
                      "against the literal in the source (not against safe_regex's implementation, and not the capture-group boundaries). "
                      "Head::try_read is proved on its real text in unit tryread: the fields are the field lines' parses in the order sent, one per line, "
                      "a line outside the grammar rejects the head (never skipped, folded or repaired), the request line's errors come first; the "
                      "line splitting itself (`split(LF).map(trim_trailing_cr)`) is a rule-S1 stand-in with the assumed meaning of slice::split "
                      "(trim_trailing_cr is proved, its reference-literal pattern through an S1 stand-in). Not covered: target -> url::Url (path / query).",
        "verus": ["parse", "head", "tryread"],
        "verus_thorough": [],
        "kani": ["c02"],
        "witness": "c02",
        "regex": [
            {"src": "src/head.rs", "item": "impl Head / fn parse_header_line", "kind": "field", "groups": 2,
             "reference": "([!#$%&'*+\\-.^_`|~0-9A-Za-z]+):[ \\t]*(.*)[ \\t]*"},
            {"src": "src/head.rs", "item": "impl Head / fn parse_request_line", "kind": "request", "groups": 3,
             "reference": "([!#$%&'*+\\-.^_`|~0-9A-Za-z]+) ([^ \\t\\r\\n]+) ([^ \\t\\r\\n]+)"},
        ],
        "assumptions": [
            "assumed contract of safe_regex Matcher2 / Matcher3::match_slices: groups are as the regular expression says (field name / method are tchar runs)",
            "assumed std contracts: String::from_utf8 / str::from_utf8 on ASCII, str::starts_with(char), slice to_vec; url::Url stand-in (Url::parse of the constant base succeeds)",
            "latin1_bytes_to_utf8 maps byte i to the character with that code point (iterator chain, assumed)",
        ],
        "not_covered": ["target -> Url path / query", "the std meaning of `split(LF).map(trim_trailing_cr)` (rule-S1 stand-in split_lines_vec in unit tryread; c02 compares the real chain, incl. bare-LF line ends)",
                        "capture-group boundaries of the regex (only the language and the group count are decided)"],
    },
}

# ---- attribution of failed obligations in shared units (bin/check)
# A failed obligation whose clause text carries tags cNN(..) belongs exactly to the tagged properties.  Otherwise it
# belongs to the unit's owner and to every property that claims it by a SCOPE pattern for that unit (regex over
# "item | message | clause").  A property reports only obligations that belong to it; the rest
# are listed in its evidence as notes (they are another property's alarm, or an unproved supporting contract).
UNIT_OWNER = {
    "time": "C16", "chunked": "C07", "headers": "C14", "copy": "C09", "body": "C09", "conn": "C05", "head": "C01",
    "parse": "C02", "logset": "C19", "logwriter": "C19", "logscan": "C19", "jsonl": "C17", "cookie": "C15", "timefmt": "C16", "tryread": "C02", "logwrap": "C18", "ctype": "C06", "loginstall": "C18", "cookiereq": "C15", "framing": "C03", "respguard": "C06", "respwrite": "C06", "errresp": "C20", "sse": "C11", "logorder": "C18", "respparse": "C06", "request": "C03",
}
SCOPE = {
    # total request reading also needs the parsers to be panic-free
    "C01": {"parse": [r"\| (precondition not satisfied|possible arithmetic|possible division|index out of bounds|unreachable)"]},
    # ... and the fields reach the handler in the order sent: the removal operations read_http_request applies must keep it
    "C02": {"head": [r"^fn trim_whitespace \|"], "headers": [r"^impl HeaderList / fn remove_(all|only) \|"]},
    # a request body is exactly the next N bytes; coded bodies are refused when read
    "C03": {"conn": [r"^impl HttpConn / fn read_request \|"],
            "body": [r"^fn read_http_body_to_(vec|file) \|"]},
    "C06": {"copy": [r"^fn copy_async \|"], "chunked": [r"^fn copy_chunked_async \|"]},
    # one response per request on the wire, and the connection closed after a failed one: that is write_response's contract
    # ... and every request sent is seen, once, whatever the delivery schedule: that is read_http_head's contract (its outcome is a
    # function of the bytes, not of how they were cut into reads)
    "C04": {"conn": [r"^impl HttpConn / fn write_response \|"], "head": [r"^fn read_http_head \|"]},
    # a failure mid-body leaves a prefix of the one serialisation: that is what the two copy loops promise for reader / writer errors
    "C08": {"chunked": [r"^fn copy_chunked_async \|"], "copy": [r"^fn copy_async \|"]},
    "C09": {"conn": [r"^fn (read_http_|copy_async)", r"^impl HttpConn / fn read_body_to_(vec|file) \|"], "copy": [r"."]},
}


# scenarios of a bounded stand-in shared by several properties: which failing inputs belong to which property
WITNESS_SCOPE = {
    "cconn": {"C09": r"^(upload|pipebody|recvbody) ", "C08": r"^(bodyfile|stall) ", "C05": r"^(pipeline|pipebody) "},
    # the API-level model-based stand-in: every disagreement belongs to C05; the ones in a body read, in the body read state after a request was read, or in reading the request that follows a body (the body handed out,
    # what is left for the next request) also to C03
    "c05": {"C03": r"\((BV|BF\(\d+\))\)|ops=\S*B[VF]\S* expected=call \d+ \(RR\)|expected=after call \d+ \(RR\) states"},
}


def attribute(unit_name, ob_id):
    """-> set of property ids a failed obligation of `unit_name` belongs to"""
    import re as _re
    tags = set("C" + t for t in _re.findall(r"\bc(\d\d)\(", ob_id))
    if tags:
        return tags
    who = set()
    for pid, m in SCOPE.items():
        for pat in m.get(unit_name, []):
            if _re.search(pat, ob_id):
                who.add(pid)
    # the unit's owner always owns the untagged obligations of its unit; SCOPE adds co-owners
    return who | {UNIT_OWNER.get(unit_name, "?")}

NOT_APPLICABLE = {
    "C10": "about destructor execution at scope exit, future cancellation and panic (Rust drop semantics + temp-file's Drop + the file system); no statement in /repo to attach an obligation to, and neither verifier models drop timing or the file system",
    "C12": "the slot pool is a channel mutated through &self from several tasks / threads and refilled in Drop; expressing it needs Verus' atomic-invariant machinery inside the real types, and Kani has no thread or channel support",
    "C13": "a liveness / race property of accept_loop's await points against permit revocation; deductive contracts on sequentialised code cannot express it",
}
