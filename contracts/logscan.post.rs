fn canary_scan(e: Result<DirEntry, std::io::Error>, p: &Path, d: &Path, files: BinaryHeap<PrefixFile>) {
    let r = region_scan_entry(e, p, d, files);
    assert(false);
}
