use std::io::ErrorKind;
#[verifier::external_type_specification]
#[verifier::external_body]
pub struct ExErrorKind(std::io::ErrorKind);
// the header names the regions look up (string literals are `&str`; AsRef<str> for str is the identity,
// which the uninterpreted asref_spec leaves open -- so the contracts talk about asref_spec of the literal)
pub open spec fn lit_content_length() -> Seq<char> { asref_spec::<&str, str>(&"content-length")@ }
pub open spec fn lit_transfer_encoding() -> Seq<char> { asref_spec::<&str, str>(&"transfer-encoding")@ }
