// ---- assumed contracts on std / safe-regex used by Head::parse_header_line
#[verifier::external_type_specification]
#[verifier::external_body]
pub struct ExFromUtf8Error(std::string::FromUtf8Error);
pub open spec fn ascii_bytes(b: Seq<u8>) -> bool { forall|i: int| 0 <= i < b.len() ==> b[i] < 128 }
// String::from_utf8 accepts every ASCII byte string and yields exactly those characters
pub assume_specification[ String::from_utf8 ](v: Vec<u8>) -> (r: Result<String, std::string::FromUtf8Error>)
    ensures ascii_bytes(v@) ==> r is Ok && r->Ok_0@.len() == v@.len()
        && forall|i: int| 0 <= i < v@.len() ==> (#[trigger] r->Ok_0@[i]) as u32 == v@[i] as u32;

// tchar of RFC 7230 (what the field-name group of the regex can match)
pub open spec fn is_tchar(b: u8) -> bool {
    (48 <= b <= 57) || (65 <= b <= 90) || (97 <= b <= 122)
    || b == 33 || b == 35 || b == 36 || b == 37 || b == 38 || b == 39 || b == 42 || b == 43 || b == 45 || b == 46
    || b == 94 || b == 95 || b == 96 || b == 124 || b == 126
}
// safe_regex matcher for the literal  ([-!#$%&'*+.^_`|~0-9A-Za-z]+):[ \t]*(.*)[ \t]*   (full match).
// Assumed contract, from the regular expression's meaning: on a match, group 1 is a non-empty run
// of tchar at the start of the line followed by ':', and group 2 is a sub-slice of what follows.
#[verifier::external_body]
#[verifier::reject_recursive_types(F)]
pub struct Matcher2<F> { _f: core::marker::PhantomData<F> }
pub uninterp spec fn hdr_matches(line: Seq<u8>) -> bool;
pub uninterp spec fn hdr_name(line: Seq<u8>) -> Seq<u8>;    // group 1 of the match
pub uninterp spec fn hdr_value(line: Seq<u8>) -> Seq<u8>;   // group 2 of the match
// a String and a byte string denote the same text (character i has code point byte i)
pub open spec fn same_text(s: Seq<char>, b: Seq<u8>) -> bool {
    s.len() == b.len() && forall|i: int| 0 <= i < b.len() ==> (#[trigger] s[i]) as u32 == b[i] as u32
}
impl<F> Matcher2<F> {
    #[verifier::external_body]
    pub fn match_slices<'d>(&self, data: &'d [u8]) -> (r: Option<(&'d [u8], &'d [u8])>)
        ensures
            r is Some <==> hdr_matches(data@),
            r is Some ==> ({
                let (name, value) = r->Some_0;
                &&& name@ == hdr_name(data@) && value@ == hdr_value(data@)
                &&& name@.len() >= 1
                &&& name@ == data@.subrange(0, name@.len() as int)
                &&& forall|i: int| 0 <= i < name@.len() ==> is_tchar(#[trigger] name@[i])
                &&& name@.len() < data@.len() && data@[name@.len() as int] == 58u8
                &&& exists|a: int, b: int| name@.len() < a <= b <= data@.len() && #[trigger] data@.subrange(a, b) == value@
            }),
    { unimplemented!() }
}
#[verifier::external_body]
pub fn hdr_matcher() -> Matcher2<()> { unimplemented!() }

// Head::latin1_bytes_to_utf8 is `bytes.iter().map(|&b| b as char).collect()` (iterator chain,
// outside Verus): assumed to map byte i to the character with that code point.
impl Head {
    #[verifier::external_body]
    fn latin1_bytes_to_utf8(bytes: &[u8]) -> (r: String)
        ensures r@.len() == bytes@.len(), forall|i: int| 0 <= i < bytes@.len() ==> (#[trigger] r@[i]) as u32 == bytes@[i] as u32
    { unimplemented!() }
}
pub proof fn lemma_ascii_chars_from_bytes(s: Seq<char>, b: Seq<u8>)
    requires s.len() == b.len(), forall|i: int| 0 <= i < b.len() ==> (#[trigger] s[i]) as u32 == b[i] as u32
    ensures vstd::utf8::is_ascii_chars(s) <==> ascii_bytes(b)
{
    if ascii_bytes(b) {
        assert forall|i: int| 0 <= i < s.len() implies (s[i] as u32) < 128 by { assert(s[i] as u32 == b[i] as u32); }
    }
    if vstd::utf8::is_ascii_chars(s) {
        assert forall|i: int| 0 <= i < b.len() implies b[i] < 128 by { assert(s[i] as u32 == b[i] as u32); }
    }
}

// ---- request line: safe_regex matcher for  (token+) ([^ \t\r\n]+) ([^ \t\r\n]+)  (full match), assumed contract
#[verifier::external_body]
#[verifier::reject_recursive_types(F)]
pub struct Matcher3<F> { _f: core::marker::PhantomData<F> }
pub uninterp spec fn req_matches(line: Seq<u8>) -> bool;
pub uninterp spec fn req_method(line: Seq<u8>) -> Seq<u8>;
pub uninterp spec fn req_target(line: Seq<u8>) -> Seq<u8>;
pub uninterp spec fn req_proto(line: Seq<u8>) -> Seq<u8>;
impl<F> Matcher3<F> {
    #[verifier::external_body]
    pub fn match_slices<'d>(&self, data: &'d [u8]) -> (r: Option<(&'d [u8], &'d [u8], &'d [u8])>)
        ensures
            r is Some <==> req_matches(data@),
            r is Some ==> ({
                let (m, t, p) = r->Some_0;
                &&& m@ == req_method(data@) && t@ == req_target(data@) && p@ == req_proto(data@)
                &&& m@.len() >= 1 && t@.len() >= 1 && p@.len() >= 1
                &&& forall|i: int| 0 <= i < m@.len() ==> is_tchar(#[trigger] m@[i])
            }),
    { unimplemented!() }
}
#[verifier::external_body]
pub fn req_matcher() -> Matcher3<()> { unimplemented!() }

#[verifier::external_type_specification]
#[verifier::external_body]
pub struct ExUtf8Error(std::str::Utf8Error);
// std::str::from_utf8: ASCII is always valid UTF-8; the text is the bytes (first character shown)
pub assume_specification[ std::str::from_utf8 ](v: &[u8]) -> (r: Result<&str, std::str::Utf8Error>)
    ensures ascii_bytes(v@) ==> r is Ok && same_text(r->Ok_0@, v@),
        r is Ok ==> ((r->Ok_0@.len() > 0) == (v@.len() > 0))
            && (v@.len() > 0 && v@[0] < 128 ==> r->Ok_0@.len() > 0 && r->Ok_0@[0] as u32 == v@[0] as u32)
            && (v@.len() > 0 && v@[0] >= 128 ==> r->Ok_0@.len() > 0 && r->Ok_0@[0] as u32 >= 128);
pub uninterp spec fn starts_with_spec<P>(s: Seq<char>, p: P) -> bool;
#[verifier::allow(undeclared_external_trait)]
pub assume_specification<P: core::str::pattern::Pattern>[ str::starts_with ](s: &str, p: P) -> (r: bool)
    ensures r == starts_with_spec(s@, p);
// what `starts_with('/')` means
#[verifier::external_body]
pub proof fn axiom_starts_with_char()
    ensures forall|s: Seq<char>, c: char| #[trigger] starts_with_spec(s, c) == (s.len() > 0 && s[0] == c)
{}
// url::Url (stand-in): Url::parse of the constant base succeeds; parsing a target may fail
#[derive(Debug)]
#[verifier::external_body]
pub struct UrlParseError { _p: () }
#[verifier::external_body]
pub struct ParseOptions<'a> { _p: core::marker::PhantomData<&'a ()> }
impl Url {
    #[verifier::external_body]
    pub fn options<'a>() -> ParseOptions<'a> { unimplemented!() }
    #[verifier::external_body]
    pub fn parse(s: &str) -> (r: Result<Url, UrlParseError>)
        ensures s@ == "http://unknown/"@ ==> r is Ok
    { unimplemented!() }
}
impl<'a> ParseOptions<'a> {
    #[verifier::external_body]
    pub fn base_url(self, b: Option<&'a Url>) -> Self { unimplemented!() }
    #[verifier::external_body]
    pub fn parse(self, s: &str) -> Result<Url, UrlParseError> { unimplemented!() }
}
pub open spec fn http11() -> Seq<u8> { seq![72u8, 84u8, 84u8, 80u8, 47u8, 49u8, 46u8, 49u8] }
