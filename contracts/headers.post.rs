fn smoke_headers() {
    let l = HeaderList::new();
    assert(l.0@.len() == 0);
}
