// smoke caller: every precondition above is satisfiable, and the contracts compose.
fn smoke_time() {
    let a = is_leap_year(2024);
    assert(a);
    let b = year_len_days(1900);
    assert(b == 365);
    let c = month_len_days(2000, 2);
    assert(c == 29);
    let dt = DateTime::new(86399);
    assert(valid(dt));
}

// ---- property-level lemmas (C16): the broken-down time is *the* civil date-time of its instant
pub proof fn lemma_dby_mono(a: int, b: int)
    requires 1 <= a <= b
    ensures dby(a) <= dby(b), a < b ==> dby(a) + 365 <= dby(b)
    decreases b - a
{
    if a < b {
        lemma_dby_mono(a, b - 1);
        lemma_dby_step(b - 1);
    }
}
// a valid date lies inside its own year
pub proof fn lemma_days_in_year(dt: DateTime)
    requires valid(dt)
    ensures dby(dt.year as int) <= days(dt) < dby(dt.year + 1)
{
    lemma_dbm(dt.year as int);
    lemma_dby_step(dt.year as int);
}
// injectivity: two valid date-times that denote the same second are the same date-time, hence
// "the result has the same seconds" means "the same fields as converting, adding, converting back"
// mixed-radix digits are unique: the day count and the h / m / s digits are recoverable from the total
#[verifier::spinoff_prover]
pub proof fn lemma_mixed_radix(d: int, h: int, m: int, s: int)
    requires 0 <= h < 24, 0 <= m < 60, 0 <= s < 60
    ensures ({
        let t = ((d * 24 + h) * 60 + m) * 60 + s;
        &&& t % 60 == s && (t / 60) % 60 == m && (t / 3600) % 24 == h && t / 86400 == d
    })
{
    let t1 = d * 24 + h;
    let t2 = t1 * 60 + m;
    let t3 = t2 * 60 + s;
    assert(t3 % 60 == s && t3 / 60 == t2);
    assert(t2 % 60 == m && t2 / 60 == t1);
    assert(t1 % 24 == h && t1 / 24 == d);
    assert(t3 / 3600 == t1) by { assert(t3 / 3600 == (t3 / 60) / 60); }
    assert(t3 / 86400 == d) by { assert(t3 / 86400 == (t3 / 3600) / 24); }
}
#[verifier::spinoff_prover]
pub proof fn thm_secs_injective(a: DateTime, b: DateTime)
    requires valid(a), valid(b), secs(a) == secs(b)
    ensures a.year == b.year, a.month == b.month, a.day == b.day, a.hour == b.hour, a.min == b.min, a.sec == b.sec
{
    lemma_mixed_radix(days(a), a.hour as int, a.min as int, a.sec as int);
    lemma_mixed_radix(days(b), b.hour as int, b.min as int, b.sec as int);
    lemma_days_in_year(a);
    lemma_days_in_year(b);
    if a.year < b.year { lemma_dby_mono(a.year + 1, b.year as int); }
    if b.year < a.year { lemma_dby_mono(b.year + 1, a.year as int); }
    assert(a.year == b.year);
    lemma_dbm(a.year as int);
    // same year, same day-of-year => same month and day (dbm is strictly increasing in the month)
    assert(a.month == b.month);
}
// every instant before 10000-01-01T00:00:00Z has a four-digit year
pub proof fn thm_year_four_digits(dt: DateTime)
    requires valid(dt), secs(dt) < 253402300800
    ensures dt.year <= 9999
{
    lemma_days_in_year(dt);
    assert(dby(10000) == 2932897) by (compute);
    if dt.year >= 10000 { lemma_dby_mono(10000, dt.year as int); }
}

// vacuity canary -- must FAIL
fn canary_time(d: Duration) {
    proof { axiom_i64_try_from_u64(); lemma_dbm(2000); lemma_dby_step(2000); }
    let s = d.as_secs();
    let x = i64::try_from(s);
    assert(false);
}
