//! C15 bounded stand-in / witness replay.
//! (a) request side: the real read_http_request on `Cookie:` header values enumerated over a small alphabet, against the
//!     parsing the property states (split on ';', blanks around segments ignored, name / value split at the first '=',
//!     later duplicates win, several Cookie fields, a non-empty segment without '=' -> MalformedCookieHeader);
//! (b) response side: Cookie values built through the API, formatted by the real code into the Set-Cookie field of a
//!     response and read back by an independent RFC 6265 section 5.2 parser.
use fixed_buffer::FixedBuf;
use servlin::internal::{read_http_request, HttpError};
use servlin::{AsciiString, Cookie, Response, SameSite};
use std::collections::BTreeMap;
use std::time::{Duration, SystemTime};
use verif_replay::{block_on, ScriptReader, Step};

fn ref_cookies(fields: &[String]) -> Result<BTreeMap<String, String>, ()> {
    let mut m = BTreeMap::new();
    for f in fields {
        // the header value itself has its surrounding optional whitespace stripped by the head parser
        let f = f.trim_matches(|c| c == ' ' || c == '\t');
        for seg in f.split(';') {
            let seg = seg.trim_matches(|c: char| c == ' ' || c == '\t');
            if seg.is_empty() { continue; }
            match seg.find('=') { Some(k) => { m.insert(seg[..k].to_string(), seg[k + 1..].to_string()); } None => return Err(()) }
        }
    }
    Ok(m)
}
fn check_request(fields: &[String]) -> Option<String> {
    let desc = format!("reqcookie fields={}", fields.iter().map(|f| hex(f.as_bytes())).collect::<Vec<_>>().join(","));
    let lines: Vec<String> = fields.iter().map(|f| format!("Cookie: {f}")).collect();
    check_lines(desc, &lines, fields)
}
/// whole field lines, Cookie fields among others: the map is that of the Cookie fields in the order sent, wherever the
/// other fields stand (the reader removes some of them from the list before it looks at the cookies)
fn check_mixed(lines: &[String]) -> Option<String> {
    let desc = format!("reqmix lines={}", lines.iter().map(|f| hex(f.as_bytes())).collect::<Vec<_>>().join(","));
    let fields: Vec<String> = lines.iter().filter(|l| l.to_ascii_lowercase().starts_with("cookie:")).map(|l| l[7..].to_string()).collect();
    check_lines(desc, lines, &fields)
}
fn check_lines(desc: String, lines: &[String], fields: &[String]) -> Option<String> {
    let mut msg = b"GET / HTTP/1.1\r\n".to_vec();
    for l in lines { msg.extend_from_slice(format!("{l}\r\n").as_bytes()); }
    msg.extend_from_slice(b"\r\n");
    let want = ref_cookies(fields);
    let r = std::panic::catch_unwind(|| {
        let mut buf: FixedBuf<4096> = FixedBuf::new();
        let mut rd = ScriptReader::new(vec![Step::Data(msg.clone()), Step::Eof]);
        block_on(read_http_request("127.0.0.1:1".parse().unwrap(), &mut buf, &mut rd)).map(|r| r.cookies.into_iter().collect::<BTreeMap<_, _>>())
    });
    match (r, want) {
        (Err(_), _) => Some(format!("{desc} expected=no-panic actual=panic")),
        (Ok(Ok(got)), Ok(w)) => if got == w { None } else { Some(format!("{desc} expected=cookies{w:?} actual=cookies{got:?}")) },
        (Ok(Err(HttpError::MalformedCookieHeader)), Err(())) => None,
        (Ok(Err(e)), Ok(w)) => Some(format!("{desc} expected=cookies{w:?} actual={e:?}")),
        (Ok(Ok(got)), Err(())) => Some(format!("{desc} expected=MalformedCookieHeader actual=cookies{got:?}")),
        (Ok(Err(e)), Err(())) => Some(format!("{desc} expected=MalformedCookieHeader actual={e:?}")),
    }
}
#[derive(Debug, Default, PartialEq, Clone)]
struct Parsed { name: String, value: String, domain: Option<String>, path: Option<String>, max_age: Option<i64>, secure: bool, http_only: bool, same_site: Option<String>, expires: Option<String> }
/// RFC 6265 section 5.2 (attribute names case-insensitive; last occurrence of an attribute wins)
fn rfc6265_parse(s: &str) -> Option<Parsed> {
    let ws = |c: char| c == ' ' || c == '\t';
    let (nv, mut rest) = match s.find(';') { Some(i) => (&s[..i], &s[i..]), None => (s, "") };
    let k = nv.find('=')?;
    let mut p = Parsed { name: nv[..k].trim_matches(ws).to_string(), value: nv[k + 1..].trim_matches(ws).to_string(), ..Default::default() };
    if p.name.is_empty() { return None; }
    while !rest.is_empty() {
        rest = &rest[1..];
        let (av, r2) = match rest.find(';') { Some(i) => (&rest[..i], &rest[i..]), None => (rest, "") };
        rest = r2;
        let (an, avl) = match av.find('=') { Some(i) => (av[..i].trim_matches(ws), av[i + 1..].trim_matches(ws)), None => (av.trim_matches(ws), "") };
        match an.to_ascii_lowercase().as_str() {
            "domain" => { if !avl.is_empty() { p.domain = Some(avl.trim_start_matches('.').to_ascii_lowercase()) } }
            "path" => { p.path = Some(avl.to_string()) }
            "max-age" => { if !avl.is_empty() && (avl.as_bytes()[0] == b'-' || avl.as_bytes()[0].is_ascii_digit()) && avl[1..].bytes().all(|b| b.is_ascii_digit()) { p.max_age = avl.parse().ok() } }
            "secure" => p.secure = true,
            "httponly" => p.http_only = true,
            "samesite" => p.same_site = Some(avl.to_string()),
            "expires" => p.expires = Some(avl.to_string()),
            _ => {}
        }
    }
    Some(p)
}
/// a cookie described by a short text so that a witness can be replayed:
/// name|value|domain|path|max_age secs|secure 0/1|http_only 0/1|samesite S/L/N|expires secs (0 = unset), fields hex-encoded where text
fn check_set_cookie(d: &str) -> Option<String> {
    let desc = format!("setcookie c={d}");
    let f: Vec<&str> = d.split('|').collect();
    let t = |h: &str| String::from_utf8(unhex(h)).unwrap();
    let (name, value, domain, path) = (t(f[0]), t(f[1]), t(f[2]), t(f[3]));
    let max_age: u64 = f[4].parse().unwrap();
    let (secure, http_only) = (f[5] == "1", f[6] == "1");
    let ss = match f[7] { "S" => SameSite::Strict, "L" => SameSite::Lax, _ => SameSite::None };
    let expires: u64 = f[8].parse().unwrap();
    let r = std::panic::catch_unwind(|| {
        let mut c = Cookie::new(&name, AsciiString::try_from(value.clone()).unwrap()).with_max_age(Duration::from_secs(max_age)).with_secure(secure).with_http_only(http_only).with_same_site(ss.clone());
        if !domain.is_empty() { c = c.with_domain(&domain); }
        if !path.is_empty() { c = c.with_path(&path); }
        if expires != 0 { c = c.with_expires(SystemTime::UNIX_EPOCH + Duration::from_secs(expires)); }
        let resp = Response::new(200).with_set_cookie(c);
        resp.headers.iter().filter(|h| h.name.as_str().eq_ignore_ascii_case("set-cookie")).map(|h| h.value.as_str().to_string()).collect::<Vec<_>>()
    });
    let fields = match r { Ok(v) => v, Err(_) => return Some(format!("{desc} expected=no-panic actual=panic")) };
    if fields.len() != 1 { return Some(format!("{desc} expected=one Set-Cookie field actual={}", fields.len())); }
    let got = match rfc6265_parse(&fields[0]) { Some(p) => p, None => return Some(format!("{desc} expected=parsable actual={:?}", fields[0])) };
    let want = Parsed { name: name.clone(), value: value.clone(), domain: if domain.is_empty() { None } else { Some(domain.trim_start_matches('.').to_ascii_lowercase()) },
        path: if path.is_empty() { None } else { Some(path.clone()) }, max_age: if max_age == 0 { None } else { Some(max_age as i64) }, secure, http_only,
        same_site: Some(match ss { SameSite::Strict => "Strict", SameSite::Lax => "Lax", SameSite::None => "None" }.to_string()), expires: None };
    let got_cmp = Parsed { expires: None, ..got.clone() };
    if got_cmp != want { return Some(format!("{desc} expected={want:?} actual={got_cmp:?} field={:?}", fields[0])); }
    if (expires != 0) != got.expires.is_some() { return Some(format!("{desc} expected=Expires present iff set actual={:?}", fields[0])); }
    None
}
fn hex(b: &[u8]) -> String { b.iter().map(|x| format!("{x:02x}")).collect() }
fn unhex(s: &str) -> Vec<u8> { (0..s.len() / 2).map(|i| u8::from_str_radix(&s[2 * i..2 * i + 2], 16).unwrap()).collect() }
fn main() {
    std::panic::set_hook(Box::new(|_| {}));
    let args: Vec<String> = std::env::args().collect();
    if args.len() >= 3 && args[1] == "replay" {
        let w = args[2..].join(" ");
        let r = if w.starts_with("reqcookie") {
            let fs: Vec<String> = w.split("fields=").nth(1).unwrap().split(' ').next().unwrap().split(',').map(|h| String::from_utf8(unhex(h)).unwrap()).collect();
            check_request(&fs)
        } else if w.starts_with("reqmix") {
            let ls: Vec<String> = w.split("lines=").nth(1).unwrap().split(' ').next().unwrap().split(',').map(|h| String::from_utf8(unhex(h)).unwrap()).collect();
            check_mixed(&ls)
        } else { check_set_cookie(w.split("c=").nth(1).unwrap().split(' ').next().unwrap()) };
        match r { Some(m) => { println!("WITNESS {m}"); std::process::exit(1) } None => { println!("OK witness no longer fails"); std::process::exit(0) } }
    }
    let thorough = args.iter().any(|a| a == "--thorough");
    let mut n = 0u64; let mut found: Vec<String> = Vec::new();
    // (a) every Cookie value over the alphabet {a, b, '=', ';', ' '} up to length 6 (7 when thorough), and pairs of fields
    let alpha = ['a', 'b', '=', ';', ' '];
    let maxlen = if thorough { 7 } else { 6 };
    let mut vals: Vec<String> = vec![String::new()];
    let mut frontier = vec![String::new()];
    for _ in 0..maxlen { let mut nxt = Vec::new(); for s in &frontier { for c in alpha { let mut t = s.clone(); t.push(c); nxt.push(t); } } vals.extend(nxt.iter().cloned()); frontier = nxt; }
    for v in &vals {
        if v.starts_with(' ') || v.ends_with(' ') { continue; } // surrounding OWS is the head parser's business (C02)
        n += 1; if let Some(m) = check_request(&[v.clone()]) { if found.len() < 6 { found.push(m) } }
    }
    let small: Vec<&String> = vals.iter().filter(|v| v.len() <= 3 && !v.starts_with(' ') && !v.ends_with(' ')).collect();
    for a in &small { for b in &small { n += 1; if let Some(m) = check_request(&[(*a).clone(), (*b).clone()]) { if found.len() < 6 { found.push(m) } } } }
    for v in ["a=b; c=d", "a=b;c=d;", ";;a=b", "a==", "a=b=c", "=v", "a=\"q\"", "a=b ; c=d", "a=1; a=2", "x", "a=b; x", "a=b;\tc=d", "SID=31d4d96e407aad42; lang=en-US"] {
        n += 1; if let Some(m) = check_request(&[v.to_string()]) { if found.len() < 6 { found.push(m) } }
    }
    // (a') Cookie fields among the fields the reader consumes (Content-Type, Expect, Transfer-Encoding) and one it leaves: every
    // placement of up to two of those among two or three Cookie fields that repeat a name
    let others = ["content-type: text/plain", "Expect: 100-continue", "transfer-encoding: chunked", "x-other: 1", "Content-Type: a/b"];
    let cookie_sets: [&[&str]; 4] = [&["a=1", "a=2"], &["a=1", "b=x", "a=3"], &["a=1; b=x", "b=y", "a=3"], &["a=1", "a=2", "a=3"]];
    for cs in cookie_sets {
        let base: Vec<String> = cs.iter().map(|c| format!("cookie: {c}")).collect();
        for o1 in 0..others.len() { for p1 in 0..=base.len() {
            let mut l1 = base.clone(); l1.insert(p1, others[o1].to_string());
            n += 1; if let Some(m) = check_mixed(&l1) { if found.len() < 6 { found.push(m) } }
            for o2 in 0..others.len() { if o2 == o1 || (o1 == 0 && o2 == 4) || (o1 == 4 && o2 == 0) { continue; } for p2 in 0..=l1.len() {
                let mut l2 = l1.clone(); l2.insert(p2, others[o2].to_string());
                n += 1; if let Some(m) = check_mixed(&l2) { if found.len() < 6 { found.push(m) } }
            } }
        } }
    }
    // (b) Set-Cookie: every combination of attribute presence with boundary values
    let names = ["n", "SID", "a-b_c.d!#$%&'*+^`|~"];
    let values = ["", "v", "31d4d96e407aad42", "a=b==", "!#$%&'()*+-./:<=>?@[]^_`{|}~"];
    let domains = ["", "example.com", ".Example.COM", "a.b"];
    let paths = ["", "/", "/a/b c", "/x=y"];
    let ages = [0u64, 1, 2592000, u64::MAX / 4];
    for (ni, name) in names.iter().enumerate() { for value in values { for domain in domains { for path in paths { for age in ages {
        for flags in 0..4u8 { for ss in ["S", "L", "N"] { for exp in [0u64, 1_700_000_000] {
            if !thorough && (ni + value.len() + domain.len() + path.len() + flags as usize + exp as usize % 7) % 5 != 0 { continue; }
            let d = format!("{}|{}|{}|{}|{}|{}|{}|{}|{}", hex(name.as_bytes()), hex(value.as_bytes()), hex(domain.as_bytes()), hex(path.as_bytes()), age, flags & 1, (flags >> 1) & 1, ss, exp);
            n += 1; if let Some(m) = check_set_cookie(&d) { if found.len() < 6 { found.push(m) } }
        }}}
    }}}}}
    // one attribute at a time over a small alphabet (everything else at its default): the text a client reads back is the text
    // the builder was given -- no normalisation of Path (a trailing '/', doubled '/'), Domain (case, dots) or the value
    let alpha = ['/', 'a', 'B', '.', '-', '%'];
    for len in 1..=4usize { for code in 0..alpha.len().pow(len as u32) {
        let mut c = code; let t: String = (0..len).map(|_| { let x = alpha[c % alpha.len()]; c /= alpha.len(); x }).collect();
        for which in 0..3 {
            let (value, domain, path) = match which { 0 => (t.as_str(), "", ""), 1 => ("v", t.as_str(), ""), _ => ("v", "", t.as_str()) };
            if which == 2 && !t.starts_with('/') { continue; }
            let d = format!("{}|{}|{}|{}|{}|{}|{}|{}|{}", hex(b"n"), hex(value.as_bytes()), hex(domain.as_bytes()), hex(path.as_bytes()), 2592000, 1, 1, "S", 0);
            n += 1; if let Some(m) = check_set_cookie(&d) { if found.len() < 6 { found.push(m) } }
        }
    } }
    println!("EVALUATED {n}");
    for f in &found { println!("WITNESS {f}"); }
    std::process::exit(if found.is_empty() { 0 } else { 1 });
}
