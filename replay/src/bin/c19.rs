//! C19 witness search / replay: the real PrefixFileSet bookkeeping on a scratch directory against
//! a reference model (list of (name, mtime, len), oldest first).
use servlin::log::internal::{PrefixFile, PrefixFileSet};
use std::path::PathBuf;
use std::time::{Duration, SystemTime, UNIX_EPOCH};

fn scratch() -> PathBuf {
    let d = std::env::temp_dir().join(format!("verif-c19-{}-{}", std::process::id(), SystemTime::now().duration_since(UNIX_EPOCH).unwrap().as_nanos()));
    std::fs::create_dir_all(&d).unwrap();
    d
}
/// ops: "p<len>" push a new file of that length (mtime = step index), "m<k>" delete_oldest_while_over_max_len(k), "a<k>" delete_older_than(now = T0+100, k)
fn run(ops: &str) -> Option<String> {
    let dir = scratch();
    let prefix = dir.join("log");
    let desc = format!("fileset ops={ops}");
    let res = std::panic::catch_unwind(|| {
        let mut set = PrefixFileSet::new(&prefix).map_err(|e| format!("new: {e}"))?;
        let mut model: Vec<(PathBuf, u64, u64)> = Vec::new(); // (path, mtime secs, len), push order = age order
        let t0 = UNIX_EPOCH + Duration::from_secs(1_000_000);
        for (i, op) in ops.split(',').filter(|s| !s.is_empty()).enumerate() {
            let k: u64 = op[1..].parse().unwrap();
            match &op[..1] {
                "p" => {
                    let path = dir.join(format!("log.{i}"));
                    std::fs::write(&path, vec![b'x'; k as usize]).unwrap();
                    set.push(PrefixFile { path: path.clone(), mtime: t0 + Duration::from_secs(i as u64), len: k });
                    model.push((path, i as u64, k));
                }
                "m" => {
                    set.delete_oldest_while_over_max_len(k).map_err(|e| format!("step {i}: {e}"))?;
                    while model.iter().map(|f| f.2).sum::<u64>() > k { model.remove(0); }
                }
                _ => {
                    set.delete_older_than(t0 + Duration::from_secs(100), Duration::from_secs(k)).map_err(|e| format!("step {i}: {e}"))?;
                    while !model.is_empty() && model[0].1 + k < 100 { model.remove(0); }
                }
            }
            let mut on_disk: Vec<String> = std::fs::read_dir(&dir).unwrap().map(|e| e.unwrap().file_name().to_string_lossy().to_string()).collect();
            on_disk.sort();
            let mut want: Vec<String> = model.iter().map(|f| f.0.file_name().unwrap().to_string_lossy().to_string()).collect();
            want.sort();
            if on_disk != want { return Err(format!("after step {i} ({op}) expected_files={want:?} actual_files={on_disk:?}")); }
        }
        Ok::<(), String>(())
    });
    let _ = std::fs::remove_dir_all(&dir);
    match res {
        Ok(Ok(())) => None,
        Ok(Err(e)) => Some(format!("{desc} expected=model-agreement actual={e}")),
        Err(_) => Some(format!("{desc} expected=no-panic actual=panic")),
    }
}
fn main() {
    std::panic::set_hook(Box::new(|_| {}));
    let args: Vec<String> = std::env::args().collect();
    if args.len() >= 3 && args[1] == "replay" {
        let w = args[2..].join(" ");
        let ops = w.split("ops=").nth(1).unwrap().split(' ').next().unwrap().to_string();
        match run(&ops) {
            Some(m) => { println!("WITNESS {m}"); std::process::exit(1) }
            None => { println!("OK witness no longer fails"); std::process::exit(0) }
        }
    }
    let thorough = args.iter().any(|a| a == "--thorough");
    let alphabet = ["p10", "p0", "p7", "m5", "m0", "m100", "a50", "a99", "a1000"];
    let depth = if thorough { 5 } else { 4 };
    let mut n = 0u64;
    let mut found = Vec::new();
    for len in 1..=depth {
        for code in 0..alphabet.len().pow(len as u32) {
            let mut c = code;
            let ops: Vec<&str> = (0..len).map(|_| { let x = alphabet[c % alphabet.len()]; c /= alphabet.len(); x }).collect();
            n += 1;
            if let Some(m) = run(&ops.join(",")) { if found.len() < 5 { found.push(m) } }
        }
    }
    println!("EVALUATED {n}");
    for f in &found { println!("WITNESS {f}"); }
    std::process::exit(if found.is_empty() { 0 } else { 1 });
}
