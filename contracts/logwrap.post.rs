// vacuity canary -- must FAIL
fn canary_logwrap(r: Result<Response, Error>)
{
    let x = log_response(r);
    let t = Tag::new("code", 5u16);
    assert(false);
}
