use vstd::utf8::*;
// ==== the one serialisation of a response: pure specification (shared by the units respwrite and conn)
// decimal numeral without sign, padding or leading zeros (what Display prints for unsigned integers)
pub open spec fn dec(n: nat) -> Seq<u8> decreases n {
    if n < 10 { seq![(48 + n) as u8] } else { dec(n / 10).push((48 + n % 10) as u8) }
}
// rule S1 stand-in for `head_bytes.extend(header.value.chars().map(|c| u8::try_from(c).unwrap_or(255)))`:
// the value's characters as ISO-8859-1 bytes, 0xFF for anything above U+00FF
pub open spec fn latin1(cs: Seq<char>) -> Seq<u8> {
    cs.map_values(|c: char| if (c as u32) < 256 { c as u8 } else { 255u8 })
}
pub uninterp spec fn body_events(b: ResponseBody) -> Seq<Ev>;
pub open spec fn events_wf(evs: Seq<Ev>) -> bool {
    evs.len() >= 1 && data_only(evs.drop_last()) && (evs.last() is Eof || evs.last() is Fail)
}
#[verifier::external_body]
pub proof fn axiom_body_events(b: ResponseBody)
    ensures
        events_wf(body_events(b)),
        b matches ResponseBody::StaticBytes(x) ==> bytes_of(body_events(b)) == x@ && body_events(b).last() is Eof,
        b matches ResponseBody::StaticStr(s) ==> bytes_of(body_events(b)) == encode_utf8(s@) && body_events(b).last() is Eof,
        b matches ResponseBody::Vec(v) ==> bytes_of(body_events(b)) == v@ && body_events(b).last() is Eof,
{}

// reason_phrase / ContentType::as_str return static texts (functions of their argument)
pub uninterp spec fn reason_text(code: u16) -> Seq<u8>;
pub uninterp spec fn ct_text(ct: ContentType) -> Seq<u8>;

// ---- the one serialisation of a response (from the property statement of C06 and RFC 7230 section 3)
pub open spec fn blen(b: ResponseBody) -> Option<u64> {
    match b {
        ResponseBody::EventStream(_) => None,
        ResponseBody::StaticBytes(x) => Some(x@.len() as u64),
        ResponseBody::StaticStr(s) => Some(s.len() as u64),
        ResponseBody::Vec(v) => Some(v@.len() as u64),
        ResponseBody::File(_, n) => Some(n),
        ResponseBody::TempFile(_, n) => Some(n),
    }
}
// the literal pieces of the format strings: named after their bytes (hex), as rule R9 names them; opaque to the solver
#[verifier::opaque] pub open spec fn vlit_485454502f312e3120() -> Seq<u8> { seq![72u8, 84u8, 84u8, 80u8, 47u8, 49u8, 46u8, 49u8, 32u8] }   // b'HTTP/1.1 '
pub open spec fn l_http() -> Seq<u8> { vlit_485454502f312e3120() }
#[verifier::opaque] pub open spec fn vlit_20() -> Seq<u8> { seq![32u8] }   // b' '
pub open spec fn l_sp() -> Seq<u8> { vlit_20() }
#[verifier::opaque] pub open spec fn vlit_636f6e74656e742d747970653a20() -> Seq<u8> { seq![99u8, 111u8, 110u8, 116u8, 101u8, 110u8, 116u8, 45u8, 116u8, 121u8, 112u8, 101u8, 58u8, 32u8] }   // b'content-type: '
pub open spec fn l_ct() -> Seq<u8> { vlit_636f6e74656e742d747970653a20() }
#[verifier::opaque] pub open spec fn vlit_636f6e6e656374696f6e3a20636c6f73650d0a() -> Seq<u8> { seq![99u8, 111u8, 110u8, 110u8, 101u8, 99u8, 116u8, 105u8, 111u8, 110u8, 58u8, 32u8, 99u8, 108u8, 111u8, 115u8, 101u8, 13u8, 10u8] }   // b'connection: close\r\n'
pub open spec fn l_close() -> Seq<u8> { vlit_636f6e6e656374696f6e3a20636c6f73650d0a() }
#[verifier::opaque] pub open spec fn vlit_636f6e74656e742d6c656e6774683a20() -> Seq<u8> { seq![99u8, 111u8, 110u8, 116u8, 101u8, 110u8, 116u8, 45u8, 108u8, 101u8, 110u8, 103u8, 116u8, 104u8, 58u8, 32u8] }   // b'content-length: '
pub open spec fn l_cl() -> Seq<u8> { vlit_636f6e74656e742d6c656e6774683a20() }
#[verifier::opaque] pub open spec fn vlit_7472616e736665722d656e636f64696e673a206368756e6b65640d0a() -> Seq<u8> { seq![116u8, 114u8, 97u8, 110u8, 115u8, 102u8, 101u8, 114u8, 45u8, 101u8, 110u8, 99u8, 111u8, 100u8, 105u8, 110u8, 103u8, 58u8, 32u8, 99u8, 104u8, 117u8, 110u8, 107u8, 101u8, 100u8, 13u8, 10u8] }   // b'transfer-encoding: chunked\r\n'
pub open spec fn l_te() -> Seq<u8> { vlit_7472616e736665722d656e636f64696e673a206368756e6b65640d0a() }
#[verifier::opaque] pub open spec fn vlit_3a20() -> Seq<u8> { seq![58u8, 32u8] }   // b': '
pub open spec fn l_sep() -> Seq<u8> { vlit_3a20() }
#[verifier::opaque] pub open spec fn vlit_0d0a() -> Seq<u8> { seq![13u8, 10u8] }   // b'\r\n'
pub open spec fn l_crlf() -> Seq<u8> { vlit_0d0a() }
// The head, in the order and grouping in which it is assembled (so that no re-association is needed to follow the
// code); lemma_head_readable below restates it as status line ++ automatic fields ++ own fields ++ CRLF.
pub open spec fn status_line(code: u16) -> Seq<u8> { l_http() + dec(code as nat) + l_sp() + reason_text(code) + l_crlf() }
// content-type iff a type is set
pub open spec fn h_ct(resp: Response) -> Seq<u8> {
    if resp.content_type != ContentType::None { status_line(resp.code) + l_ct() + ct_text(resp.content_type) + l_crlf() } else { status_line(resp.code) }
}
// connection: close iff closing
pub open spec fn h_close(resp: Response, close: bool) -> Seq<u8> { if close { h_ct(resp) + l_close() } else { h_ct(resp) } }
// exactly one of content-length (known body length) and transfer-encoding: chunked (unknown)
pub open spec fn h_auto(resp: Response, close: bool) -> Seq<u8> {
    match blen(resp.body) { Some(n) => h_close(resp, close) + l_cl() + dec(n as nat) + l_crlf(), None => h_close(resp, close) + l_te() }
}
// the response's own fields, in the order added
pub open spec fn h_fields(resp: Response, close: bool, hs: Seq<Header>) -> Seq<u8> decreases hs.len() {
    if hs.len() == 0 { h_auto(resp, close) }
    else { h_fields(resp, close, hs.drop_last()) + encode_utf8(hs.last().name.inner()@) + l_sep() + latin1(hs.last().value.inner()@) + l_crlf() }
}
#[verifier::opaque]
pub open spec fn head_spec(resp: Response, close: bool) -> Seq<u8> { h_fields(resp, close, resp.headers.0@) + crlf() }
// the body as framed on the wire
pub open spec fn body_wire(b: ResponseBody) -> Seq<u8> {
    match blen(b) {
        Some(n) => if n == 0 { Seq::<u8>::empty() }
                   else if bytes_of(body_events(b)).len() >= n { bytes_of(body_events(b)).take(n as int) }
                   else { bytes_of(body_events(b)) },
        None => enc(pieces(body_events(b))) + (if body_events(b).last() is Eof { term() } else { Seq::<u8>::empty() }),
    }
}
pub open spec fn ser(resp: Response, close: bool) -> Seq<u8> { head_spec(resp, close) + body_wire(resp.body) }
// refused before any byte is written
pub open spec fn wr_guard(resp: Response) -> Option<HttpError> {
    if resp.kind != ResponseKind::Normal { Some(HttpError::UnwritableResponse) }
    else if resp.content_type != ContentType::None && matching(resp.headers.0@, asref_spec::<&str, str>(&"content-type")@).len() >= 1 { Some(HttpError::DuplicateContentTypeHeader) }
    else if blen(resp.body) is Some && matching(resp.headers.0@, asref_spec::<&str, str>(&"content-length")@).len() >= 1 { Some(HttpError::DuplicateContentLengthHeader) }
    else if blen(resp.body) is None && matching(resp.headers.0@, asref_spec::<&str, str>(&"transfer-encoding")@).len() >= 1 { Some(HttpError::DuplicateTransferEncodingHeader) }
    else { None }
}
#[verifier::prophetic]
pub open spec fn write_post<W: AsyncWrite>(writer: W, resp: Response, close: bool, r: Result<(), HttpError>) -> bool {
    &&& w_kept(writer)
    &&& match wr_guard(resp) {
        Some(e) => r == Err::<(), HttpError>(e) && writer.end() == writer.cur(),
        None => match r {
            // complete: the one serialisation, and a body of known length has exactly that many bytes
            Ok(()) => writer.end() == writer.cur() + ser(resp, close)
                      && (blen(resp.body) matches Some(n) ==> body_wire(resp.body).len() == n),
            // failed at any point: a prefix of it
            Err(_) => writer.cur().is_prefix_of(writer.end()) && writer.end().is_prefix_of(writer.cur() + ser(resp, close)),
        },
    }
}


// C08: whatever fails, what was written is a prefix of the one serialisation (nothing at all when refused up front),
// and a known-length body that comes up short is never reported as sent
#[verifier::prophetic]
pub open spec fn wr_c08_clause<W: AsyncWrite>(writer: W, resp: Response, close: bool, r: Result<(), HttpError>) -> bool {
    &&& r is Err ==> writer.cur().is_prefix_of(writer.end()) && writer.end().is_prefix_of(writer.cur() + ser(resp, close))
    &&& (wr_guard(resp) is Some) ==> r is Err && writer.end() == writer.cur()
    &&& (r is Ok && blen(resp.body) is Some) ==> body_wire(resp.body).len() == blen(resp.body)->Some_0
}

// ---- readable form of the head and structural theorems (C06 / C20)
// the automatic fields: content-type iff a type is set, connection: close iff closing, then exactly one of
// content-length (known body length) and transfer-encoding: chunked (unknown length)
pub open spec fn auto_fields(resp: Response, close: bool) -> Seq<u8> {
    (if resp.content_type != ContentType::None { l_ct() + ct_text(resp.content_type) + l_crlf() } else { Seq::<u8>::empty() })
    + (if close { l_close() } else { Seq::<u8>::empty() })
    + (match blen(resp.body) { Some(n) => l_cl() + dec(n as nat) + l_crlf(), None => l_te() })
}
pub open spec fn field(h: Header) -> Seq<u8> { encode_utf8(h.name.inner()@) + l_sep() + latin1(h.value.inner()@) + l_crlf() }
// the response's own fields, in the order added
pub open spec fn fields(hs: Seq<Header>) -> Seq<u8> decreases hs.len() {
    if hs.len() == 0 { Seq::empty() } else { fields(hs.drop_last()) + field(hs.last()) }
}
pub proof fn lemma_h_fields(resp: Response, close: bool, hs: Seq<Header>)
    ensures h_fields(resp, close, hs) == h_auto(resp, close) + fields(hs)
    decreases hs.len()
{
    if hs.len() == 0 {
        assert(h_auto(resp, close) + fields(hs) =~= h_auto(resp, close));
    } else {
        lemma_h_fields(resp, close, hs.drop_last());
        let p = h_auto(resp, close) + fields(hs.drop_last());
        let h = hs.last();
        assert(p + encode_utf8(h.name.inner()@) + l_sep() + latin1(h.value.inner()@) + l_crlf() =~= h_auto(resp, close) + (fields(hs.drop_last()) + field(h)));
    }
}
// head = status line ++ automatic fields ++ own fields in the order added ++ CRLF
pub proof fn lemma_head_readable(resp: Response, close: bool)
    ensures head_spec(resp, close) == status_line(resp.code) + auto_fields(resp, close) + fields(resp.headers.0@) + crlf()
{
    reveal(head_spec);
    lemma_h_fields(resp, close, resp.headers.0@);
    let s = status_line(resp.code);
    assert(h_auto(resp, close) =~= s + auto_fields(resp, close));
}
// every response sent with close = true carries the field `connection: close` right after the status line /
// content-type (C20: a 5xx response is always sent with close = true, proved on write_response in unit conn)
pub proof fn lemma_close_marked(resp: Response)
    ensures exists|a: Seq<u8>, z: Seq<u8>| #[trigger] (a + l_close() + z) == ser(resp, true)
{
    reveal(head_spec);
    lemma_h_fields(resp, true, resp.headers.0@);
    let a = h_ct(resp);
    let tail = match blen(resp.body) { Some(n) => l_cl() + dec(n as nat) + l_crlf(), None => l_te() };
    let rest = fields(resp.headers.0@) + crlf() + body_wire(resp.body);
    let z = tail + rest;
    // (step by step, so that each equality is a re-association of `+` only)
    assert(h_auto(resp, true) =~= a + l_close() + tail);
    assert(ser(resp, true) =~= h_auto(resp, true) + rest);
    lemma_reassoc4(a, l_close(), tail, rest);
    assert(z =~= tail + fields(resp.headers.0@) + crlf() + body_wire(resp.body));
}
// (a + b + c) + d == a + b + (c + d), stated abstractly so that no definition is unfolded while proving it
pub proof fn lemma_reassoc4(a: Seq<u8>, b: Seq<u8>, c: Seq<u8>, d: Seq<u8>)
    ensures (a + b + c) + d == a + b + (c + d)
{
    assert((a + b + c) + d =~= a + b + (c + d));
}
// the status code is printed as exactly three decimal digits for every code 100..=999
pub proof fn lemma_dec3(c: u16)
    requires 100 <= c <= 999
    ensures dec(c as nat) == seq![(48 + c / 100) as u8, (48 + c / 10 % 10) as u8, (48 + c % 10) as u8]
{
    let n = c as nat;
    assert(dec(n / 10 / 10) == seq![(48 + n / 100) as u8]);
    assert(dec(n / 10) == dec(n / 10 / 10).push((48 + n / 10 % 10) as u8));
    assert(dec(n) == dec(n / 10).push((48 + n % 10) as u8));
    assert(dec(n) =~= seq![(48 + c / 100) as u8, (48 + c / 10 % 10) as u8, (48 + c % 10) as u8]);
}
// the framing rule: a head announces a body length or chunked coding, never both, decided by the body source alone
pub proof fn lemma_framing(resp: Response, close: bool)
    ensures
        blen(resp.body) matches Some(n) ==> h_auto(resp, close) == h_close(resp, close) + l_cl() + dec(n as nat) + l_crlf(),
        blen(resp.body) is None ==> h_auto(resp, close) == h_close(resp, close) + l_te(),
        blen(resp.body) is None <==> resp.body is EventStream,
{}
