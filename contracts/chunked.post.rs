fn smoke_chunked() {
    let d = hex_digit(11);
    assert(d == 98u8);
}
