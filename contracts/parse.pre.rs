// ---- assumed contracts on std / safe-regex used by Head::parse_header_line
#[verifier::external_type_specification]
#[verifier::external_body]
pub struct ExFromUtf8Error(std::string::FromUtf8Error);
pub assume_specification<T: Clone>[ <[T]>::to_vec ](s: &[T]) -> (r: Vec<T>)
    ensures r@ == s@;
pub open spec fn ascii_bytes(b: Seq<u8>) -> bool { forall|i: int| 0 <= i < b.len() ==> b[i] < 128 }
// String::from_utf8 accepts every ASCII byte string and yields exactly those characters
pub assume_specification[ String::from_utf8 ](v: Vec<u8>) -> (r: Result<String, std::string::FromUtf8Error>)
    ensures ascii_bytes(v@) ==> r is Ok && r->Ok_0@.len() == v@.len()
        && forall|i: int| 0 <= i < v@.len() ==> (#[trigger] r->Ok_0@[i]) as u32 == v@[i] as u32;

// tchar of RFC 7230 (what the field-name group of the regex can match)
pub open spec fn is_tchar(b: u8) -> bool {
    (48 <= b <= 57) || (65 <= b <= 90) || (97 <= b <= 122)
    || b == 33 || b == 35 || b == 36 || b == 37 || b == 38 || b == 39 || b == 42 || b == 43 || b == 45 || b == 46
    || b == 94 || b == 95 || b == 96 || b == 124 || b == 126
}
// safe_regex matcher for the literal  ([-!#$%&'*+.^_`|~0-9A-Za-z]+):[ \t]*(.*)[ \t]*   (full match).
// Assumed contract, from the regular expression's meaning: on a match, group 1 is a non-empty run
// of tchar at the start of the line followed by ':', and group 2 is a sub-slice of what follows.
#[verifier::external_body]
#[verifier::reject_recursive_types(F)]
pub struct Matcher2<F> { _f: core::marker::PhantomData<F> }
pub uninterp spec fn hdr_matches(line: Seq<u8>) -> bool;
pub uninterp spec fn hdr_name(line: Seq<u8>) -> Seq<u8>;    // group 1 of the match
pub uninterp spec fn hdr_value(line: Seq<u8>) -> Seq<u8>;   // group 2 of the match
// a String and a byte string denote the same text (character i has code point byte i)
pub open spec fn same_text(s: Seq<char>, b: Seq<u8>) -> bool {
    s.len() == b.len() && forall|i: int| 0 <= i < b.len() ==> (#[trigger] s[i]) as u32 == b[i] as u32
}
impl<F> Matcher2<F> {
    #[verifier::external_body]
    pub fn match_slices<'d>(&self, data: &'d [u8]) -> (r: Option<(&'d [u8], &'d [u8])>)
        ensures
            r is Some <==> hdr_matches(data@),
            r is Some ==> ({
                let (name, value) = r->Some_0;
                &&& name@ == hdr_name(data@) && value@ == hdr_value(data@)
                &&& name@.len() >= 1
                &&& name@ == data@.subrange(0, name@.len() as int)
                &&& forall|i: int| 0 <= i < name@.len() ==> is_tchar(#[trigger] name@[i])
                &&& name@.len() < data@.len() && data@[name@.len() as int] == 58u8
                &&& exists|a: int, b: int| name@.len() < a <= b <= data@.len() && #[trigger] data@.subrange(a, b) == value@
            }),
    { unimplemented!() }
}
#[verifier::external_body]
pub fn hdr_matcher() -> Matcher2<()> { unimplemented!() }

// Head::latin1_bytes_to_utf8 is `bytes.iter().map(|&b| b as char).collect()` (iterator chain,
// outside Verus): assumed to map byte i to the character with that code point.
impl Head {
    #[verifier::external_body]
    fn latin1_bytes_to_utf8(bytes: &[u8]) -> (r: String)
        ensures r@.len() == bytes@.len(), forall|i: int| 0 <= i < bytes@.len() ==> (#[trigger] r@[i]) as u32 == bytes@[i] as u32
    { unimplemented!() }
}
pub proof fn lemma_ascii_chars_from_bytes(s: Seq<char>, b: Seq<u8>)
    requires s.len() == b.len(), forall|i: int| 0 <= i < b.len() ==> (#[trigger] s[i]) as u32 == b[i] as u32
    ensures vstd::utf8::is_ascii_chars(s) <==> ascii_bytes(b)
{
    if ascii_bytes(b) {
        assert forall|i: int| 0 <= i < s.len() implies (s[i] as u32) < 128 by { assert(s[i] as u32 == b[i] as u32); }
    }
    if vstd::utf8::is_ascii_chars(s) {
        assert forall|i: int| 0 <= i < b.len() implies b[i] < 128 by { assert(s[i] as u32 == b[i] as u32); }
    }
}
