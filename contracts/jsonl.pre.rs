// ---- unit jsonl: stand-ins for std::fmt / std::io sinks and the writing side's spec
use std::time::SystemTime;
use std::ops::Deref;
#[verifier::external_type_specification]
#[verifier::external_body]
pub struct ExSystemTime(SystemTime);
#[verifier::external_type_specification]
#[verifier::external_body]
pub struct ExIoError(std::io::Error);

// a character sink (assumed): what has been written so far is `out()`
pub trait Write {
    type E;
    spec fn out(&self) -> Seq<char>;
}
// std::io::Write sinks (the `impl Write` parameter of write_jsonl; rule D4 renames it)
pub trait IoWrite: Write<E = std::io::Error> {}

// std::fmt::Formatter (assumed): write_char / write_str append
#[verifier::external_body]
pub struct Formatter<'a> { _p: core::marker::PhantomData<&'a u8> }
impl<'a> Write for Formatter<'a> {
    type E = std::fmt::Error;
    uninterp spec fn out(&self) -> Seq<char>;
}
impl<'a> Formatter<'a> {
    #[verifier::external_body]
    pub fn write_char(&mut self, c: char) -> (r: Result<(), std::fmt::Error>)
        ensures r is Ok ==> final(self).out() == old(self).out().push(c)
    { unimplemented!() }
    #[verifier::external_body]
    pub fn write_str(&mut self, s: &str) -> (r: Result<(), std::fmt::Error>)
        ensures r is Ok ==> final(self).out() == old(self).out() + s@
    { unimplemented!() }
}

// std::fmt::Display as a contract: fmt appends `shown()` to the formatter
pub trait DisplaySpec {
    spec fn shown(&self) -> Seq<char>;
}
pub trait Display: DisplaySpec {
    fn fmt(&self, f: &mut Formatter<'_>) -> (r: Result<(), std::fmt::Error>)
        ensures r is Ok ==> final(f).out() == old(f).out() + self.shown();
}
impl<T: DisplaySpec + ?Sized> DisplaySpec for &T {
    open spec fn shown(&self) -> Seq<char> { (**self).shown() }
}
impl<T: Display + ?Sized> Display for &T {
    #[verifier::external_body]
    fn fmt(&self, f: &mut Formatter<'_>) -> (r: Result<(), std::fmt::Error>) { unimplemented!() }
}
// std's Display for the integer types, bool and String (assumed): decimal digits with a leading '-' for negatives;
// "true" / "false"; the characters of the string
pub uninterp spec fn dec_int(v: int) -> Seq<char>;
#[verifier::external_body]
pub proof fn axiom_dec_int(v: int)
    ensures dec_int(v).len() >= 1,
        forall|k: int| 0 <= k < dec_int(v).len() ==> is_digit(#[trigger] dec_int(v)[k]) || (k == 0 && v < 0 && dec_int(v)[k] == '-'),
{}
pub open spec fn is_digit(c: char) -> bool { 48 <= c as u32 <= 57 }
macro_rules! int_display {
    ($($t:ty)*) => { $(
        verus! {
        impl DisplaySpec for $t { open spec fn shown(&self) -> Seq<char> { dec_int(*self as int) } }
        impl Display for $t {
            #[verifier::external_body]
            fn fmt(&self, f: &mut Formatter<'_>) -> (r: Result<(), std::fmt::Error>) { unimplemented!() }
        }
        }
    )* }
}
int_display!(i8 i16 i32 i64 i128 u8 u16 u32 u64 u128 usize);
impl DisplaySpec for bool { open spec fn shown(&self) -> Seq<char> { if *self { seq!['t', 'r', 'u', 'e'] } else { seq!['f', 'a', 'l', 's', 'e'] } } }
impl Display for bool {
    #[verifier::external_body]
    fn fmt(&self, f: &mut Formatter<'_>) -> (r: Result<(), std::fmt::Error>) { unimplemented!() }
}
impl DisplaySpec for str { open spec fn shown(&self) -> Seq<char> { self@ } }
impl Display for str {
    #[verifier::external_body]
    fn fmt(&self, f: &mut Formatter<'_>) -> (r: Result<(), std::fmt::Error>) { unimplemented!() }
}
impl DisplaySpec for String { open spec fn shown(&self) -> Seq<char> { self@ } }
impl Display for String {
    #[verifier::external_body]
    fn fmt(&self, f: &mut Formatter<'_>) -> (r: Result<(), std::fmt::Error>) { unimplemented!() }
}

// rule R12: write!(SINK, LIT, args..) as a chain threading the Result (assumed meaning of std::fmt::write)
#[verifier::external_body]
pub fn vfw_start<S: Write + ?Sized>(f: &mut S) -> (r: Result<(), S::E>)
    ensures r is Ok, final(f).out() == old(f).out()
{ unimplemented!() }
#[verifier::external_body]
pub fn vfw_lit<S: Write + ?Sized>(f: &mut S, prev: Result<(), S::E>, p: Ghost<Seq<char>>) -> (r: Result<(), S::E>)
    ensures prev is Err ==> r is Err, r is Ok ==> final(f).out() == old(f).out() + p@
{ unimplemented!() }
#[verifier::external_body]
pub fn vfw_arg<S: Write + ?Sized, A: Display + ?Sized>(f: &mut S, prev: Result<(), S::E>, a: &A) -> (r: Result<(), S::E>)
    ensures prev is Err ==> r is Err, r is Ok ==> final(f).out() == old(f).out() + a.shown()
{ unimplemented!() }
// `{:0N}` of an i64 (assumed): the decimal form, zero-padded on the left to at least N characters
pub uninterp spec fn pad_int(v: int, w: nat) -> Seq<char>;
#[verifier::external_body]
pub proof fn axiom_pad_int(v: int, w: nat)
    ensures pad_int(v, w).len() >= 1,
        0 <= v ==> forall|k: int| 0 <= k < pad_int(v, w).len() ==> is_digit(#[trigger] pad_int(v, w)[k]),
{}
#[verifier::external_body]
pub fn vfw_pad<S: Write + ?Sized>(f: &mut S, prev: Result<(), S::E>, a: &i64, w: usize) -> (r: Result<(), S::E>)
    ensures prev is Err ==> r is Err, r is Ok ==> final(f).out() == old(f).out() + pad_int(*a as int, w as nat)
{ unimplemented!() }

pub assume_specification[ char::from_digit ](num: u32, radix: u32) -> (r: Option<char>)
    ensures radix == 16 && num < 16 ==> r == Some(hexc(num as int));

// ---- the writing side's spec (shaped like the code)
pub open spec fn hexc(d: int) -> char { if d < 10 { (48 + d) as u8 as char } else { (87 + d) as u8 as char } }
pub open spec fn esc(c: char) -> Seq<char> {
    let n = c as u32;
    if c == '"' { seq!['\\', '"'] } else if c == '\\' { seq!['\\', '\\'] } else if c == '\n' { seq!['\\', 'n'] }
    else if c == '\r' { seq!['\\', 'r'] } else if c == '\t' { seq!['\\', 't'] }
    else if n < 0x20 { seq!['\\', 'u', '0', '0', if n < 0x10 { '0' } else { '1' }, hexc((n % 16) as int)] }
    else { seq![c] }
}
pub open spec fn esc_all(s: Seq<char>) -> Seq<char> decreases s.len() {
    if s.len() == 0 { Seq::empty() } else { esc_all(s.drop_last()) + esc(s.last()) }
}
pub open spec fn json_str(s: Seq<char>) -> Seq<char> { seq!['"'] + esc_all(s) + seq!['"'] }
// a tag value as it is written (taken from the property: strings as JSON strings, integers in decimal, booleans,
// null; a float is the text std produced for a finite f32 / f64)
pub open spec fn value_json(v: TagValue) -> Seq<char> {
    match v {
        TagValue::Str(x) => json_str(x@),
        TagValue::String(x) => json_str(x@),
        TagValue::Bool(x) => if x { seq!['t', 'r', 'u', 'e'] } else { seq!['f', 'a', 'l', 's', 'e'] },
        TagValue::I8(x) => dec_int(x as int),
        TagValue::I16(x) => dec_int(x as int),
        TagValue::I32(x) => dec_int(x as int),
        TagValue::I64(x) => dec_int(x as int),
        TagValue::I128(x) => dec_int(x as int),
        TagValue::U8(x) => dec_int(x as int),
        TagValue::U16(x) => dec_int(x as int),
        TagValue::U32(x) => dec_int(x as int),
        TagValue::U64(x) => dec_int(x as int),
        TagValue::U128(x) => dec_int(x as int),
        TagValue::Usize(x) => dec_int(x as int),
        TagValue::Float(x) => x@,
        TagValue::Null => seq!['n', 'u', 'l', 'l'],
    }
}
pub open spec fn member_json(t: Tag) -> Seq<char> { json_str(t.name@) + seq![':'] + value_json(t.value) }
// the members of the tag list, comma separated, in list order
pub open spec fn tags_json(ts: Seq<Tag>) -> Seq<char> decreases ts.len() {
    if ts.len() == 0 { Seq::empty() }
    else if ts.len() == 1 { member_json(ts[0]) }
    else { tags_json(ts.drop_last()) + seq![','] + member_json(ts.last()) }
}
pub proof fn lemma_tags_step(ts: Seq<Tag>, k: int)
    requires 1 <= k < ts.len()
    ensures tags_json(ts.take(k + 1)) == tags_json(ts.take(k)) + seq![','] + member_json(ts[k])
{
    assert(ts.take(k + 1).drop_last() =~= ts.take(k));
    assert(ts.take(k + 1).last() == ts[k]);
}
pub open spec fn level_text(l: Level) -> Seq<char> {
    match l {
        Level::Error => seq!['e', 'r', 'r', 'o', 'r'],
        Level::Info => seq!['i', 'n', 'f', 'o'],
        Level::Debug => seq!['d', 'e', 'b', 'u', 'g'],
    }
}
// the clock conversions (src/time.rs; DateTime::new is proved in unit `time`, C16): assumed here to be functions of the instant
pub uninterp spec fn epoch_ns_of(t: SystemTime) -> u64;
pub uninterp spec fn datetime_of(t: SystemTime) -> DateTime;
pub trait EpochTime { fn epoch_ns(&self) -> u64; }
impl EpochTime for SystemTime {
    #[verifier::external_body]
    fn epoch_ns(&self) -> (r: u64) ensures r == epoch_ns_of(*self) { unimplemented!() }
}
pub trait ToDateTime { fn to_datetime(&self) -> DateTime; }
impl ToDateTime for SystemTime {
    #[verifier::external_body]
    fn to_datetime(&self) -> (r: DateTime) ensures r == datetime_of(*self) { unimplemented!() }
}
// the line as the sequence of pieces that are written (left-nested, so that the writer's contract chain matches it
// term for term), taken from the property: one object with the fixed time, level and time_ns members and one member per
// tag in between, ended by a line break
pub open spec fn line_front(o: Seq<char>, ev: LogEvent) -> Seq<char> {
    let dt = datetime_of(ev.time_());
    let h = o + seq!['{', '"', 't', 'i', 'm', 'e', '"', ':', '"'] + pad_int(dt.year as int, 4) + seq!['-'] + pad_int(dt.month as int, 2) + seq!['-']
        + pad_int(dt.day as int, 2) + seq!['T'] + pad_int(dt.hour as int, 2) + seq![':'] + pad_int(dt.min as int, 2) + seq![':']
        + pad_int(dt.sec as int, 2) + seq!['Z', '"', ',', '"', 'l', 'e', 'v', 'e', 'l', '"', ':', '"'] + level_text(ev.level_());
    if ev.tags_().0@.len() == 0 {
        h + seq!['"', ',', '"', 't', 'i', 'm', 'e', '_', 'n', 's', '"', ':'] + dec_int(epoch_ns_of(ev.time_()) as int)
    } else {
        h + seq!['"', ','] + tags_json(ev.tags_().0@) + seq![',', '"', 't', 'i', 'm', 'e', '_', 'n', 's', '"', ':'] + dec_int(epoch_ns_of(ev.time_()) as int)
    }
}
pub open spec fn line_after(o: Seq<char>, ev: LogEvent) -> Seq<char> { line_front(o, ev) + seq!['}', '\n'] }
pub open spec fn jsonl_line(ev: LogEvent) -> Seq<char> { line_after(Seq::empty(), ev) }
