"""kanirun -- run Kani harness sets against a scratch copy of /repo's working tree.

A set is a directory kani/<set>/ holding files named after the source file they are appended to
(`src__response.rs` -> appended to src/response.rs inside `#[cfg(kani)] mod verif_kani { use super::*; .. }`,
so private items are reachable and /repo itself needs no hook).  Each harness is announced by a comment

    // @harness class=complete            (loop-free / full input domain: counts as an obligation)
    // @harness class=bounded bound="..." (unwind-bounded stand-in: never counted as proved)

directly above its `#[kani::proof...]` attribute.
"""
import json
import os
import re
import shutil
import subprocess
import tempfile
import time

REPO = os.environ.get("VERIF_REPO", "/repo")
VERIF = os.path.dirname(os.path.dirname(os.path.abspath(__file__)))

_H = re.compile(r"//\s*@harness\s+class=(\w+)(?:\s+bound=\"([^\"]*)\")?[^\n]*\n(?:\s*#\[[^\n]*\n)*\s*(?:pub\s+)?fn\s+(\w+)")


def load_set(name):
    d = os.path.join(VERIF, "kani", name)
    files, harnesses = {}, []
    for fn in sorted(os.listdir(d)):
        if not fn.endswith(".rs"):
            continue
        txt = open(os.path.join(d, fn)).read()
        files[fn[:-3].replace("__", "/") + ".rs"] = txt
    gen = os.path.join(d, "gen.py")
    if os.path.exists(gen):
        # harnesses generated mechanically from the working tree (e.g. one per status-named constructor)
        p = subprocess.run(["python3", gen, REPO], capture_output=True, text=True)
        if p.returncode != 0:
            raise RuntimeError("generator %s failed: %s" % (gen, p.stderr[-400:]))
        for rel, txt in json.loads(p.stdout).items():
            if rel.startswith("_"):
                continue
            files[rel] = files.get(rel, "") + "\n" + txt
    for rel, txt in files.items():
        for m in _H.finditer(txt):
            harnesses.append({"set": name, "harness": m.group(3), "class": m.group(1), "bound": m.group(2)})
        for m in re.finditer(r"// UNSUPPORTED-PARAMS ([^\n]*)", txt):
            harnesses.append({"set": name, "harness": "generator:" + m.group(1), "class": "complete", "bound": None, "unsupported": True})
    return files, harnesses


def make_scratch(sets):
    scratch = tempfile.mkdtemp(prefix="verif-kani-")
    subprocess.run(["rsync", "-a", "--exclude", "target", "--exclude", ".git", REPO + "/", scratch + "/"], check=True)
    per_file = {}
    harnesses = []
    for s in sets:
        files, hs = load_set(s)
        harnesses += hs
        for rel, txt in files.items():
            per_file.setdefault(rel, []).append("// ---- kani set %s\n%s" % (s, txt))
    for rel, chunks in per_file.items():
        p = os.path.join(scratch, rel)
        if not os.path.exists(p):
            shutil.rmtree(scratch, ignore_errors=True)
            raise FileNotFoundError(rel)
        with open(p, "a") as f:
            f.write("\n#[cfg(kani)]\n#[allow(unused, clippy::all)]\nmod verif_kani {\n    use super::*;\n%s\n}\n" % "\n".join(chunks))
    os.makedirs(os.path.join(scratch, ".cargo"), exist_ok=True)
    with open(os.path.join(scratch, ".cargo", "config.toml"), "w") as f:
        f.write("[net]\noffline = true\n")
    return scratch, harnesses


def run_harness(scratch, h, timeout):
    if h.get("unsupported"):
        h.update(status="UNSUPPORTED", seconds=0, output="the harness generator cannot synthesise arguments for " + h["harness"])
        return h
    cmd = ["cargo", "kani", "-Z", "function-contracts", "-Z", "stubbing", "-Z", "concrete-playback",
           "--concrete-playback=print", "--harness", h["harness"]]
    env = dict(os.environ, CARGO_NET_OFFLINE="true")
    env.pop("CARGO_TARGET_DIR", None)
    t0 = time.time()
    try:
        p = subprocess.run(cmd, cwd=scratch, env=env, capture_output=True, text=True, timeout=timeout)
        out = p.stdout + "\n" + p.stderr
    except subprocess.TimeoutExpired as e:
        h.update(status="TIMEOUT", seconds=round(time.time() - t0, 1), output=str(e)[-500:])
        return h
    h["seconds"] = round(time.time() - t0, 1)
    h["output"] = out[-6000:]
    if "VERIFICATION:- SUCCESSFUL" in out:
        h["status"] = "SUCCESSFUL"
    elif "VERIFICATION:- FAILED" in out:
        h["status"] = "FAILED"
        fc = re.findall(r"Failed Checks: ([^\n]*)\n\s*File: \"([^\"]*)\", line (\d+)", out)
        h["failed_check"] = "; ".join("%s (%s:%s)" % (a, os.path.relpath(b, scratch) if b.startswith(scratch) else b, c) for a, b, c in fc[:4])
        m = re.search(r"Concrete playback unit test for[^\n]*\n```\n(.*?)```", out, re.S)
        if m:
            h["counterexample"] = m.group(1)
        if not fc:
            # "FAILED" without a failed check is a tool failure (solver killed, out of memory, ...), not a verdict
            h["status"] = "ERROR"
    else:
        h["status"] = "ERROR"
    return h


def run_sets(pid, sets, tier, workdir, timeout=None):
    timeout = timeout or (420 if tier == "quick" else 1800)
    res = {"harnesses": [], "undecided": [], "wall_s": 0, "cmd": ""}
    if not sets:
        return res
    t0 = time.time()
    try:
        scratch, harnesses = make_scratch(sets)
    except FileNotFoundError as e:
        res["undecided"].append("kani: source file %s to append the harness module to is missing" % e)
        return res
    try:
        only = os.environ.get("VERIF_KANI_ONLY")
        if only:
            harnesses = [h for h in harnesses if only in h["harness"]]
        res["cmd"] = "cargo kani -Z function-contracts -Z stubbing --harness <each> (scratch copy of /repo + kani/{%s})" % ",".join(sets)
        # first harness builds the crate; the rest reuse the build
        from concurrent.futures import ThreadPoolExecutor
        if harnesses:
            first = run_harness(scratch, harnesses[0], timeout)
            res["harnesses"].append(first)
            if first["status"] == "ERROR":
                res["undecided"].append("kani: build/tool error: " + first["output"][-1500:].replace("\n", " "))
                return res
            with ThreadPoolExecutor(max_workers=6) as ex:
                for h in ex.map(lambda hh: run_harness(scratch, hh, timeout), harnesses[1:]):
                    res["harnesses"].append(h)
    finally:
        shutil.rmtree(scratch, ignore_errors=True)
    res["wall_s"] = round(time.time() - t0, 1)
    return res


def replay(rec, path):
    """re-run one recorded harness against the current tree"""
    hname = rec["kani_harness"]
    sets = [rec["unit"].split(":", 1)[1]]
    scratch, harnesses = make_scratch(sets)
    try:
        hs = [h for h in harnesses if h["harness"] == hname]
        if not hs:
            print("UNDECIDED property=%s reason=harness %s no longer exists" % (rec["property"], hname))
            return 2
        h = run_harness(scratch, hs[0], 1500)
    finally:
        shutil.rmtree(scratch, ignore_errors=True)
    print(h["output"][-2500:])
    if h["status"] == "FAILED":
        print("VIOLATION property=%s replay=%s" % (rec["property"], path))
        return 1
    return 0 if h["status"] == "SUCCESSFUL" else 2
