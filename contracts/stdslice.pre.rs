// ---- assumed contract on std: a slice copied into a Vec holds the same elements
pub assume_specification<T: Clone>[ <[T]>::to_vec ](s: &[T]) -> (r: Vec<T>)
    ensures r@ == s@;
