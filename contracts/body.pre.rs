use std::path::{Path, PathBuf};
use std::io::ErrorKind;
#[verifier::external_type_specification]
#[verifier::external_body]
pub struct ExPath(Path);
#[verifier::external_type_specification]
#[verifier::external_body]
pub struct ExPathBuf(PathBuf);
#[verifier::external_type_specification]
#[verifier::external_body]
pub struct ExErrorKind(std::io::ErrorKind);
pub assume_specification[ std::io::Error::kind ](e: &std::io::Error) -> std::io::ErrorKind;

// ---- futures_lite::io::Take (assumed contract, from its documentation and source):
// wraps a reader; delivers at most `n0` bytes in total and then reports end of stream without
// touching the inner reader; every byte it delivers is the next byte of the inner reader.
#[verifier::external_body]
#[verifier::reject_recursive_types(R)]
pub struct Take<R> { _r: core::marker::PhantomData<R> }
impl<R: AsyncRead> Take<R> {
    pub uninterp spec fn inner(&self) -> R;          // the wrapped reader, in its current state
    pub uninterp spec fn start(&self) -> nat;        // inner.hist().len() when the Take was made
    pub uninterp spec fn n0(&self) -> nat;           // the byte budget it was made with
    pub uninterp spec fn thist(&self) -> Seq<Ev>;    // the events this Take has delivered
    #[verifier::prophetic]
    pub uninterp spec fn tend(&self) -> Seq<Ev>;
    // the budget is never exceeded; delivered bytes are exactly the inner reader's new bytes;
    // an error of the inner reader is passed on as an error
    #[verifier::external_body]
    pub proof fn take_inv(&self)
        ensures
            bytes_of(self.thist()).len() <= self.n0(),
            self.start() <= self.inner().hist().len(),
            bytes_of(self.inner().hist().skip(self.start() as int)) == bytes_of(self.thist()),
            // Take reports end of stream itself once the budget is used up; before that, an Eof or
            // Fail event of Take is an Eof or Fail event of the inner reader
            forall|i: int| 0 <= i < self.thist().len() && (#[trigger] self.thist()[i]) is Eof
                && bytes_of(self.thist().take(i)).len() < self.n0() ==> self.inner().hist().len() > self.start()
                   && self.inner().hist().last() is Eof,
    {}
    // giving up the Take gives up the inner reader
    #[verifier::external_body]
    pub proof fn take_resolved(&self)
        requires has_resolved(*self)
        ensures self.inner().hist() == self.inner().end_hist()
    {}
}
impl<R: AsyncRead> AsyncRead for Take<R> {
    open spec fn hist(&self) -> Seq<Ev> { self.thist() }
    #[verifier::prophetic]
    open spec fn end_hist(&self) -> Seq<Ev> { self.tend() }
    open spec fn limit(&self) -> nat { self.n0() }
    #[verifier::external_body]
    proof fn resolved(&self) {}
    #[verifier::external_body]
    proof fn within_limit(&self) {}
    #[verifier::external_body]
    fn read(&mut self, buf: &mut [u8]) -> (r: Result<usize, std::io::Error>)
        ensures
            (*final(self)).inner().end_hist() == (*old(self)).inner().end_hist(),
            (*final(self)).start() == (*old(self)).start(), (*final(self)).n0() == (*old(self)).n0(),
            (*old(self)).inner().hist().is_prefix_of((*final(self)).inner().hist()),
            take_wf(*old(self)) ==> take_wf(*final(self)),
    { unimplemented!() }
    #[verifier::external_body]
    fn read_to_end(&mut self, buf: &mut Vec<u8>) -> (r: Result<usize, std::io::Error>)
        ensures
            (*final(self)).inner().end_hist() == (*old(self)).inner().end_hist(),
            (*final(self)).start() == (*old(self)).start(), (*final(self)).n0() == (*old(self)).n0(),
            (*old(self)).inner().hist().is_prefix_of((*final(self)).inner().hist()),
            take_wf(*old(self)) ==> take_wf(*final(self)),
    { unimplemented!() }
}
pub broadcast proof fn b_take_resolved<R: AsyncRead>(t: Take<R>)
    requires #[trigger] has_resolved(t)
    ensures t.inner().hist() == t.inner().end_hist()
{ t.take_resolved(); }

// the representation invariant of Take, preserved by every operation (assumed)
pub open spec fn take_wf<R: AsyncRead>(t: Take<R>) -> bool {
    &&& bytes_of(t.thist()).len() <= t.n0()
    &&& t.start() <= t.inner().hist().len()
    &&& bytes_of(t.inner().hist().skip(t.start() as int)) == bytes_of(t.thist())
}
// the code calls `AsyncReadExt::take(reader, n)` in function-call syntax
pub struct AsyncReadExt;
impl AsyncReadExt {
    #[verifier::external_body]
    pub fn take<R: AsyncRead>(reader: R, limit: u64) -> (t: Take<R>)
        ensures t.inner() == reader, t.start() == reader.hist().len(), t.n0() == limit,
            t.thist().len() == 0, take_wf(t),
    { unimplemented!() }
}

// ---- temp_file::TempFile and async_fs::File (assumed): opaque handles; File is a writer that
// starts empty.  What ends up on disk is `file.cur()`.
#[verifier::external_body]
pub struct TempFile { _p: () }
impl TempFile {
    #[verifier::external_body]
    pub fn in_dir(dir: &Path) -> Result<TempFile, std::io::Error> { unimplemented!() }
    #[verifier::external_body]
    pub fn path(&self) -> &Path { unimplemented!() }
}
pub mod async_fs {
    use super::*;
    #[verifier::external_body]
    pub struct File { _p: () }
    impl File {
        pub uninterp spec fn content(&self) -> Seq<u8>;
        #[verifier::prophetic]
        pub uninterp spec fn fend(&self) -> Seq<u8>;
        #[verifier::external_body]
        pub fn create(path: &Path) -> (r: Result<File, std::io::Error>)
            ensures r is Ok ==> r->Ok_0.content().len() == 0
        { unimplemented!() }
    }
    impl AsyncWrite for File {
        open spec fn cur(&self) -> Seq<u8> { self.content() }
        #[verifier::prophetic]
        open spec fn end(&self) -> Seq<u8> { self.fend() }
        #[verifier::external_body]
        proof fn resolved(&self) {}
        #[verifier::external_body]
        fn write_all(&mut self, buf: &[u8]) -> (r: Result<(), std::io::Error>) { unimplemented!() }
        #[verifier::external_body]
        fn flush(&mut self) -> (r: Result<(), std::io::Error>) { unimplemented!() }
        #[verifier::external_body]
        fn close(&mut self) -> (r: Result<(), std::io::Error>) { unimplemented!() }
    }
}

// the bytes a call consumed from its (by-value) reader
#[verifier::prophetic]
pub open spec fn consumed<R: AsyncRead>(reader: R) -> Seq<u8> {
    bytes_of(reader.end_hist().skip(reader.hist().len() as int))
}
