#!/usr/bin/env python3
"""Extract the body-classification statement (`let body = match (chunked, &content_length, head.method.as_str()) {..};`)
of read_http_request from the working tree and wrap it, verbatim, in a function a Kani harness can call.
Prints JSON {relpath: text}."""
import json, os, sys
here = os.path.dirname(os.path.abspath(__file__))
sys.path.insert(0, os.path.join(here, "..", "..", "lib"))
import rsx
repo = sys.argv[1]
src = open(os.path.join(repo, "src/request.rs")).read()
items = rsx.scan_file(src)
fn = rsx.find_item(items, "fn read_http_request")
ftext = src[fn.start:fn.end]
an = rsx.FnAnatomy(ftext)
region = None
for (a, b, t) in an.statements(an.body_open, an.body_close):
    # skip outer attributes in front of the statement
    while a < b and rsx.is_p(an.st[a], "#") and rsx.is_p(an.st[a + 1], "["):
        a = rsx.match_close(an.st, a + 1) + 1
    toks = [x.text for x in an.st[a:b + 1]]
    if toks[:3] == ["let", "body", "="]:
        region = ftext[an.st[a].start:an.st[b].end]
if region is None:
    print(json.dumps({"src/request.rs": "    // UNSUPPORTED-PARAMS lost anchor: `let body =` statement of read_http_request\n"}))
    sys.exit(0)
text = """
    struct HeadStub { method: String }
    // the statement below is copied verbatim from read_http_request (working tree)
    fn region_body(chunked: bool, gzip: bool, expect_continue: bool, content_length: Option<u64>, head: HeadStub) -> RequestBody {
        %s
        body
    }
    fn model(chunked: bool, gzip: bool, expect_continue: bool, content_length: Option<u64>, post_or_put: bool) -> RequestBody {
        // RFC 7230 3.3.3 as the property states it
        if chunked { return RequestBody::PendingUnknown; }
        match content_length {
            Some(0) => RequestBody::StaticStr(""),
            Some(n) => RequestBody::PendingKnown(n),
            None => if post_or_put || expect_continue || gzip { RequestBody::PendingUnknown } else { RequestBody::StaticStr("") },
        }
    }
    fn same(a: &RequestBody, b: &RequestBody) -> bool {
        match (a, b) {
            (RequestBody::PendingUnknown, RequestBody::PendingUnknown) => true,
            (RequestBody::PendingKnown(x), RequestBody::PendingKnown(y)) => x == y,
            (RequestBody::StaticStr(x), RequestBody::StaticStr(y)) => x.is_empty() && y.is_empty(),
            _ => false,
        }
    }
    fn one(m: &'static str, post_or_put: bool) {
        let chunked: bool = kani::any();
        let gzip: bool = kani::any();
        let expect: bool = kani::any();
        let cl: Option<u64> = if kani::any() { Some(kani::any()) } else { None };
        let got = region_body(chunked, gzip, expect, cl, HeadStub { method: String::from(m) });
        let want = model(chunked, gzip, expect, cl, post_or_put);
        let ok = same(&got, &want);
        // (RequestBody's drop glue reaches temp_file's Drop and std::fmt; the values are plain variants here)
        std::mem::forget(got);
        std::mem::forget(want);
        assert!(ok);
    }
    // every flag combination and every u64 length, for each method of a pool that brackets "POST"/"PUT"
    // @harness class=complete
    #[kani::proof]
    #[kani::unwind(8)]
    fn c03_body_classification() {
        one("GET", false); one("POST", true); one("PUT", true); one("HEAD", false); one("DELETE", false);
        one("POS", false); one("POSTS", false); one("post", false); one("PUTT", false); one("P", false);
    }
""" % region
print(json.dumps({"src/request.rs": text}))
