//! C04 bounded stand-in / witness replay: the real server over loopback with a scripted, counting handler.
//! Exchange integrity per connection: handler runs per request, responses in order, drop / error behaviour.
use permit::Permit;
use safina::executor::Executor;
use servlin::{socket_addr_127_0_0_1_any_port, HttpServerBuilder, Request, Response};
use std::io::{Read, Write};
use std::net::{Shutdown, SocketAddr, TcpStream};
use std::sync::{Arc, Mutex};
use std::time::Duration;
use temp_dir::TempDir;

type Log = Arc<Mutex<Vec<(String, bool, Option<u64>, u64)>>>; // (path, pending, body len, checksum)
fn checksum(b: &[u8]) -> u64 { b.iter().fold(1469598103934665603u64, |h, x| (h ^ *x as u64).wrapping_mul(1099511628211)) }
fn body_of(l: usize, salt: usize) -> Vec<u8> { (0..l).map(|i| (i * 31 + 7 + salt) as u8).collect() }

struct Server { addr: SocketAddr, _permit: Permit, _exec: Arc<Executor>, _dir: TempDir, log: Log }
/// paths: /r/<code>  answer <code> at once, whatever the body state
///        /g/<code>  ask for the body (limit 1 MiB) while it is pending, then answer <code> with "len=<n>"
///        /d         drop the connection
///        /p         panic
/// set: the server has no directory for large bodies (`receive_large_bodies` not called)
static NOCACHE: std::sync::atomic::AtomicBool = std::sync::atomic::AtomicBool::new(false);
fn nocache() -> bool { NOCACHE.load(std::sync::atomic::Ordering::SeqCst) }
fn start(small: usize) -> Server {
    safina::timer::start_timer_thread();
    let permit = Permit::new();
    let exec = Executor::new(2, 4).unwrap();
    let dir = TempDir::new().unwrap();
    let log: Log = Arc::new(Mutex::new(Vec::new()));
    let log2 = log.clone();
    let handler = move |req: Request| -> Response {
        let path = req.url().path().to_string();
        let seg: Vec<&str> = path.split('/').collect();
        let (blen, sum) = match req.body().reader() { Ok(mut r) => { let mut v = Vec::new(); let _ = r.read_to_end(&mut v); (Some(v.len() as u64), checksum(&v)) } Err(_) => (req.body().len(), 0) };
        log2.lock().unwrap().push((path.clone(), req.body().is_pending(), blen, sum));
        match seg.get(1).copied() {
            Some("r") => Response::text(seg[2].parse().unwrap(), "r"),
            Some("g") => { if req.body().is_pending() { return Response::get_body_and_reprocess(1 << 20); } Response::text(seg[2].parse().unwrap(), format!("len={}", blen.unwrap_or(0))) }
            Some("d") => Response::drop_connection(),
            Some("p") => panic!("handler panic"),
            _ => Response::text(200, "ok"),
        }
    };
    let b = HttpServerBuilder::new().listen_addr(socket_addr_127_0_0_1_any_port()).max_conns(100).small_body_len(small);
    let b = if nocache() { b } else { b.receive_large_bodies(dir.path()) };
    let (addr, _stopped) = exec.block_on(b.permit(permit.new_sub()).spawn(handler)).unwrap();
    Server { addr, _permit: permit, _exec: exec, _dir: dir, log }
}
fn exchange(s: &Server, send: &[u8]) -> Vec<u8> { exchange_cuts(s, send, &[]) }
/// the bytes delivered in pieces: a pause after each offset in `cuts` (ascending), long enough for the server to read what came
fn exchange_cuts(s: &Server, send: &[u8], cuts: &[usize]) -> Vec<u8> {
    let mut c = TcpStream::connect_timeout(&s.addr, Duration::from_secs(2)).unwrap();
    c.set_read_timeout(Some(Duration::from_secs(4))).unwrap();
    let _ = c.set_nodelay(true);
    let mut at = 0usize;
    for k in cuts { let k = (*k).min(send.len()); if k > at { let _ = c.write_all(&send[at..k]); let _ = c.flush(); std::thread::sleep(Duration::from_millis(if cuts.len() > 8 { 2 } else { 12 })); at = k; } }
    let send = &send[at..];
    let _ = c.write_all(send);
    let _ = c.shutdown(Shutdown::Write);
    let mut out = Vec::new();
    let _ = c.read_to_end(&mut out);
    out
}
fn statuses(out: &[u8]) -> Vec<u16> {
    let t = String::from_utf8_lossy(out);
    t.match_indices("HTTP/1.1 ").filter_map(|(i, _)| t[i + 9..].get(..3).and_then(|c| c.parse().ok())).collect()
}
/// one scripted connection: a list of (kind, code, body length); kinds r g d p, and e = r with `Expect: 100-continue`
/// (the client sends the body without waiting, as RFC 7231 5.1.1 allows)
fn scenario(s: &Server, small: usize, reqs: &[(char, u16, usize)]) -> Option<String> { scenario_cuts(s, small, reqs, None) }
/// `cuts`: None = one write; Some(k) = a pause after byte k; Some(usize::MAX) = byte at a time
fn scenario_cuts(s: &Server, small: usize, reqs: &[(char, u16, usize)], cut: Option<usize>) -> Option<String> {
    let desc = format!("conn S={small} reqs={}{}{}", reqs.iter().map(|(k, c, l)| format!("{k}{c}:{l}")).collect::<Vec<_>>().join(","), if nocache() { " nocache=1" } else { "" },
        match cut { None => String::new(), Some(usize::MAX) => " cut=each".to_string(), Some(k) => format!(" cut={k}") });
    let mut msg = Vec::new();
    for (i, (k, code, l)) in reqs.iter().enumerate() {
        let path = path_of(*k, *code);
        let expect = if *k == 'e' { "expect: 100-continue\r\n" } else { "" };
        if *l > 0 { msg.extend_from_slice(format!("POST {path} HTTP/1.1\r\n{expect}content-length: {l}\r\n\r\n").as_bytes()); msg.extend_from_slice(&body_of(*l, i)); }
        else { msg.extend_from_slice(format!("GET {path} HTTP/1.1\r\n\r\n").as_bytes()); }
    }
    s.log.lock().unwrap().clear();
    let cuts: Vec<usize> = match cut { None => vec![], Some(usize::MAX) => (1..msg.len()).collect(), Some(k) => vec![k] };
    let out = exchange_cuts(s, &msg, &cuts);
    let got: Vec<u16> = statuses(&out).into_iter().filter(|c| *c != 100).collect();
    std::thread::sleep(Duration::from_millis(20));
    let runs = s.log.lock().unwrap().clone();
    // expected: per request the handler runs and the response; the connection ends after the first error / 5xx /
    // drop / panic / unread body.  After a 4xx the server may close (it does today) or carry on: no property
    // demands either, so both are accepted.
    let mut first_err = None;
    for close_after_4xx in [true, false] {
        let (want_status, want_runs) = expect(small, reqs, close_after_4xx);
        let err = if got != want_status { Some(format!("{desc} expected=statuses{want_status:?} actual=statuses{got:?}")) }
            else if runs.len() != want_runs.len() { Some(format!("{desc} expected={}-handler-runs actual={}-handler-runs {:?}", want_runs.len(), runs.len(), runs.iter().map(|r| (r.0.clone(), r.1)).collect::<Vec<_>>())) }
            else { runs.iter().zip(want_runs.iter()).find(|(a, b)| a != b).map(|(a, b)| format!("{desc} expected=run{b:?} actual=run{a:?}")) };
        match err { None => return None, Some(e) => { if first_err.is_none() { first_err = Some(e) } } }
    }
    first_err
}
fn path_of(k: char, code: u16) -> String { match k { 'r' | 'e' => format!("/r/{code}"), 'g' => format!("/g/{code}"), 'd' => "/d".to_string(), _ => "/p".to_string() } }
type Run = (String, bool, Option<u64>, u64);
fn expect(small: usize, reqs: &[(char, u16, usize)], close_after_4xx: bool) -> (Vec<u16>, Vec<Run>) {
    let mut want_status = Vec::new();
    let mut want_runs: Vec<Run> = Vec::new();
    let mut open = true;
    for (i, (k, code, l)) in reqs.iter().enumerate() {
        if !open { break; }
        let path = path_of(*k, *code);
        let body = body_of(*l, i);
        let pending = *l > small;
        let seen = |p: bool| -> Run { if p { (path.clone(), true, Some(*l as u64), 0) } else { (path.clone(), false, Some(*l as u64), checksum(&body)) } };
        let ends = |c: u16| c >= 500 || (c >= 400 && close_after_4xx);
        match k {
            'r' | 'e' => { want_runs.push(seen(pending)); want_status.push(*code); if ends(*code) || pending { open = false; } }
            'g' => { if pending { want_runs.push(seen(true)); } want_runs.push(seen(false)); want_status.push(*code); if ends(*code) { open = false; } }
            'd' => { want_runs.push(seen(pending)); open = false; }
            _ => { want_runs.push(seen(pending)); want_status.push(500); open = false; }
        }
    }
    (want_status, want_runs)
}
fn parse(w: &str) -> (usize, Vec<(char, u16, usize)>) {
    // "conn S=<n> reqs=k<code>:<len>,..."
    let s: usize = w.split("S=").nth(1).unwrap().split(' ').next().unwrap().parse().unwrap();
    let rs = w.split("reqs=").nth(1).unwrap().split(' ').next().unwrap();
    let v = rs.split(',').map(|t| { let k = t.chars().next().unwrap(); let (c, l) = t[1..].split_once(':').unwrap(); (k, c.parse().unwrap(), l.parse().unwrap()) }).collect();
    (s, v)
}
/// a body that ends early: the client declares `l` bytes, sends `sent` < `l` and closes its sending side.  The handler never
/// sees the incomplete body as if it were the request's body, runs at most once (with the body still pending), and no success
/// status is sent for the run that would have needed the body
fn shortbody(s: &Server, small: usize, kind: char, l: usize, sent: usize) -> Option<String> {
    let desc = format!("shortbody S={small} kind={kind} len={l} sent={sent}");
    let path = path_of(kind, 200);
    let mut msg = format!("POST {path} HTTP/1.1\r\ncontent-length: {l}\r\n\r\n").into_bytes();
    msg.extend_from_slice(&body_of(l, 0)[..sent]);
    s.log.lock().unwrap().clear();
    let out = exchange(s, &msg);
    let got: Vec<u16> = statuses(&out).into_iter().filter(|c| *c != 100).collect();
    std::thread::sleep(Duration::from_millis(20));
    let runs = s.log.lock().unwrap().clone();
    if let Some(r) = runs.iter().find(|r| !r.1) { return Some(format!("{desc} expected=no handler run with a body that was not received whole actual=run{r:?}")); }
    if runs.len() > 1 { return Some(format!("{desc} expected=at most one handler run actual={} runs", runs.len())); }
    if kind == 'g' && got.contains(&200) { return Some(format!("{desc} expected=no 200 (the body never arrived) actual=statuses{got:?}")); }
    None
}
/// a long pipeline of small requests on one connection (more than the connection buffer holds), delivered in two writes with a
/// pause at byte `cut` -- so that a request head is split wherever the buffer happens to be: one handler run and one 200 per
/// request, in order, whatever the buffer management does
fn longpipe(s: &Server, count: usize, cut: usize) -> Option<String> {
    let desc = format!("longpipe count={count} cut={cut}");
    let mut msg = Vec::new();
    for i in 0..count { msg.extend_from_slice(format!("GET /r/200?{i} HTTP/1.1\r\nx-pad: {}\r\n\r\n", "p".repeat(i % 7)).as_bytes()); }
    s.log.lock().unwrap().clear();
    let mut c = TcpStream::connect_timeout(&s.addr, Duration::from_secs(2)).unwrap();
    c.set_read_timeout(Some(Duration::from_secs(10))).unwrap();
    let k = cut.min(msg.len());
    let _ = c.write_all(&msg[..k]); let _ = c.flush();
    std::thread::sleep(Duration::from_millis(150));
    let _ = c.write_all(&msg[k..]);
    let _ = c.shutdown(Shutdown::Write);
    let mut out = Vec::new();
    let _ = c.read_to_end(&mut out);
    let st = statuses(&out);
    if st.len() != count || st.iter().any(|c| *c != 200) { return Some(format!("{desc} expected={count} responses 200 actual={} responses, last {:?}", st.len(), st.last())); }
    let runs = s.log.lock().unwrap().len();
    if runs != count { return Some(format!("{desc} expected={count} handler runs actual={runs}")); }
    None
}
fn main() {
    std::panic::set_hook(Box::new(|_| {}));
    let args: Vec<String> = std::env::args().collect();
    if args.len() >= 3 && args[1] == "replay" {
        let w = args[2..].join(" ");
        if w.starts_with("longpipe ") {
            let g = |k: &str| -> usize { w.split(&format!("{k}=")).nth(1).unwrap().split(' ').next().unwrap().parse().unwrap() };
            let s = start(100);
            match longpipe(&s, g("count"), g("cut")) { Some(m) => { println!("WITNESS {m}"); std::process::exit(1) } None => { println!("OK witness no longer fails"); std::process::exit(0) } }
        }
        if w.starts_with("shortbody ") {
            let g = |k: &str| -> String { w.split(&format!("{k}=")).nth(1).unwrap().split(' ').next().unwrap().to_string() };
            let small: usize = g("S").parse().unwrap();
            let s = start(small);
            match shortbody(&s, small, g("kind").chars().next().unwrap(), g("len").parse().unwrap(), g("sent").parse().unwrap()) { Some(m) => { println!("WITNESS {m}"); std::process::exit(1) } None => { println!("OK witness no longer fails"); std::process::exit(0) } }
        }
        let (small, reqs) = parse(&args[2..].join(" "));
        if w.contains(" nocache=1") { NOCACHE.store(true, std::sync::atomic::Ordering::SeqCst); }
        let cut = w.split(" cut=").nth(1).map(|x| { let x = x.split(' ').next().unwrap(); if x == "each" { usize::MAX } else { x.parse().unwrap() } });
        let s = start(small);
        match scenario_cuts(&s, small, &reqs, cut) { Some(m) => { println!("WITNESS {m}"); std::process::exit(1) } None => { println!("OK witness no longer fails"); std::process::exit(0) } }
    }
    let mut n = 0u64; let mut found = Vec::new();
    for small in [0usize, 10, 100] {
        let s = start(small);
        let lens = [0usize, 1, small, small + 1, 3 * small + 50];
        let kinds: Vec<(char, u16)> = vec![('r', 200), ('r', 204), ('r', 404), ('r', 500), ('g', 200), ('g', 404), ('d', 0), ('p', 0), ('e', 200)];
        // single requests, then pairs and triples (the connection must stop where the rules say)
        for (k, c) in &kinds { for l in lens { n += 1; if let Some(w) = scenario(&s, small, &[(*k, *c, l)]) { if found.len() < 6 { found.push(w) } } } }
        for (k1, c1) in &kinds { for (k2, c2) in &kinds { for (l1, l2) in [(0, 0), (small, small + 1), (small + 1, 0), (1, 3 * small + 50)] {
            n += 1; if let Some(w) = scenario(&s, small, &[(*k1, *c1, l1), (*k2, *c2, l2), ('r', 200, 0)]) { if found.len() < 6 { found.push(w) } }
        }}}
        for kind in ['g', 'r'] { for l in [1usize, small.max(1), small + 1, 3 * small + 50, 70_000] { for sent in [0usize, l / 2, l - 1] {
            if sent >= l { continue; }
            n += 1; if let Some(w) = shortbody(&s, small, kind, l, sent) { if found.len() < 6 { found.push(w) } }
        }}}
    }
    {
        // a server without a directory for large bodies: a handler that answers a pending body directly is still run once and
        // its answer is the response (the missing directory matters only when the handler asks for the body)
        NOCACHE.store(true, std::sync::atomic::Ordering::SeqCst);
        let small = 10usize;
        let s = start(small);
        for (k, c) in [('r', 200u16), ('r', 404), ('r', 413), ('d', 0), ('p', 0), ('e', 200)] { for l in [0usize, small, small + 1, 500] {
            n += 1; if let Some(w) = scenario(&s, small, &[(k, c, l)]) { if found.len() < 6 { found.push(w) } }
        }}
        NOCACHE.store(false, std::sync::atomic::Ordering::SeqCst);
    }
    {
        // delivery schedules: the same connection with a pause after every single offset of the bytes sent (so that every
        // request head -- and its final CRLFCRLF -- is split at every position), and byte at a time
        let small = 10usize;
        let s = start(small);
        let reqs = [('r', 200u16, 0usize), ('r', 200, 5), ('g', 200, 20), ('r', 404, 0)];
        let total: usize = 16 + 2 + 2 + 40 + 5 + 2 + 2 + 41 + 20 + 2 + 2 + 22;   // an upper bound of the message length
        for k in 1..total { n += 1; if let Some(w) = scenario_cuts(&s, small, &reqs, Some(k)) { if found.len() < 6 { found.push(w) } } }
        n += 1; if let Some(w) = scenario_cuts(&s, small, &reqs, Some(usize::MAX)) { if found.len() < 6 { found.push(w) } }
        n += 1; if let Some(w) = scenario_cuts(&s, small, &[('e', 200, 30), ('r', 200, 0)], Some(usize::MAX)) { if found.len() < 6 { found.push(w) } }
    }
    {
        let s = start(100);
        for cut in [8150usize, 8170, 8185, 8190, 8191, 8192, 8193, 8200, 16380, 4000] { n += 1; if let Some(w) = longpipe(&s, 420, cut) { if found.len() < 6 { found.push(w) } } }
    }
    println!("EVALUATED {n}");
    for f in &found { println!("WITNESS {f}"); }
    std::process::exit(if found.is_empty() { 0 } else { 1 });
}
