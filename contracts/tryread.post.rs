// vacuity canary -- must FAIL
fn canary_tryread<const N: usize>(buf: &mut FixedBuf<N>)
    requires old(buf).wf()
{
    let r = Head::try_read(buf);
    let t = trim_trailing_cr(b"a\r");
    assert(false);
}
