use vstd::prelude::*;
verus! {
pub struct IoError;
pub enum CopyResult {
    Ok(u64),
    ReaderErr(IoError),
    WriterErr(IoError),
}
pub trait Unpin {}
pub trait AsyncRead {
    spec fn consumed(&self) -> Seq<u8>;
    fn read(&mut self, buf: &mut [u8]) -> (r: Result<usize, IoError>)
        ensures
            final(buf)@.len() == old(buf)@.len(),
            match r {
                Ok(n) => n <= old(buf)@.len() && final(self).consumed() == old(self).consumed() + final(buf)@.subrange(0, n as int),
                Err(_) => final(self).consumed() == old(self).consumed(),
            };
}
pub trait AsyncWrite {
    spec fn written(&self) -> Seq<u8>;
    fn write_all(&mut self, buf: &[u8]) -> (r: Result<(), IoError>)
        ensures
            match r {
                Ok(()) => final(self).written() == old(self).written() + buf@,
                Err(_) => exists|k: int| 0 <= k <= buf@.len() && final(self).written() == old(self).written() + buf@.subrange(0, k),
            };
}

fn hex_digit(n: u8) -> u8 
  requires n < 16
{
    match n {
        0 => b'0',
        10 => b'a',
        _ => b'1',
    }
}
fn trim_prefix(mut slice: &[u8], prefix: u8) -> &[u8] {
    while !slice.is_empty() && slice[0] == prefix
      decreases slice.len()
    {
        slice = &slice[1..];
    }
    slice
}

pub fn copy_chunked_async(
    mut reader: impl AsyncRead + Unpin,
    mut writer: impl AsyncWrite + Unpin,
) -> CopyResult {
    let mut num_copied = 0;
    loop 
      decreases 1int
    {
        let mut buf = Box::new([0_u8; 65536]);
        let len = match reader.read(&mut buf[6..65534]) {
            Ok(0) => break,
            Ok(len) => len,
            Err(e) => return CopyResult::ReaderErr(e),
        };
        buf[0] = hex_digit(u8::try_from((len >> 12) & 0xF).unwrap());
        buf[4] = b'\r';
        buf[5] = b'\n';
        buf[6 + len] = b'\r';
        buf[6 + len + 1] = b'\n';
        let bytes = &buf[..(6 + len + 2)];
        let bytes = trim_prefix(bytes, b'0');
        if let Err(e) = writer.write_all(bytes) {
            return CopyResult::WriterErr(e);
        }
        num_copied += len as u64;
    }
    if let Err(e) = writer.write_all(b"0\r\n\r\n") {
        return CopyResult::WriterErr(e);
    }
    num_copied += 3;
    CopyResult::Ok(num_copied)
}
} // verus!
fn main() {}
