// ---- property-level theorems over write_http_response's contract
// C06: a response that would duplicate an automatic field (or is not a normal response) is refused before any byte
// is written, with the specific error
pub proof fn thm_refused_before_any_byte<W: AsyncWrite>(writer: W, resp: Response, close: bool, r: Result<(), HttpError>)
    requires write_post(writer, resp, close, r), wr_guard(resp) is Some
    ensures r is Err, r->Err_0 == wr_guard(resp)->Some_0, writer.end() == writer.cur()
{}
// C06: on success exactly the one serialisation went out: head (status line, automatic fields, own fields in
// order, blank line) followed by the framed body; a known length is honoured exactly
pub proof fn thm_written_is_serialisation<W: AsyncWrite>(writer: W, resp: Response, close: bool, r: Result<(), HttpError>)
    requires write_post(writer, resp, close, r), r is Ok
    ensures wr_guard(resp) is None,
        writer.end() == writer.cur() + (status_line(resp.code) + auto_fields(resp, close) + fields(resp.headers.0@) + crlf()) + body_wire(resp.body),
        blen(resp.body) matches Some(n) ==> body_wire(resp.body).len() == n,
{
    lemma_head_readable(resp, close);
    assert(writer.cur() + ser(resp, close) =~= writer.cur() + (status_line(resp.code) + auto_fields(resp, close) + fields(resp.headers.0@) + crlf()) + body_wire(resp.body));
}
// C08: whatever fails -- the socket after any number of bytes, a body source that cannot be opened, fails while
// being read or is shorter than declared -- what was written is a prefix of that serialisation, and the call
// reports an error
pub proof fn thm_failure_leaves_prefix<W: AsyncWrite>(writer: W, resp: Response, close: bool, r: Result<(), HttpError>)
    requires write_post(writer, resp, close, r), r is Err
    ensures writer.cur().is_prefix_of(writer.end()), writer.end().is_prefix_of(writer.cur() + ser(resp, close)),
{
    if wr_guard(resp) is Some {
        assert(writer.cur() + ser(resp, close) =~= writer.cur() + ser(resp, close));
    }
}
// C08: a body of known length n that delivers fewer than n bytes can never be reported as sent
pub proof fn thm_short_body_is_error<W: AsyncWrite>(writer: W, resp: Response, close: bool, r: Result<(), HttpError>)
    requires write_post(writer, resp, close, r), wr_guard(resp) is None,
        blen(resp.body) is Some, bytes_of(body_events(resp.body)).len() < blen(resp.body)->Some_0,
    ensures r is Err
{}
// vacuity canary: must fail
proof fn canary_respwrite() { assert(false); }
