// ---- unit logwrap: stand-ins for the logging front end (src/log/mod.rs)
use std::time::SystemTime;
use std::backtrace::Backtrace;
#[verifier::external_type_specification]
#[verifier::external_body]
pub struct ExSystemTime2(SystemTime);
#[verifier::external_type_specification]
#[verifier::external_body]
pub struct ExBacktrace(std::backtrace::Backtrace);
pub assume_specification[ SystemTime::now ]() -> (r: SystemTime);

// the logger (assumed): `log` hands exactly one event with this level and these tags to the logger installed at that
// moment (or reports that it has stopped); what an installed logger does with it is C17 / C19.  `was_logged` is
// uninterpreted, so the only way to establish it is a call with exactly these arguments.
pub uninterp spec fn was_logged(level: Level, tags: Seq<Tag>) -> bool;
#[verifier::external_body]
pub fn log(time: SystemTime, level: Level, tags: Vec<Tag>) -> (r: Result<(), LoggerStoppedError>)
    ensures r is Ok ==> was_logged(level, tags@)
{ unimplemented!() }

// Tag::new (src/log/tag.rs; assumed): the name, and the value converted by the value type's Into<TagValue> -- kept
// abstract as tv_of(value)
pub uninterp spec fn tv_of<V>(v: V) -> TagValue;
impl Tag {
    #[verifier::external_body]
    pub fn new<V>(name: &'static str, value: V) -> (r: Tag)
        ensures r.name == name, r.value == tv_of(value)
    { unimplemented!() }
}
pub open spec fn mk(name: &'static str, value: TagValue) -> Tag { Tag { name, value } }

// rule S1 stand-in for `e.response.unwrap_or_else(Response::internal_server_error_500)`: the error's own response, or
// the bare 500 (Response::internal_server_error_500 is under a complete Kani harness in C20)
pub uninterp spec fn bare_500() -> Response;
#[verifier::external_body]
pub fn response_or_500(r: Option<Response>) -> (out: Response)
    ensures out == (match r { Some(x) => x, None => bare_500() })
{ unimplemented!() }

// ---- what the wrapper must log and return (taken from the property)
pub open spec fn body_tags(resp: Response) -> Seq<Tag> {
    match blen(resp.body) { Some(n) => seq![mk("code", tv_of(resp.code)), mk("response_body_len", tv_of(n))], None => seq![mk("code", tv_of(resp.code))] }
}
pub open spec fn response_of(result: Result<Response, Error>) -> Response {
    match result { Ok(r) => r, Err(e) => match e.response { Some(r) => r, None => bare_500() } }
}

// ---- the request / response wrapper: the request is only handed on; the per-thread tag set lives in a thread_local!
// (outside Verus), so its operations are opaque here -- that the wrapper starts from a clean set is checked by the bounded
// stand-in c18 only
#[verifier::external_body]
pub struct Request { _p: () }
#[verifier::external_type_specification]
#[verifier::external_body]
pub struct ExInstant(std::time::Instant);
use std::time::Instant;
pub assume_specification[ Instant::now ]() -> (r: Instant);
#[verifier::external_body]
pub fn elapsed_millis(before: &Instant) -> u128 { unimplemented!() }
#[verifier::external_body]
pub fn clear_thread_local_log_tags() { unimplemented!() }
#[verifier::external_body]
pub fn add_thread_local_log_tags_from_request(req: &Request) { unimplemented!() }
#[verifier::external_body]
pub fn add_thread_local_log_tag<V>(name: &'static str, value: V) { unimplemented!() }
pub open spec fn logged_for(hr: Result<Response, Error>) -> bool {
    match hr {
        Ok(resp) => was_logged(Level::Info, body_tags(resp)),
        Err(e) => exists|tags: Seq<Tag>| #[trigger] was_logged(Level::Error, tags) && e.tags@.is_prefix_of(tags)
            && body_tags(response_of(hr)).is_suffix_of(tags) && (e.msg matches Some(m) ==> tags[e.tags@.len() as int] == mk("msg", tv_of(m))),
    }
}
