use std::path::{Path, PathBuf};
#[verifier::external_type_specification]
#[verifier::external_body]
pub struct ExPath(Path);
#[verifier::external_type_specification]
#[verifier::external_body]
pub struct ExPathBuf(PathBuf);

// ---- futures_lite::io::Take (assumed contract, from its documentation and source):
// wraps a reader; delivers at most `budget` bytes in total and then reports end of stream without
// touching the inner reader; every byte it delivers is the next byte of the inner reader; the
// inner reader is given up when the Take is.  The immutable attributes of a Take are functions of
// its ghost identity `rid` (which no operation changes), so they survive calls that only know the
// generic reader contract.
pub uninterp spec fn take_inner_end(rid: int) -> Seq<Ev>;   // prophecy: the inner reader's final history
pub uninterp spec fn take_start(rid: int) -> nat;           // length of the inner reader's history when wrapped
pub uninterp spec fn take_budget(rid: int) -> nat;
#[verifier::external_body]
#[verifier::reject_recursive_types(R)]
pub struct Take<R> { _r: core::marker::PhantomData<R> }
impl<R: AsyncRead> Take<R> {
    pub uninterp spec fn tid(&self) -> int;
    pub uninterp spec fn thist(&self) -> Seq<Ev>;    // the events this Take has delivered
    #[verifier::prophetic]
    pub uninterp spec fn tend(&self) -> Seq<Ev>;
    #[verifier::prophetic]
    pub uninterp spec fn tend_id(&self) -> int;
    // Relates the two prophecies: the bytes the inner reader will have delivered since it was
    // wrapped are exactly the bytes this Take will have delivered, and never more than the budget.
    // If the Take ends with Eof before the budget is used up, the inner reader reported that Eof.
    #[verifier::external_body]
    pub proof fn take_fate(&self)
        ensures
            take_start(self.tid()) <= take_inner_end(self.tid()).len(),
            bytes_of(take_inner_end(self.tid()).skip(take_start(self.tid()) as int)) == bytes_of(self.tend()),
            bytes_of(self.tend()).len() <= take_budget(self.tid()),
            self.thist().is_prefix_of(self.tend()),
            (self.tend().len() > 0 && self.tend().last() is Eof && bytes_of(self.tend()).len() < take_budget(self.tid()))
                ==> take_inner_end(self.tid()).len() > take_start(self.tid()) && take_inner_end(self.tid()).last() is Eof,
    {}
}
impl<R: AsyncRead> AsyncRead for Take<R> {
    open spec fn hist(&self) -> Seq<Ev> { self.thist() }
    #[verifier::prophetic]
    open spec fn end_hist(&self) -> Seq<Ev> { self.tend() }
    open spec fn limit(&self) -> nat { take_budget(self.tid()) }
    open spec fn rid(&self) -> int { self.tid() }
    #[verifier::prophetic]
    open spec fn end_rid(&self) -> int { self.tend_id() }
    open spec fn aux(&self) -> Seq<u8> { Seq::empty() }
    #[verifier::prophetic]
    open spec fn end_aux(&self) -> Seq<u8> { Seq::empty() }
    #[verifier::external_body]
    proof fn resolved(&self) {}
    #[verifier::external_body]
    proof fn within_limit(&self) {}
    #[verifier::external_body]
    fn read(&mut self, buf: &mut [u8]) -> (r: Result<usize, std::io::Error>) { unimplemented!() }
    #[verifier::external_body]
    fn read_to_end(&mut self, buf: &mut Vec<u8>) -> (r: Result<usize, std::io::Error>) { unimplemented!() }
}
pub broadcast proof fn b_take_fate<R: AsyncRead>(t: Take<R>)
    ensures
        take_start(t.tid()) <= take_inner_end(t.tid()).len(),
        bytes_of(take_inner_end(t.tid()).skip(take_start(t.tid()) as int)) == bytes_of(#[trigger] t.tend()),
        bytes_of(t.tend()).len() <= take_budget(t.tid()),
        t.thist().is_prefix_of(t.tend()),
        (t.tend().len() > 0 && t.tend().last() is Eof && bytes_of(t.tend()).len() < take_budget(t.tid()))
            ==> take_inner_end(t.tid()).len() > take_start(t.tid()) && take_inner_end(t.tid()).last() is Eof,
{ t.take_fate(); }

// the code calls `AsyncReadExt::take(reader, n)` in function-call syntax
pub struct AsyncReadExt;
impl AsyncReadExt {
    #[verifier::external_body]
    pub fn take<R: AsyncRead>(reader: R, limit: u64) -> (t: Take<R>)
        ensures
            take_inner_end(t.tid()) == reader.end_hist(),
            take_start(t.tid()) == reader.hist().len(),
            kept(reader),   // Take only ever reads from the reader it wraps, and gives it up with itself
            take_budget(t.tid()) == limit,
            t.thist().len() == 0,
    { unimplemented!() }
}

// ---- temp_file::TempFile and async_fs::File (assumed): opaque handles; File is a writer that
// starts empty.  What ends up on disk is `file.cur()`.
#[verifier::external_body]
pub struct TempFile { _p: () }
impl TempFile {
    #[verifier::external_body]
    pub fn in_dir(dir: &Path) -> Result<TempFile, std::io::Error> { unimplemented!() }
    #[verifier::external_body]
    pub fn path(&self) -> &Path { unimplemented!() }
}
pub mod async_fs {
    use super::*;
    #[verifier::external_body]
    pub struct File { _p: () }
    impl File {
        pub uninterp spec fn content(&self) -> Seq<u8>;
        // what was accepted has reached the disk: async_fs::File hands writes to a background thread and reports a failed
        // write at the next operation, so only a successful close() (or flush) says the content is really there
        pub uninterp spec fn durable(&self) -> bool;
        #[verifier::prophetic]
        pub uninterp spec fn fend(&self) -> Seq<u8>;
        #[verifier::external_body]
        pub fn create(path: &Path) -> (r: Result<File, std::io::Error>)
            ensures r is Ok ==> r->Ok_0.content().len() == 0
        { unimplemented!() }
    }
    impl AsyncWrite for File {
        open spec fn cur(&self) -> Seq<u8> { self.content() }
        #[verifier::prophetic]
        open spec fn end(&self) -> Seq<u8> { self.fend() }
        open spec fn accepted(&self) -> nat { self.content().len() }
        #[verifier::prophetic]
        open spec fn end_accepted(&self) -> nat { self.fend().len() }
        #[verifier::prophetic]
        open spec fn deep(&self) -> Seq<u8> { self.fend() }
        #[verifier::prophetic]
        open spec fn end_deep(&self) -> Seq<u8> { self.fend() }
        #[verifier::prophetic]
        open spec fn fr(&self) -> Fr { Fr::Nil }
        #[verifier::prophetic]
        open spec fn end_fr(&self) -> Fr { Fr::Nil }
        #[verifier::external_body]
        proof fn resolved(&self) {}
        #[verifier::external_body]
        fn write_all(&mut self, buf: &[u8]) -> (r: Result<(), std::io::Error>) { unimplemented!() }
        #[verifier::external_body]
        fn write(&mut self, buf: &[u8]) -> (r: Result<usize, std::io::Error>) { unimplemented!() }
        #[verifier::external_body]
        fn flush(&mut self) -> (r: Result<(), std::io::Error>) { unimplemented!() }
        #[verifier::external_body]
        fn close(&mut self) -> (r: Result<(), std::io::Error>)
            ensures r is Ok ==> final(self).durable()
        { unimplemented!() }
    }
}

// the bytes a call consumed from its (by-value) reader
#[verifier::prophetic]
pub open spec fn consumed<R: AsyncRead>(reader: R) -> Seq<u8> {
    bytes_of(reader.end_hist().skip(reader.hist().len() as int))
}
