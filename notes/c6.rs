use vstd::prelude::*;
verus! {
pub struct S { pub ghost w: Seq<u8> }
pub struct C<W>(pub W, pub u64);
#[verifier::external_body]
fn wr(c: &mut C<&mut S>, x: u8) 
  ensures (*final(c).0).w == (*old(c).0).w.push(x),
          final(c).1 == old(c).1 + 1,
          mut_ref_future(final(c).0) == mut_ref_future(old(c).0),
{ unimplemented!() }
pub struct H { pub s: S, pub n: u64 }
fn f(h: &mut H) 
  ensures final(h).s.w == old(h).s.w.push(7u8)
{
    let mut c = C(&mut h.s, 0);
    wr(&mut c, 7);
    let k = c.1;
    h.n = k;
}
}
fn main() {}
