//! C01 witness search / replay: real `read_http_head` over scripted streams, every 1- and 2-way split,
//! against an outcome computed from the whole byte stream only.
use fixed_buffer::FixedBuf;
use servlin::internal::{read_http_head, read_http_request, HttpError};
use verif_replay::{block_on, poll_n, ScriptReader, Step};

const N: usize = 64; // head buffer size used by the search (the code is generic in it)

#[derive(Debug, PartialEq, Clone)]
enum Out { Head { consumed: usize }, ParseErr { consumed: usize }, TooLong, Disconnected, Truncated, Panic, Waiting }

fn expected_class(t: &[u8]) -> Out {
    // outcome as a function of the stream only
    let first = t.windows(4).position(|w| w == b"\r\n\r\n");
    match first {
        Some(p) if p + 4 <= N => Out::Head { consumed: p + 4 }, // Head or ParseErr: both consume p+4
        _ => if t.len() >= N { Out::TooLong } else if t.is_empty() { Out::Disconnected } else { Out::Truncated },
    }
}
fn run(t: &[u8], cuts: &[usize]) -> (Out, usize) { run_end(t, cuts, "eof") }
/// `ending`: what the peer does after the bytes -- closes (eof), resets (fail), or keeps the connection open and silent (idle)
fn run_end(t: &[u8], cuts: &[usize], ending: &str) -> (Out, usize) {
    let mut steps = Vec::new();
    let mut prev = 0;
    for &c in cuts { if c > prev && c < t.len() { steps.push(Step::Data(t[prev..c].to_vec())); prev = c; } }
    if prev < t.len() { steps.push(Step::Data(t[prev..].to_vec())); }
    steps.push(match ending { "fail" => Step::Fail, "idle" => Step::Idle, _ => Step::Eof });
    let r = std::panic::catch_unwind(|| {
        let mut buf: FixedBuf<N> = FixedBuf::new();
        let mut rd = ScriptReader::new(steps);
        let res = match poll_n(read_http_head(&mut buf, &mut rd), 8) { Some(r) => r, None => return (Out::Waiting, 0) };
        let leftover = buf.len();
        let consumed = rd.delivered.len() - leftover;
        (match res {
            Ok(_) => Out::Head { consumed },
            Err(HttpError::HeadTooLong) => Out::TooLong,
            Err(HttpError::Disconnected) => Out::Disconnected,
            Err(HttpError::Truncated) => Out::Truncated,
            Err(_) => Out::ParseErr { consumed },
        }, consumed)
    });
    r.unwrap_or((Out::Panic, 0))
}
fn check(t: &[u8], cuts: &[usize]) -> Option<String> {
    let (got, _) = run(t, cuts);
    let want = expected_class(t);
    let ok = match (&got, &want) {
        (Out::Head { consumed: a }, Out::Head { consumed: b }) | (Out::ParseErr { consumed: a }, Out::Head { consumed: b }) => a == b,
        (a, b) => a == b,
    };
    let (base, _) = run(t, &[]);
    if !ok { return Some(format!("head bytes={} cuts={cuts:?} expected={want:?} actual={got:?}", hex(t))); }
    if got != base { return Some(format!("head bytes={} cuts={cuts:?} expected=same-as-unsplit({base:?}) actual={got:?}", hex(t))); }
    None
}
/// the outcome is decided by the bytes received: once they hold a whole head, or fill the buffer without one, the answer
/// is given without waiting for the peer; a reset counts like a close; only an unfinished head waits for an idle peer
fn check_ending(t: &[u8], cuts: &[usize], ending: &str) -> Option<String> {
    let (got, _) = run_end(t, cuts, ending);
    let want = match (expected_class(t), ending) { (Out::Disconnected | Out::Truncated, "idle") => Out::Waiting, (w, _) => w };
    let ok = match (&got, &want) {
        (Out::Head { consumed: a }, Out::Head { consumed: b }) | (Out::ParseErr { consumed: a }, Out::Head { consumed: b }) => a == b,
        (a, b) => a == b,
    };
    if !ok { return Some(format!("ending={ending} bytes={} cuts={cuts:?} expected={want:?} actual={got:?}", hex(t))); }
    None
}
/// two requests on one stream through read_http_request with a 64-byte buffer: both must parse for
/// every split (the second head gets the whole buffer again)
fn check_pipelined(first: &[u8], second: &[u8], cut: usize) -> Option<String> {
    let mut t = first.to_vec(); t.extend_from_slice(second);
    let desc = format!("pipelined bytes={} cuts=[{cut}]", hex(&t));
    let steps: Vec<Step> = if cut == 0 || cut >= t.len() { vec![Step::Data(t.clone()), Step::Eof] } else { vec![Step::Data(t[..cut].to_vec()), Step::Data(t[cut..].to_vec()), Step::Eof] };
    let r = std::panic::catch_unwind(|| {
        let mut buf: FixedBuf<N> = FixedBuf::new();
        let mut rd = ScriptReader::new(steps);
        let addr = std::net::SocketAddr::from(([127, 0, 0, 1], 1));
        let a = block_on(read_http_request(addr, &mut buf, &mut rd)).map(|r| r.url.path().to_string());
        let b = block_on(read_http_request(addr, &mut buf, &mut rd)).map(|r| r.url.path().to_string());
        let c = block_on(read_http_request(addr, &mut buf, &mut rd)).map(|r| r.url.path().to_string());
        (a, b, c)
    });
    match r {
        Err(_) => Some(format!("{desc} expected=two-requests actual=panic")),
        Ok((Ok(a), Ok(b), Err(HttpError::Disconnected))) if a == "/a" && b == "/b" => None,
        Ok(other) => Some(format!("{desc} expected=(/a, /b, Disconnected) actual={other:?}")),
    }
}
/// a complete request followed by an unfinished one, then end of stream: whatever the split, the first parses and the
/// second is Truncated (a head was begun) -- never the clean Disconnected of a connection closed between requests
fn check_partial_second(cut: usize) -> Option<String> {
    let t = b"GET /a HTTP/1.1\r\n\r\nGET /b HTT".to_vec();
    let desc = format!("partialsecond cuts=[{cut}]");
    let steps: Vec<Step> = if cut == 0 || cut >= t.len() { vec![Step::Data(t.clone()), Step::Eof] } else { vec![Step::Data(t[..cut].to_vec()), Step::Data(t[cut..].to_vec()), Step::Eof] };
    let r = std::panic::catch_unwind(|| {
        let mut buf: FixedBuf<N> = FixedBuf::new();
        let mut rd = ScriptReader::new(steps);
        let addr = std::net::SocketAddr::from(([127, 0, 0, 1], 1));
        let a = block_on(read_http_request(addr, &mut buf, &mut rd)).map(|r| r.url.path().to_string());
        let b = block_on(read_http_request(addr, &mut buf, &mut rd)).map(|r| r.url.path().to_string());
        (a, b)
    });
    match r {
        Err(_) => Some(format!("{desc} expected=(/a, Truncated) actual=panic")),
        Ok((Ok(a), Err(HttpError::Truncated))) if a == "/a" => None,
        Ok(other) => Some(format!("{desc} expected=(/a, Truncated) actual={other:?}")),
    }
}
/// a stream of several requests (some preceded by stray bytes): the sequence of outcomes of read_http_request is the same for
/// every way of cutting the stream into reads -- in particular it does not depend on what is already buffered when a
/// call starts and what arrives during it.  The reference is the uncut stream.
fn outcomes(t: &[u8], cuts: &[usize]) -> Result<Vec<String>, ()> {
    let mut steps = Vec::new(); let mut prev = 0;
    for &c in cuts { if c > prev && c < t.len() { steps.push(Step::Data(t[prev..c].to_vec())); prev = c; } }
    steps.push(Step::Data(t[prev..].to_vec())); steps.push(Step::Eof);
    std::panic::catch_unwind(|| {
        let mut buf: FixedBuf<N> = FixedBuf::new();
        let mut rd = ScriptReader::new(steps);
        let addr = std::net::SocketAddr::from(([127, 0, 0, 1], 1));
        let mut v = Vec::new();
        for _ in 0..6 {
            match block_on(read_http_request(addr, &mut buf, &mut rd)) { Ok(r) => v.push(format!("Ok({} {})", r.method, r.url.path())), Err(e) => { v.push(format!("Err({e:?})")); break; } }
        }
        v
    }).map_err(|_| ())
}
fn check_reqstream(t: &[u8], cuts: &[usize]) -> Option<String> {
    let desc = format!("reqstream bytes={} cuts={cuts:?}", hex(t));
    let want = match outcomes(t, &[]) { Ok(v) => v, Err(()) => return Some(format!("{desc} expected=no-panic actual=panic (uncut)")) };
    match outcomes(t, cuts) { Err(()) => Some(format!("{desc} expected={want:?} actual=panic")), Ok(got) => if got == want { None } else { Some(format!("{desc} expected={want:?} (the uncut stream) actual={got:?}")) } }
}
fn reqstreams() -> Vec<Vec<u8>> {
    vec![b"M /1 HTTP/1.1\r\n\r\nM /2 HTTP/1.1\r\nH: v\r\n\r\n".to_vec(),
         b"\r\nM /1 HTTP/1.1\r\nH: v\r\n\r\n".to_vec(),
         b"M /1 HTTP/1.1\r\n\r\n\r\nM /2 HTTP/1.1\r\n\r\n".to_vec(),
         b"M /1 HTTP/1.1\r\n\r\n\r\n\r\nM /2 HTTP/1.1\r\n\r\n".to_vec(),
         b"M /1 HTTP/1.1\r\n\r\n\nM /2 HTTP/1.1\r\n\r\n".to_vec(),
         b"M /1 HTTP/1.1\r\n\r\n M /2 HTTP/1.1\r\n\r\n".to_vec(),
         b"M /1 HTTP/1.1\r\n\r\nM /2 HTTP/1.1\r\n\r\nM /3 HTT".to_vec()]
}
/// a long field value with one non-ASCII byte at offset `k` (a 1 KiB buffer, one read): the head is complete, so it is consumed
/// and refused as malformed -- whatever the offset, never a panic of the connection task
fn check_longvalue(k: usize, tail: usize) -> Option<String> {
    let mut t = b"M / HTTP/1.1\r\nx-note: ".to_vec();
    t.extend(std::iter::repeat(b'a').take(k)); t.push(0xE9); t.extend(std::iter::repeat(b'b').take(tail));
    t.extend_from_slice(b"\r\n\r\nNEXT");
    let desc = format!("longvalue k={k} tail={tail}");
    let total = t.len();
    let r = std::panic::catch_unwind(move || {
        let mut buf: FixedBuf<1024> = FixedBuf::new();
        let mut rd = ScriptReader::new(vec![Step::Data(t), Step::Eof]);
        let res = poll_n(read_http_head(&mut buf, &mut rd), 8);
        (res.map(|r| r.is_err()), buf.len())
    });
    match r {
        Err(_) => Some(format!("{desc} expected=refused as malformed actual=panic")),
        Ok((Some(true), left)) if left == 4 => None,
        Ok((Some(true), left)) => Some(format!("{desc} expected=the head consumed ({} bytes left) actual={left} of {total} bytes left", 4)),
        Ok((other, _)) => Some(format!("{desc} expected=refused as malformed actual={other:?}")),
    }
}
fn hex(b: &[u8]) -> String { b.iter().map(|x| format!("{x:02x}")).collect() }
fn unhex(s: &str) -> Vec<u8> { (0..s.len() / 2).map(|i| u8::from_str_radix(&s[2 * i..2 * i + 2], 16).unwrap()).collect() }

fn main() {
    std::panic::set_hook(Box::new(|_| {}));
    let args: Vec<String> = std::env::args().collect();
    if args.len() >= 3 && args[1] == "replay" {
        let w = args[2..].join(" ");
        if w.starts_with("longvalue") {
            let g = |k: &str| -> usize { w.split(&format!("{k}=")).nth(1).unwrap().split(' ').next().unwrap().parse().unwrap() };
            match check_longvalue(g("k"), g("tail")) { Some(m) => { println!("WITNESS {m}"); std::process::exit(1) } None => { println!("OK witness no longer fails"); std::process::exit(0) } }
        }
        if w.starts_with("partialsecond") {
            let cut: usize = w.split("cuts=[").nth(1).unwrap().split(']').next().unwrap().trim().parse().unwrap_or(0);
            match check_partial_second(cut) { Some(m) => { println!("WITNESS {m}"); std::process::exit(1) } None => { println!("OK witness no longer fails"); std::process::exit(0) } }
        }
        if w.starts_with("ending=") {
            let ending = w["ending=".len()..].split(' ').next().unwrap().to_string();
            let bytes = unhex(w.split("bytes=").nth(1).unwrap().split(' ').next().unwrap());
            let cs = w.split("cuts=[").nth(1).unwrap().split(']').next().unwrap();
            let cuts: Vec<usize> = cs.split(',').filter_map(|x| x.trim().parse().ok()).collect();
            match check_ending(&bytes, &cuts, &ending) { Some(m) => { println!("WITNESS {m}"); std::process::exit(1) } None => { println!("OK witness no longer fails"); std::process::exit(0) } }
        }
        if w.starts_with("reqstream") {
            let bytes = unhex(w.split("bytes=").nth(1).unwrap().split(' ').next().unwrap());
            let cs = w.split("cuts=[").nth(1).unwrap().split(']').next().unwrap();
            let cuts: Vec<usize> = cs.split(',').filter_map(|x| x.trim().parse().ok()).collect();
            match check_reqstream(&bytes, &cuts) { Some(m) => { println!("WITNESS {m}"); std::process::exit(1) } None => { println!("OK witness no longer fails"); std::process::exit(0) } }
        }
        if w.starts_with("pipelined") {
            let bytes = unhex(w.split("bytes=").nth(1).unwrap().split(' ').next().unwrap());
            let cut: usize = w.split("cuts=[").nth(1).unwrap().split(']').next().unwrap().trim().parse().unwrap_or(0);
            let p = bytes.windows(4).position(|x| x == b"\r\n\r\n").unwrap() + 4;
            match check_pipelined(&bytes[..p], &bytes[p..], cut) { Some(m) => { println!("WITNESS {m}"); std::process::exit(1) } None => { println!("OK witness no longer fails"); std::process::exit(0) } }
        }
        let bytes = unhex(w.split("bytes=").nth(1).unwrap().split(' ').next().unwrap());
        let cuts: Vec<usize> = w.split("cuts=[").nth(1).unwrap().split(']').next().unwrap().split(',').filter_map(|s| s.trim().parse().ok()).collect();
        match check(&bytes, &cuts) {
            Some(m) => { println!("WITNESS {m}"); std::process::exit(1) }
            None => { println!("OK witness no longer fails"); std::process::exit(0) }
        }
    }
    let thorough = args.iter().any(|a| a == "--thorough");
    let mut corpus: Vec<Vec<u8>> = vec![
        b"".to_vec(), b"\r\n\r\n".to_vec(), b"M / HTTP/1.1\r\n\r\n".to_vec(), b"M / HTTP/1.1\r\n\r\nEXTRA".to_vec(),
        b"M / HTTP/1.1\r\nA: b\r\n\r\n".to_vec(), b"M / HTTP/1.1\r\nA:\xffb\r\n\r\n".to_vec(), b"M / HTTP/1.1\r\nA: \x80\r\n\r\nM".to_vec(),
        b"M / HTTP/1.1\r\n\xc3\xa9: b\r\n\r\n".to_vec(), b"M /\xff HTTP/1.1\r\n\r\n".to_vec(), b"M / HTTP/1.0\r\n\r\n".to_vec(),
        b"M / HTTP/1.1\r\nA: b\r\n".to_vec(), b"M / HTTP/1.1\r".to_vec(), b" \r\n\r\n".to_vec(), b"M  / HTTP/1.1\r\n\r\n".to_vec(),
        b"M / HTTP/1.1\nA: b\n\n".to_vec(), b"M / HTTP/1.1\r\nA b\r\n\r\n".to_vec(), b"M / HTTP/1.1\r\n: b\r\n\r\n".to_vec(),
        b"\r\n\r\n\r\n\r\n".to_vec(), b"M / HTTP/1.1\r\nA: b\r\n\r\nM / HTTP/1.1\r\n\r\n".to_vec(),
    ];
    for len in [N - 5, N - 4, N - 3, N - 1, N, N + 1, 2 * N] {
        corpus.push(vec![b'a'; len]);
        let mut v = b"M / HTTP/1.1\r\nA: ".to_vec();
        while v.len() + 4 < len { v.push(b'x'); }
        v.extend_from_slice(b"\r\n\r\n");
        corpus.push(v.clone());
        v.extend_from_slice(b"tail");
        corpus.push(v);
    }
    if thorough {
        // every string over a reduced alphabet up to length 7
        let alpha = [b'\r', b'\n', b'M', b' ', b':', 0xffu8];
        for len in 1..=7usize {
            for code in 0..alpha.len().pow(len as u32) {
                let mut c = code;
                corpus.push((0..len).map(|_| { let x = alpha[c % alpha.len()]; c /= alpha.len(); x }).collect());
            }
        }
    }
    let mut n = 0u64;
    let mut found = Vec::new();
    for t in &corpus {
        let mut cutsets: Vec<Vec<usize>> = vec![vec![]];
        for i in 1..t.len().min(40) { cutsets.push(vec![i]); }
        for i in 1..t.len().min(12) { for j in i + 1..t.len().min(14) { cutsets.push(vec![i, j]); } }
        cutsets.push((1..t.len()).collect()); // byte at a time
        for cuts in &cutsets {
            n += 1;
            if let Some(m) = check(t, cuts) { if found.len() < 5 { found.push(m) } }
        }
        // what the peer does after the bytes: reset, or silence on an open connection
        for ending in ["fail", "idle"] { for cuts in cutsets.iter().take(3).chain(cutsets.last()) {
            n += 1;
            if let Some(m) = check_ending(t, cuts, ending) { if found.len() < 5 { found.push(m) } }
        } }
    }
    for second_len in [20usize, 40, 48, 60, 64] {
        let first = b"GET /a HTTP/1.1\r\n\r\n".to_vec();
        let mut second = b"GET /b HTTP/1.1\r\nx: ".to_vec();
        while second.len() + 4 < second_len { second.push(b'y'); }
        second.extend_from_slice(b"\r\n\r\n");
        if second.len() > N { continue; }
        for cut in 0..(first.len() + second.len()) {
            n += 1;
            if let Some(m) = check_pipelined(&first, &second, cut) { if found.len() < 5 { found.push(m) } }
        }
    }
    for cut in 0..32 { n += 1; if let Some(m) = check_partial_second(cut) { if found.len() < 5 { found.push(m) } } }
    for t in reqstreams() {
        for c1 in 1..t.len() { n += 1; if let Some(m) = check_reqstream(&t, &[c1]) { if found.len() < 5 { found.push(m) } }
            for c2 in (c1 + 1)..t.len().min(c1 + 8) { n += 1; if let Some(m) = check_reqstream(&t, &[c1, c2]) { if found.len() < 5 { found.push(m) } } } }
        let all: Vec<usize> = (1..t.len()).collect();
        n += 1; if let Some(m) = check_reqstream(&t, &all) { if found.len() < 5 { found.push(m) } }
    }
    for k in [0usize, 1, 31, 32, 62, 63, 64, 98, 99, 100, 101, 126, 127, 128, 199, 200, 254, 255, 256, 300, 511, 512] { for tail in [0usize, 1, 50] {
        n += 1; if let Some(m) = check_longvalue(k, tail) { if found.len() < 5 { found.push(m) } }
    } }
    println!("EVALUATED {n}");
    for f in &found { println!("WITNESS {f}"); }
    std::process::exit(if found.is_empty() { 0 } else { 1 });
}
