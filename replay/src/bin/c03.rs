//! C03 witness search / replay: real `read_http_request` (+ `read_http_body_to_vec`) over an in-memory
//! stream of concatenated messages, against a reference framing model written from RFC 7230 3.3.
use fixed_buffer::FixedBuf;
use futures_lite::AsyncReadExt;
use servlin::internal::{read_http_body_to_vec, read_http_request};
use servlin::RequestBody;
use verif_replay::{block_on, ScriptReader, Step};

#[derive(Debug, PartialEq, Clone)]
enum Framing { Reject, Empty, Known(u64), Unknown }

fn model(method: &str, cls: &[&str], tes: &[&str], expect: bool) -> (Framing, bool, bool) {
    if tes.len() > 1 || cls.len() > 1 { return (Framing::Reject, false, false); }
    let (gzip, chunked) = match tes.first() {
        None => (false, false),
        Some(v) => {
            let parts: Vec<&str> = v.split(',').map(str::trim).filter(|s| !s.is_empty()).collect();
            match parts.as_slice() { ["gzip", "chunked"] => (true, true), ["gzip"] => (true, false), ["chunked"] => (false, true), [] => (false, false), _ => return (Framing::Reject, false, false) }
        }
    };
    let cl = match cls.first() {
        None => None,
        Some(v) => { let v = v.trim_matches(|c| c == ' ' || c == '\t'); if v.is_empty() || !v.bytes().all(|b| b.is_ascii_digit()) { return (Framing::Reject, false, false); } match v.parse::<u64>() { Ok(n) => Some(n), Err(_) => return (Framing::Reject, false, false) } }
    };
    let f = if chunked { Framing::Unknown } else { match cl { Some(0) => Framing::Empty, Some(n) => Framing::Known(n), None => if method == "POST" || method == "PUT" || expect || gzip { Framing::Unknown } else { Framing::Empty } } };
    (f, gzip, chunked)
}
fn message(method: &str, cls: &[&str], tes: &[&str], expect: bool, body: &[u8]) -> Vec<u8> {
    let mut m = format!("{method} /p HTTP/1.1\r\nx-a: 1\r\n").into_bytes();
    // interleave so that duplicates are not adjacent
    for (i, v) in cls.iter().enumerate() { m.extend(format!("{}: {v}\r\nx-b{i}: 2\r\n", if i % 2 == 0 { "Content-Length" } else { "content-length" }).bytes()); }
    for (i, v) in tes.iter().enumerate() { m.extend(format!("{}: {v}\r\n", if i % 2 == 0 { "Transfer-Encoding" } else { "transfer-encoding" }).bytes()); }
    if expect { m.extend(b"Expect: 100-continue\r\n"); }
    m.extend(b"\r\n");
    m.extend(body);
    m
}
/// one message followed by a marker request; returns a finding if the framing disagrees or the
/// byte after the body is not taken as the start of the next request
fn run(method: &str, cls: &[&str], tes: &[&str], expect: bool, split: usize) -> Option<String> {
    let (want, wgzip, wchunked) = model(method, cls, tes, expect);
    let body_len = match &want { Framing::Known(n) if *n <= 64 => *n as usize, _ => 0 };
    let body: Vec<u8> = (0..body_len).map(|i| b'A' + (i % 26) as u8).collect();
    let mut stream = message(method, cls, tes, expect, &body);
    // a smuggled request hidden where a mis-framed body would be read as the next message
    let hidden = b"GET /hidden HTTP/1.1\r\n\r\n";
    if matches!(want, Framing::Reject) { stream.extend_from_slice(hidden); }
    stream.extend_from_slice(b"GET /next HTTP/1.1\r\n\r\n");
    let desc = format!("framing method={method} cl={cls:?} te={tes:?} expect={expect} split={split}");
    let cut = split.min(stream.len());
    let steps = vec![Step::Data(stream[..cut].to_vec()), Step::Data(stream[cut..].to_vec()), Step::Eof];
    let res = std::panic::catch_unwind(|| {
        let mut buf: FixedBuf<8192> = FixedBuf::new();
        let mut rd = ScriptReader::new(steps.into_iter().filter(|s| !matches!(s, Step::Data(d) if d.is_empty())).collect());
        let addr = std::net::SocketAddr::from(([127, 0, 0, 1], 1));
        let r1 = block_on(read_http_request(addr, &mut buf, &mut rd));
        let req = match r1 { Err(_) => return (Framing::Reject, false, false, None), Ok(r) => r };
        let got = match &req.body { RequestBody::PendingKnown(n) => Framing::Known(*n), RequestBody::PendingUnknown => Framing::Unknown, b if b.len() == Some(0) => Framing::Empty, _ => Framing::Unknown };
        let mut next_path = None;
        if let Framing::Known(n) = got { if n <= 64 { let _ = block_on(read_http_body_to_vec((&mut buf).chain(&mut rd), n as usize)); } }
        if matches!(got, Framing::Known(_) | Framing::Empty) {
            if let Ok(r2) = block_on(read_http_request(addr, &mut buf, &mut rd)) { next_path = Some(r2.url.path().to_string()); }
        }
        (got, req.gzip, req.chunked, next_path)
    });
    let (got, ggzip, gchunked, next) = match res { Ok(x) => x, Err(_) => return Some(format!("{desc} expected={want:?} actual=panic")) };
    if got != want { return Some(format!("{desc} expected={want:?} actual={got:?}")); }
    if !matches!(want, Framing::Reject) && (ggzip, gchunked) != (wgzip, wchunked) { return Some(format!("{desc} expected=gzip/chunked={wgzip}/{wchunked} actual={ggzip}/{gchunked}")); }
    if matches!(want, Framing::Known(n) if n <= 64) || matches!(want, Framing::Empty) {
        if next.as_deref() != Some("/next") { return Some(format!("{desc} expected=next-request=/next actual={next:?}")); }
    }
    None
}
fn main() {
    std::panic::set_hook(Box::new(|_| {}));
    let args: Vec<String> = std::env::args().collect();
    let cl_sets: Vec<Vec<&str>> = vec![vec![], vec!["0"], vec!["5"], vec!["64"], vec!["18446744073709551615"], vec!["18446744073709551616"], vec!["+5"], vec!["-5"],
        vec!["5 "], vec!["abc"], vec![""], vec!["5", "5"], vec!["5", "7"], vec!["0", "24"], vec!["24", "0"], vec!["5", "5", "5"]];
    let long_vals: Vec<String> = {
        let mut v = Vec::new();
        for lead in 1..=9u128 { for digits in [19u32, 20, 21, 22, 25] { v.push((lead * 10u128.pow(digits - 1)).to_string()); v.push((lead * 10u128.pow(digits - 1) + 7).to_string()); } }
        for k in [1u128, 2, 3, 5, 16, 1000] { v.push(((u64::MAX as u128) * k + k).to_string()); v.push(((u64::MAX as u128) + k).to_string()); }
        v.push("00000000000000000000000005".to_string()); v.push("18446744073709551615".to_string()); v.push("18446744073709551614".to_string());
        v
    };
    let mut cl_sets = cl_sets;
    for v in &long_vals { cl_sets.push(vec![v.as_str()]); }
    let te_sets: Vec<Vec<&str>> = vec![vec![], vec!["chunked"], vec!["gzip"], vec!["gzip, chunked"], vec!["gzip,chunked"], vec!["chunked, gzip"], vec!["br"], vec![","],
        vec!["chunked", "chunked"], vec!["gzip", "chunked"], vec!["identity"], vec!["chunked", "identity"]];
    if args.len() >= 3 && args[1] == "replay" {
        let w = args[2..].join(" ");
        let get = |k: &str| w.split(&format!("{k}=")).nth(1).unwrap_or("").to_string();
        let method = get("method").split(' ').next().unwrap().to_string();
        let lists = |s: String| -> Vec<String> { s.split(']').next().unwrap().trim_start_matches('[').split("\", \"").map(|x| x.trim_matches('"').to_string()).filter(|x| !(x.is_empty() && s.starts_with("[]"))).collect() };
        let cls = lists(get("cl")); let tes = lists(get("te"));
        let cls: Vec<&str> = cls.iter().map(String::as_str).collect(); let tes: Vec<&str> = tes.iter().map(String::as_str).collect();
        let expect = get("expect").starts_with("true");
        let split: usize = get("split").trim().parse().unwrap_or(0);
        match run(&method, &cls, &tes, expect, split) {
            Some(m) => { println!("WITNESS {m}"); std::process::exit(1) }
            None => { println!("OK witness no longer fails"); std::process::exit(0) }
        }
    }
    let mut n = 0u64;
    let mut found = Vec::new();
    for method in ["GET", "POST", "PUT", "DELETE"] {
        for cls in &cl_sets { for tes in &te_sets { for expect in [false, true] { for split in [0usize, 1, 30, 10_000] {
            n += 1;
            if let Some(m) = run(method, cls, tes, expect, split) { if found.len() < 8 { found.push(m) } }
        }}}}
    }
    println!("EVALUATED {n}");
    for f in &found { println!("WITNESS {f}"); }
    std::process::exit(if found.is_empty() { 0 } else { 1 });
}
