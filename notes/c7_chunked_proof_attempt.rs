use vstd::prelude::*;
verus! {
pub struct IoError;
pub enum CopyResult { Ok(u64), ReaderErr(IoError), WriterErr(IoError) }
pub trait Unpin {}
pub trait AsyncRead: Sized {
    spec fn cur(&self) -> Seq<u8>;      // bytes consumed so far
    spec fn limit(&self) -> nat;
    #[verifier::prophetic]
    spec fn end(&self) -> Seq<u8>;      // bytes consumed when the handle is given up
    proof fn resolved(&self) requires has_resolved(*self) ensures self.cur() == self.end();
    fn read(&mut self, buf: &mut [u8]) -> (r: Result<usize, IoError>)
        ensures
            final(buf)@.len() == old(buf)@.len(),
            final(self).end() == old(self).end(),
            final(self).limit() == old(self).limit(), final(self).cur().len() <= final(self).limit(),
            match r {
                Ok(n) => n <= old(buf)@.len() && final(self).cur() == old(self).cur() + final(buf)@.subrange(0, n as int),
                Err(_) => final(self).cur() == old(self).cur(),
            };
}
pub trait AsyncWrite: Sized {
    spec fn cur(&self) -> Seq<u8>;
    #[verifier::prophetic]
    spec fn end(&self) -> Seq<u8>;
    proof fn resolved(&self) requires has_resolved(*self) ensures self.cur() == self.end();
    fn write_all(&mut self, buf: &[u8]) -> (r: Result<(), IoError>)
        ensures
            final(self).end() == old(self).end(),
            match r {
                Ok(()) => final(self).cur() == old(self).cur() + buf@,
                Err(_) => exists|k: int| 0 <= k <= buf@.len() && #[trigger] final(self).cur() == old(self).cur() + buf@.subrange(0, k),
            };
}

pub open spec fn hexd(n: int) -> u8 { if n < 10 { (48 + n) as u8 } else { (87 + n) as u8 } }
pub open spec fn hex4(len: int) -> Seq<u8> {
    seq![hexd(len / 4096 % 16), hexd(len / 256 % 16), hexd(len / 16 % 16), hexd(len % 16)]
}
pub open spec fn hex_min(len: int) -> Seq<u8> {
    if len >= 4096 { hex4(len) } else if len >= 256 { hex4(len).subrange(1, 4) }
    else if len >= 16 { hex4(len).subrange(2, 4) } else { hex4(len).subrange(3, 4) }
}
pub open spec fn crlf() -> Seq<u8> { seq![13u8, 10u8] }
pub open spec fn chunk(d: Seq<u8>) -> Seq<u8> { hex_min(d.len() as int) + crlf() + d + crlf() }

fn hex_digit(n: u8) -> (r: u8)
    requires n < 16
    ensures r == hexd(n as int)
{
    match n {
        0 => b'0', 1 => b'1', 2 => b'2', 3 => b'3', 4 => b'4', 5 => b'5', 6 => b'6', 7 => b'7',
        8 => b'8', 9 => b'9', 10 => b'a', 11 => b'b', 12 => b'c', 13 => b'd', 14 => b'e', 15 => b'f',
        _ => unimplemented!(),
    }
}

fn trim_prefix(mut slice: &[u8], prefix: u8) -> (r: &[u8])
    ensures exists|i: int| 0 <= i <= slice@.len() && #[trigger] slice@.subrange(i, slice@.len() as int) == r@
        && (forall|j: int| 0 <= j < i ==> slice@[j] == prefix)
        && (i < slice@.len() ==> slice@[i] != prefix)
{
    let ghost orig = slice@;
    let ghost mut i: int = 0;
    while !slice.is_empty() && slice[0] == prefix
        invariant 0 <= i <= orig.len(), slice@ == orig.subrange(i, orig.len() as int),
            forall|j: int| 0 <= j < i ==> orig[j] == prefix,
        decreases slice.len()
    {
        slice = &slice[1..];
        proof { i = i + 1; }
    }
    assert(orig.subrange(i, orig.len() as int) == slice@);
    slice
}

pub open spec fn enc(ps: Seq<Seq<u8>>) -> Seq<u8> decreases ps.len() {
    if ps.len() == 0 { Seq::empty() } else { enc(ps.drop_last()) + chunk(ps.last()) }
}
pub open spec fn cat(ps: Seq<Seq<u8>>) -> Seq<u8> decreases ps.len() {
    if ps.len() == 0 { Seq::empty() } else { cat(ps.drop_last()) + ps.last() }
}
pub open spec fn term() -> Seq<u8> { seq![48u8, 13u8, 10u8, 13u8, 10u8] }
pub open spec fn pieces_ok(ps: Seq<Seq<u8>>) -> bool { forall|i: int| 0 <= i < ps.len() ==> 1 <= #[trigger] ps[i].len() <= 65528 }
pub open spec fn post(rc: Seq<u8>, re: Seq<u8>, wc: Seq<u8>, we: Seq<u8>, res: CopyResult, ps: Seq<Seq<u8>>) -> bool {
    pieces_ok(ps) && re == rc + cat(ps) &&
    match res {
        CopyResult::Ok(n) => we == wc + enc(ps) + term() && n == cat(ps).len() + 3,
        CopyResult::ReaderErr(_) => we == wc + enc(ps),
        CopyResult::WriterErr(_) => exists|k: int| 0 <= k && (#[trigger] we.subrange(0, k) == we) && k <= (wc + enc(ps)).len() + 70000,
    }
}
proof fn lemma_frame(b: Seq<u8>, len: int, t: Seq<u8>, i: int)
    requires 1 <= len <= 65528, b.len() == 6 + len + 2,
        b[0] == hexd(len / 4096 % 16), b[1] == hexd(len / 256 % 16), b[2] == hexd(len / 16 % 16), b[3] == hexd(len % 16),
        b[4] == 13, b[5] == 10, b[6 + len] == 13, b[7 + len] == 10,
        0 <= i <= b.len(), t == b.subrange(i, b.len() as int),
        forall|j: int| 0 <= j < i ==> b[j] == 48u8,
        i < b.len() ==> b[i] != 48u8,
    ensures t == chunk(b.subrange(6, 6 + len))
{
    let d = b.subrange(6, 6 + len);
    if len >= 4096 { assert(i == 0); }
    else if len >= 256 { assert(b[0] == 48u8); assert(i == 1); }
    else if len >= 16 { assert(b[0] == 48u8); assert(b[1] == 48u8); assert(i == 2); }
    else { assert(b[0] == 48u8); assert(b[1] == 48u8); assert(b[2] == 48u8); assert(i == 3); }
    assert(t =~= chunk(d));
}
proof fn lemma_push(ps: Seq<Seq<u8>>, p: Seq<u8>)
    ensures enc(ps.push(p)) == enc(ps) + chunk(p), cat(ps.push(p)) == cat(ps) + p
{
    assert(ps.push(p).drop_last() =~= ps);
}

#[verifier::loop_isolation(false)]
pub fn copy_chunked_async(
    mut reader: impl AsyncRead + Unpin,
    mut writer: impl AsyncWrite + Unpin,
) -> (res: CopyResult)
    requires reader.limit() + 3 <= u64::MAX, reader.cur().len() <= reader.limit(),
    ensures exists|ps: Seq<Seq<u8>>| #[trigger] post(reader.cur(), reader.end(), writer.cur(), writer.end(), res, ps)
{
    let mut num_copied = 0;
    let ghost mut ps: Seq<Seq<u8>> = Seq::empty();
    let ghost r0 = reader.cur();
    let ghost w0 = writer.cur();
    let ghost rend = reader.end();
    let ghost wend = writer.end();
    loop
        invariant pieces_ok(ps), reader.cur() == r0 + cat(ps), writer.cur() == w0 + enc(ps),
            reader.end() == rend, writer.end() == wend, num_copied == cat(ps).len(),
            reader.cur().len() <= reader.limit(), reader.limit() + 3 <= u64::MAX,
        decreases reader.limit() - reader.cur().len()
    {
        proof {
            assert(forall|x: usize| x < 65536 ==> #[trigger] ((x >> 12) & 0xF) == x / 4096 % 16 && ((x >> 12) & 0xF) < 16) by (bit_vector);
            assert(forall|x: usize| x < 65536 ==> #[trigger] ((x >> 8) & 0xF) == x / 256 % 16 && ((x >> 8) & 0xF) < 16) by (bit_vector);
            assert(forall|x: usize| x < 65536 ==> #[trigger] ((x >> 4) & 0xF) == x / 16 % 16 && ((x >> 4) & 0xF) < 16) by (bit_vector);
            assert(forall|x: usize| x < 65536 ==> #[trigger] (x & 0xF) == x % 16 && (x & 0xF) < 16) by (bit_vector);
        }
        let mut buf = Box::new([0_u8; 65536]);
        let len = match reader.read(&mut buf[6..65534]) {
            Ok(0) => break,
            Ok(len) => len,
            Err(e) => { proof { reader.resolved(); writer.resolved(); assert(post(r0, rend, w0, wend, CopyResult::ReaderErr(e), ps)); } return CopyResult::ReaderErr(e) },
        };
        let ghost piece = buf@.subrange(6, 6 + len);
        buf[0] = hex_digit(u8::try_from((len >> 12) & 0xF).unwrap());
        buf[1] = hex_digit(u8::try_from((len >> 8) & 0xF).unwrap());
        buf[2] = hex_digit(u8::try_from((len >> 4) & 0xF).unwrap());
        buf[3] = hex_digit(u8::try_from(len & 0xF).unwrap());
        buf[4] = b'\r';
        buf[5] = b'\n';
        buf[6 + len] = b'\r';
        buf[6 + len + 1] = b'\n';
        let bytes = &buf[..(6 + len + 2)];
        let ghost full = bytes@;
        let bytes = trim_prefix(bytes, b'0');
        proof {
            let i = choose|i: int| 0 <= i <= full.len() && #[trigger] full.subrange(i, full.len() as int) == bytes@
                && (forall|j: int| 0 <= j < i ==> full[j] == 48u8) && (i < full.len() ==> full[i] != 48u8);
            assert(full.subrange(6, 6 + len) =~= piece);
            lemma_frame(full, len as int, bytes@, i);
            lemma_push(ps, piece);
        }
        if let Err(e) = writer.write_all(bytes) {
            proof { reader.resolved(); writer.resolved(); }
            return CopyResult::WriterErr(e);
        }
        num_copied += len as u64;
        proof { ps = ps.push(piece); }
    }
    if let Err(e) = writer.write_all(b"0\r\n\r\n") {
        proof { reader.resolved(); writer.resolved(); }
        return CopyResult::WriterErr(e);
    }
    num_copied += 3;
    proof { reader.resolved(); writer.resolved();
        assume(b"0\r\n\r\n"@ == term());
        assert(writer.cur() == w0 + enc(ps) + term());
        assert(rend == r0 + cat(ps));
        assert(wend == w0 + enc(ps) + term());
        assert(post(r0, rend, w0, wend, CopyResult::Ok(num_copied), ps)); }
    CopyResult::Ok(num_copied)
}
} // verus!
fn main() {}
