fn is_leap_year(year: i64) -> (r: bool)
    requires year >= 0
    ensures r == is_leap(year as int)
{
    if year % 400 == 0 {
        true
    } else if year % 100 == 0 {
        false
    } else {
        year % 4 == 0
    }
}

fn year_len_days(year: i64) -> (r: i64)
    requires year >= 0
    ensures r == ylen(year as int)
{
    if is_leap_year(year) {
        366
    } else {
        365
    }
}

pub fn month_len_days(year: i64, month: i64) -> (r: i64)
    requires year >= 0, 1 <= month <= 12
    ensures r == mlen(year as int, month as int)
{
    match month {
        1 => 31,
        2 if (year % 400) == 0 => 29,
        2 if (year % 100) == 0 => 28,
        2 if (year % 4) == 0 => 29,
        2 => 28,
        3 => 31,
        4 => 30,
        5 => 31,
        6 => 30,
        7 => 31,
        8 => 31,
        9 => 30,
        10 => 31,
        11 => 30,
        12 => 31,
        _ => unimplemented!(),
    }
}

pub struct DateTime {
    pub year: i64,
    pub month: i64,
    pub day: i64,
    pub hour: i64,
    pub min: i64,
    pub sec: i64,
}
impl DateTime {
    pub fn new(epoch_seconds: i64) -> (dt: Self)
        requires 0 <= epoch_seconds <= 0x1_0000_0000_0000
        ensures valid(dt), secs(dt) == epoch_seconds
    {
        let mut dt = Self {
            year: 1970,
            month: 1,
            day: 1,
            hour: 0,
            min: 0,
            sec: epoch_seconds,
        };
        proof { lemma_dbm(1970); }
        dt.balance();
        dt
    }

    fn balance_month(&mut self)
        requires bounded(*old(self), 0x100_0000_0000_0000)
        ensures final(self).year == ny(*old(self)), final(self).month == nm(*old(self)),
            final(self).day == old(self).day, final(self).hour == old(self).hour,
            final(self).min == old(self).min, final(self).sec == old(self).sec,
    {
        let delta_years = if self.month > 12 {
            (self.month - 1) / 12
        } else {
            return;
        };
        self.year += delta_years;
        self.month -= 12 * delta_years;
        assert!((1..=12).contains(&self.month));
    }

    fn balance_day(&mut self)
        requires bounded(*old(self), 0x8_0000_0000_0000)
        ensures valid_ymd(*final(self)), days(*final(self)) == days(*old(self)),
            final(self).hour == old(self).hour,
            final(self).min == old(self).min, final(self).sec == old(self).sec,
            final(self).year >= 1970,
    {
        self.balance_month();
        while self.day > 366
            invariant 1 <= self.month <= 12, self.day >= 1, self.year >= 1970,
                self.year + self.day <= 0x20_0000_0000_0000,
                days(*self) == days(*old(self)),
                self.hour == old(self).hour, self.min == old(self).min, self.sec == old(self).sec,
            decreases self.day
        {
            proof { lemma_dby_step(self.year as int); lemma_dbm(self.year as int); lemma_dbm(self.year + 1); }
            self.day -= year_len_days(FIXME);
            self.year += 1;
        }
        while self.day > month_len_days(self.year, self.month)
            invariant 1 <= self.month <= 12, self.day >= 1, self.year >= 1970,
                self.year + self.day <= 0x20_0000_0000_0000,
                days(*self) == days(*old(self)),
                self.hour == old(self).hour, self.min == old(self).min, self.sec == old(self).sec,
            decreases self.day
        {
            proof { lemma_dby_step(self.year as int); lemma_dbm(self.year as int); lemma_dbm(self.year + 1); }
            self.day -= month_len_days(self.year, self.month);
            self.month += 1;
            self.balance_month();
        }
    }

    fn balance_hour(&mut self)
        requires bounded(*old(self), 0x4_0000_0000_0000)
        ensures valid_ymd(*final(self)), 0 <= final(self).hour < 24,
            days(*final(self)) * 24 + final(self).hour == days(*old(self)) * 24 + old(self).hour,
            final(self).min == old(self).min, final(self).sec == old(self).sec,
    {
        let delta_days = if self.hour > 23 {
            self.hour / 24
        } else {
            self.balance_day();
            return;
        };
        self.day += delta_days;
        self.hour -= 24 * delta_days;
        assert!((0..24).contains(&self.hour));
        self.balance_day();
    }

    fn balance_min(&mut self)
        requires bounded(*old(self), 0x2_0000_0000_0000)
        ensures valid_ymd(*final(self)), 0 <= final(self).hour < 24, 0 <= final(self).min < 60,
            (days(*final(self)) * 24 + final(self).hour) * 60 + final(self).min == (days(*old(self)) * 24 + old(self).hour) * 60 + old(self).min,
            final(self).sec == old(self).sec,
    {
        let delta_hours = if self.min > 59 {
            self.min / 60
        } else {
            self.balance_hour();
            return;
        };
        self.hour += delta_hours;
        self.min -= 60 * delta_hours;
        assert!((0..60).contains(&self.min));
        self.balance_hour();
    }

    pub fn balance(&mut self)
        requires bounded(*old(self), 0x1_0000_0000_0000)
        ensures valid(*final(self)), secs(*final(self)) == secs(*old(self)),
    {
        let delta_mins = if self.sec > 59 {
            self.sec / 60
        } else {
            self.balance_min();
            return;
        };
        self.min += delta_mins;
        self.sec -= 60 * delta_mins;
        assert!((0..60).contains(&self.sec));
        self.balance_min();
    }
}
