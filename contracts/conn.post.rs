// ---- property-level theorems over the method contracts (C05 / C08): each is a lemma whose
// hypotheses are exactly the postconditions proved above for the real methods.

// nothing is sent after shutdown, by any operation
#[verifier::spinoff_prover]
pub proof fn thm_nothing_after_shutdown(pre: HttpConn, post: HttpConn, resp: Response,
        rw: Result<(), HttpError>, rq: Result<Request, HttpError>, rb: Result<RequestBody, HttpError>, max: Option<u64>)
    requires pre.write_state == WriteState::Shutdown
    ensures
        conn_write_response_post(pre, post, resp, rw) ==> wire(post) == wire(pre) && rw is Err,
        conn_continue_post(pre, post, rw) ==> wire(post) == wire(pre) && rw is Err,
        conn_read_request_post(pre, post, rq) ==> wire(post) == wire(pre) && rq is Err,
        conn_read_body_post(pre, post, rb, max) ==> wire(post) == wire(pre),
{
}
// a final response cannot be sent twice: after a successful non-interim response, the next
// write_response is refused with ResponseAlreadySent (or Disconnected after a 5xx) and writes nothing
#[verifier::spinoff_prover]
pub proof fn thm_no_second_final_response(s0: HttpConn, s1: HttpConn, s2: HttpConn, a: Response, b: Response, r2: Result<(), HttpError>)
    requires
        s0.write_state == WriteState::Response,
        conn_write_response_post(s0, s1, a, Ok(())),
        !(100 <= a.code <= 199),
        conn_write_response_post(s1, s2, b, r2),
    ensures
        wire(s2) == wire(s0) + ser(a, is_5xx_code(a.code)),
        r2 is Err,
        is_5xx_code(a.code) ==> s1.write_state == WriteState::Shutdown,
{
}
// interim (1xx) responses do not discharge the owed response
#[verifier::spinoff_prover]
pub proof fn thm_interim_keeps_owed(s0: HttpConn, s1: HttpConn, a: Response)
    requires s0.write_state == WriteState::Response, 100 <= a.code <= 199, conn_write_response_post(s0, s1, a, Ok(()))
    ensures s1.write_state == WriteState::Response
{
}
// C08: a failed write that sent at least one byte shuts the write side down, so whatever is tried
// afterwards adds nothing to the wire: the client saw a prefix of the one serialisation and nothing else
#[verifier::spinoff_prover]
pub proof fn thm_failed_write_is_final(s0: HttpConn, s1: HttpConn, s2: HttpConn, a: Response, b: Response, e: HttpError, r2: Result<(), HttpError>)
    requires
        s0.write_state == WriteState::Response,
        conn_write_response_post(s0, s1, a, Err(e)),
        wire(s1).len() > wire(s0).len(),
        conn_write_response_post(s1, s2, b, r2),
    ensures
        s1.write_state == WriteState::Shutdown,
        wire(s2) == wire(s1), wire(s2).is_prefix_of(wire(s0) + ser(a, is_5xx_code(a.code))),
{
}
// C08: if nothing was sent, exactly one further response can still be carried
#[verifier::spinoff_prover]
pub proof fn thm_failed_write_nothing_sent(s0: HttpConn, s1: HttpConn, a: Response, e: HttpError)
    requires
        s0.write_state == WriteState::Response,
        conn_write_response_post(s0, s1, a, Err(e)),
        wire(s1).len() == wire(s0).len(),
    ensures
        s1.write_state == WriteState::Response, wire(s1) == wire(s0),
{
    assert(wire(s1) =~= wire(s0));
}
// a request cannot be read while a response is owed or a body is unread
#[verifier::spinoff_prover]
pub proof fn thm_read_request_guards(pre: HttpConn, post: HttpConn, r: Result<Request, HttpError>)
    requires conn_read_request_post(pre, post, r), pre.write_state == WriteState::Response || pre.read_state is Body
    ensures r is Err, same_conn(pre, post)
{
}


// C20: every 5xx response that is sent carries `connection: close` (write_response sends a 5xx with close = true,
// and the serialisation with close = true has the field right after the status line / content-type), and the
// write side is shut down after it
pub proof fn thm_5xx_marked_close(pre: HttpConn, post: HttpConn, resp: Response)
    requires pre.write_state == WriteState::Response, conn_write_response_post(pre, post, resp, Ok(())), is_5xx_code(resp.code),
    ensures exists|a: Seq<u8>, z: Seq<u8>| wire(post) == wire(pre) + #[trigger] (a + l_close() + z),
        post.write_state == WriteState::Shutdown,
{
    lemma_close_marked(resp);
    let (a, z) = choose|a: Seq<u8>, z: Seq<u8>| #[trigger] (a + l_close() + z) == ser(resp, true);
    assert(wire(post) == wire(pre) + (a + l_close() + z));
}
// vacuity canary: exercise the assumed stream / chain / serialiser / request-reader contracts -- must FAIL
fn canary_conn(c: &mut HttpConn, resp: &Response, addr: SocketAddr)
    requires old(c).buf.wf()
{
    broadcast use reader_resolved, writer_resolved, seq_events, b_take_fate;
    let mut b = [0u8; 8];
    let x = c.stream.read(&mut b);
    let y = c.stream.write_all(&b);
    let z = c.stream.shutdown(Shutdown::Write);
    let mut wc = AsyncWriteCounter::new(&mut c.stream);
    let w = write_http_response(&mut wc, resp, true);
    let n = wc.num_bytes_written();
    let q = read_http_request(addr, &mut c.buf, &mut c.stream);
    let mut ch = (&mut c.buf).chain(&mut c.stream);
    let k = ch.read(&mut b);
    assert(false);
}
