#!/usr/bin/env python3
"""Generate one complete Kani harness per status-named constructor found in the working tree's
src/response.rs: `pub fn NAME_DDD(args) -> Self` must return kind == Normal and code == DDD.
The contract comes from the function's *name* (the property statement), never from its body,
so a new or renumbered constructor is covered automatically.  Prints JSON {relpath: text}."""
import json, os, re, sys
repo = sys.argv[1]
src = open(os.path.join(repo, "src/response.rs")).read()
out = []
ARG = {
    "impl AsRef<str>": '"/a"',
    "&[&'static str]": '&["GET", "PUT"]',
    "impl Into<String>": '"x"',
    "impl Into<ResponseBody>": '"x"',
    "u64": "kani::any()", "u16": "kani::any()", "u32": "kani::any()",
}
names = []
for m in re.finditer(r"pub fn (\w+_(\d{3}))\s*\(([^)]*)\)\s*->\s*(Self|Response)\b", src):
    name, code, params = m.group(1), m.group(2), m.group(3).strip()
    args = []
    ok = True
    for p in [x.strip() for x in params.split(",") if x.strip()]:
        ty = p.split(":", 1)[1].strip()
        if ty not in ARG:
            ok = False
            break
        args.append(ARG[ty])
    names.append(name)
    if not ok:
        out.append("    // UNSUPPORTED-PARAMS %s(%s)\n" % (name, params))
        continue
    out.append("""    // @harness class=complete
    #[kani::proof]
    fn c20_ctor_%s() {
        let r = Response::%s(%s);
        assert!(r.kind == ResponseKind::Normal, "status-named constructor must build a normal response");
        assert!(r.code == %s, "status-named constructor must use the code in its name");
    }
""" % (name, name, ", ".join(args), code.lstrip("0") or "0"))
print(json.dumps({"src/response.rs": "".join(out), "_names": names}))
