use std::path::PathBuf;
use std::io::ErrorKind;
use std::sync::Mutex;
// (transparent: the variants can be named and matched)
#[verifier::external_type_specification]
pub struct ExErrorKind(std::io::ErrorKind);
#[verifier::external_type_specification]
#[verifier::external_body]
pub struct ExIoError(std::io::Error);
// ErrorKind's derived `==` (assumed): equal iff the same variant
pub assume_specification[ <std::io::ErrorKind as PartialEq<std::io::ErrorKind>>::eq ](a: &std::io::ErrorKind, b: &std::io::ErrorKind) -> (r: bool)
    ensures r == (*a == *b);
pub uninterp spec fn io_kind(e: std::io::Error) -> std::io::ErrorKind;
pub assume_specification[ std::io::Error::kind ](e: &std::io::Error) -> (k: std::io::ErrorKind)
    ensures k == io_kind(*e);
impl vstd::std_specs::convert::FromSpecImpl<std::io::Error> for Response {
    open spec fn obeys_from_spec() -> bool { false }
    uninterp spec fn from_spec(e: std::io::Error) -> Response;
}
#[verifier::external_type_specification]
#[verifier::external_body]
pub struct ExPathBuf(PathBuf);
#[verifier::external_type_specification]
#[verifier::external_body]
#[verifier::reject_recursive_types(T)]
pub struct ExMutex<T: ?Sized>(Mutex<T>);
#[verifier::external_body]
pub struct TempFile { _p: () }
impl vstd::std_specs::convert::FromSpecImpl<&'static str> for ResponseBody {
    open spec fn obeys_from_spec() -> bool { false }
    uninterp spec fn from_spec(s: &'static str) -> ResponseBody;
}
impl vstd::std_specs::convert::FromSpecImpl<String> for ResponseBody {
    open spec fn obeys_from_spec() -> bool { false }
    uninterp spec fn from_spec(s: String) -> ResponseBody;
}
impl HttpError {
    // builds the text of the 400/431/505 bodies with to_string(): outside the properties decided here
    #[verifier::external_body]
    pub fn description(&self) -> String { unimplemented!() }
}
// String::into_bytes (assumed): the UTF-8 form of the text (uninterpreted `text_bytes`)
pub assume_specification [std::string::String::into_bytes] (_0: std::string::String) -> (r: std::vec::Vec<u8>)
    ensures r@ == text_bytes(_0@);

// Cookie and its Set-Cookie text (src/cookie.rs; proved in unit cookie, C15): here only that the conversion is a function of
// the cookie
#[verifier::external_body]
pub struct Cookie { _p: () }
pub uninterp spec fn set_cookie_value(c: Cookie) -> AsciiString;
impl vstd::std_specs::convert::FromSpecImpl<Cookie> for AsciiString {
    open spec fn obeys_from_spec() -> bool { true }
    open spec fn from_spec(c: Cookie) -> AsciiString { set_cookie_value(c) }
}
impl From<Cookie> for AsciiString {
    #[verifier::external_body]
    fn from(c: Cookie) -> (r: AsciiString) { unimplemented!() }
}
// AsRef<str> for str is the identity (assumed, from std)
#[verifier::external_body]
pub proof fn axiom_asref_str(s: &str)
    ensures asref_spec::<&str, str>(&s)@ == s@
{}
