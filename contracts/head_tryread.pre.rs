// Head::try_read as the head unit uses it (contract only).  Unit `tryread` proves it on the real text, except that the
// parse result is a *function* of the head bytes (parse_head): Rust functions without state are deterministic -- assumed.
impl Head {
    #[verifier::external_body]
    pub fn try_read<const BUF_SIZE: usize>(buf: &mut FixedBuf<BUF_SIZE>) -> (r: Result<Self, HeadError>)
        requires old(buf).wf()
        ensures final(buf).wf(),
            !has_delim(old(buf).rd()) ==> r is Err && r->Err_0 is Truncated && buf_unchanged(*old(buf), *final(buf)),
            has_delim(old(buf).rd()) ==> consumed_head(*old(buf), *final(buf))
                && r == parse_head(old(buf).rd().subrange(0, fd(old(buf).rd()))) && !(r is Err && r->Err_0 is Truncated),
    { unimplemented!() }
}

