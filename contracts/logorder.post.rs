// ---- unit logorder: what `ordered` (the contract of `log`) means for the caller
pub open spec fn is_rank(r: u8) -> bool { r == 0 || r == 1 || r == 2 || r == 3 || r == 4 || r == 5 || r == 99 }
pub proof fn lemma_rank_values(n: Seq<char>)
    ensures is_rank(rank(n))
{}
pub proof fn lemma_with_rank_mem(s: Seq<Tag>, r: u8, t: Tag)
    ensures with_rank(s, r).contains(t) <==> (s.contains(t) && rank(t.name@) == r)
    decreases s.len()
{
    if s.len() > 0 {
        let p = s.drop_last();
        lemma_with_rank_mem(p, r, t);
        assert(s =~= p.push(s.last()));
        if with_rank(s, r).contains(t) {
            let i = choose|i: int| 0 <= i < with_rank(s, r).len() && with_rank(s, r)[i] == t;
            if rank(s.last().name@) == r && i == with_rank(p, r).len() { assert(s[s.len() - 1] == t); }
            else { assert(with_rank(p, r)[i] == t); assert(with_rank(p, r).contains(t)); let j = choose|j: int| 0 <= j < p.len() && p[j] == t; assert(s[j] == t); }
        }
        if s.contains(t) && rank(t.name@) == r {
            let j = choose|j: int| 0 <= j < s.len() && s[j] == t;
            if j == s.len() - 1 { assert(with_rank(s, r).last() == t); assert(with_rank(s, r)[with_rank(s, r).len() - 1] == t); }
            else { assert(p[j] == t); assert(p.contains(t)); let i = choose|i: int| 0 <= i < with_rank(p, r).len() && with_rank(p, r)[i] == t; assert(with_rank(s, r)[i] == t); }
        }
    }
}
pub proof fn lemma_with_rank_len(s: Seq<Tag>)
    ensures with_rank(s, 0).len() + with_rank(s, 1).len() + with_rank(s, 2).len() + with_rank(s, 3).len() + with_rank(s, 4).len()
            + with_rank(s, 5).len() + with_rank(s, 99).len() == s.len()
    decreases s.len()
{
    if s.len() > 0 { lemma_with_rank_len(s.drop_last()); lemma_rank_values(s.last().name@); }
}
pub proof fn lemma_with_rank_app(a: Seq<Tag>, b: Seq<Tag>, r: u8)
    ensures with_rank(a + b, r) == with_rank(a, r) + with_rank(b, r)
    decreases b.len()
{
    if b.len() == 0 { assert(a + b =~= a); assert(with_rank(a, r) + with_rank(b, r) =~= with_rank(a, r)); }
    else {
        lemma_with_rank_app(a, b.drop_last(), r);
        assert((a + b).drop_last() =~= a + b.drop_last());
        assert((a + b).last() == b.last());
        if rank(b.last().name@) == r { assert(with_rank(a, r) + with_rank(b.drop_last(), r).push(b.last()) =~= (with_rank(a, r) + with_rank(b.drop_last(), r)).push(b.last())); }
    }
}
pub proof fn lemma_with_rank_twice(s: Seq<Tag>, q: u8, r: u8)
    ensures with_rank(with_rank(s, q), r) == (if q == r { with_rank(s, r) } else { Seq::<Tag>::empty() })
    decreases s.len()
{
    if s.len() > 0 {
        lemma_with_rank_twice(s.drop_last(), q, r);
        if rank(s.last().name@) == q {
            let w = with_rank(s.drop_last(), q);
            assert(w.push(s.last()).drop_last() =~= w);
        }
    }
}
// THEOREM (C18): the event carries exactly the tags given and the thread's own -- as many, and each of them, none other
pub proof fn thm_all_tags_and_no_other(s: Seq<Tag>)
    ensures c18(ordered(s).len() == s.len()), c18(forall|t: Tag| ordered(s).contains(t) <==> s.contains(t)),
{
    lemma_with_rank_len(s);
    assert forall|t: Tag| ordered(s).contains(t) <==> s.contains(t) by {
        lemma_with_rank_mem(s, 0, t); lemma_with_rank_mem(s, 1, t); lemma_with_rank_mem(s, 2, t); lemma_with_rank_mem(s, 3, t);
        lemma_with_rank_mem(s, 4, t); lemma_with_rank_mem(s, 5, t); lemma_with_rank_mem(s, 99, t);
        lemma_rank_values(t.name@);
        let (b0, b1, b2, b3, b4, b5, b9) = (with_rank(s, 0), with_rank(s, 1), with_rank(s, 2), with_rank(s, 3), with_rank(s, 4), with_rank(s, 5), with_rank(s, 99));
        lemma_contains_app(b0, b1, t); lemma_contains_app(b0 + b1, b2, t); lemma_contains_app(b0 + b1 + b2, b3, t);
        lemma_contains_app(b0 + b1 + b2 + b3, b4, t); lemma_contains_app(b0 + b1 + b2 + b3 + b4, b5, t); lemma_contains_app(b0 + b1 + b2 + b3 + b4 + b5, b9, t);
    }
}
pub proof fn lemma_contains_app(a: Seq<Tag>, b: Seq<Tag>, t: Tag)
    ensures (a + b).contains(t) <==> (a.contains(t) || b.contains(t))
{
    if (a + b).contains(t) {
        let i = choose|i: int| 0 <= i < (a + b).len() && (a + b)[i] == t;
        if i < a.len() { assert(a[i] == t); } else { assert(b[i - a.len()] == t); }
    }
    if a.contains(t) { let i = choose|i: int| 0 <= i < a.len() && a[i] == t; assert((a + b)[i] == t); }
    if b.contains(t) { let i = choose|i: int| 0 <= i < b.len() && b[i] == t; assert((a + b)[i + a.len()] == t); }
}
// THEOREM (C18): tags of one kind keep the order in which they were given -- in particular all the tags without a fixed
// place (rank 99) appear in the order given, after the fixed ones
pub proof fn thm_order_given_is_kept(s: Seq<Tag>, r: u8)
    requires is_rank(r)
    ensures c18(with_rank(ordered(s), r) == with_rank(s, r))
{
    let (b0, b1, b2, b3, b4, b5, b9) = (with_rank(s, 0), with_rank(s, 1), with_rank(s, 2), with_rank(s, 3), with_rank(s, 4), with_rank(s, 5), with_rank(s, 99));
    lemma_with_rank_app(b0 + b1 + b2 + b3 + b4 + b5, b9, r); lemma_with_rank_app(b0 + b1 + b2 + b3 + b4, b5, r);
    lemma_with_rank_app(b0 + b1 + b2 + b3, b4, r); lemma_with_rank_app(b0 + b1 + b2, b3, r); lemma_with_rank_app(b0 + b1, b2, r); lemma_with_rank_app(b0, b1, r);
    lemma_with_rank_twice(s, 0, r); lemma_with_rank_twice(s, 1, r); lemma_with_rank_twice(s, 2, r); lemma_with_rank_twice(s, 3, r);
    lemma_with_rank_twice(s, 4, r); lemma_with_rank_twice(s, 5, r); lemma_with_rank_twice(s, 99, r);
    assert(with_rank(ordered(s), r) =~= with_rank(s, r));
}
// ... and the whole event is: the message(s), the method, the path, the request body length, the request body, the response
// body length, then everything else -- which is the definition of `ordered`; for the front functions the message given comes
// first of all
pub proof fn lemma_with_rank_first(s: Seq<Tag>, r: u8)
    requires s.len() > 0, rank(s[0].name@) == r
    ensures with_rank(s, r).len() > 0, with_rank(s, r)[0] == s[0]
    decreases s.len()
{
    if s.len() > 1 {
        let p = s.drop_last();
        assert(p[0] == s[0]);
        lemma_with_rank_first(p, r);
        if rank(s.last().name@) == r { assert(with_rank(p, r).push(s.last())[0] == with_rank(p, r)[0]); }
    } else {
        assert(s.drop_last() =~= Seq::<Tag>::empty());
        assert(s.last() == s[0]);
        assert(with_rank(s.drop_last(), r) =~= Seq::<Tag>::empty());
        assert(with_rank(s, r) =~= seq![s[0]]);
    }
}
pub proof fn thm_message_first(m: Tag, rest: Seq<Tag>)
    requires m.name@ == "msg"@
    ensures c18(ordered(seq![m] + rest)[0] == m)
{
    let s = seq![m] + rest;
    assert(s[0] == m);
    lemma_with_rank_first(s, 0);
}
// vacuity canary: must fail
proof fn canary_logorder() { assert(false); }
