    use std::pin::Pin;
    use std::task::{Context, Poll, RawWaker, RawWakerVTable, Waker};

    // inner writer whose poll_write returns an arbitrary, contract-respecting answer
    struct AnyWriter { answer: u8, n: usize }
    impl AsyncWrite for AnyWriter {
        fn poll_write(self: Pin<&mut Self>, _cx: &mut Context<'_>, buf: &[u8]) -> Poll<Result<usize, std::io::Error>> {
            match self.answer {
                0 => Poll::Pending,
                1 => Poll::Ready(Ok(self.n.min(buf.len()))),
                _ => Poll::Ready(Err(std::io::Error::from(std::io::ErrorKind::BrokenPipe))),
            }
        }
        fn poll_flush(self: Pin<&mut Self>, _cx: &mut Context<'_>) -> Poll<std::io::Result<()>> { Poll::Ready(Ok(())) }
        fn poll_close(self: Pin<&mut Self>, _cx: &mut Context<'_>) -> Poll<std::io::Result<()>> { Poll::Ready(Ok(())) }
    }
    fn raw_waker() -> RawWaker {
        fn no_op(_: *const ()) {}
        fn clone(_: *const ()) -> RawWaker { raw_waker() }
        static VTABLE: RawWakerVTable = RawWakerVTable::new(clone, no_op, no_op, no_op);
        RawWaker::new(std::ptr::null(), &VTABLE)
    }

    // The counter grows by exactly n on Ready(Ok(n)) and is unchanged on Pending / Ready(Err):
    // this is the "counter equals bytes accepted by the socket" clause assumed at Verus level.
    // @harness class=complete
    #[kani::proof]
    fn c05_counter_poll_write() {
        let answer: u8 = kani::any();
        let n: usize = kani::any();
        let start: u64 = kani::any();
        kani::assume(start <= u64::MAX / 2 && n <= 1 << 40);
        let buf = [0u8; 8];
        let mut c = AsyncWriteCounter(AnyWriter { answer, n }, start);
        let waker = Waker::from(std::sync::Arc::new(NoopWake));
        let mut cx = Context::from_waker(&waker);
        let r = Pin::new(&mut c).poll_write(&mut cx, &buf);
        match r {
            Poll::Ready(Ok(k)) => { assert!(answer == 1 && k == n.min(8)); assert!(c.num_bytes_written() == start + k as u64); }
            Poll::Ready(Err(_)) => { assert!(answer > 1); assert!(c.num_bytes_written() == start); }
            Poll::Pending => { assert!(answer == 0); assert!(c.num_bytes_written() == start); }
        }
    }
    struct NoopWake;
    impl std::task::Wake for NoopWake { fn wake(self: std::sync::Arc<Self>) {} }
    impl Unpin for AnyWriter {}
