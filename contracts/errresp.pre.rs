use std::path::PathBuf;
use std::io::ErrorKind;
use std::sync::Mutex;
#[verifier::external_type_specification]
#[verifier::external_body]
pub struct ExErrorKind(std::io::ErrorKind);
#[verifier::external_type_specification]
#[verifier::external_body]
pub struct ExPathBuf(PathBuf);
#[verifier::external_type_specification]
#[verifier::external_body]
#[verifier::reject_recursive_types(T)]
pub struct ExMutex<T: ?Sized>(Mutex<T>);
#[verifier::external_body]
pub struct TempFile { _p: () }
impl vstd::std_specs::convert::FromSpecImpl<&'static str> for ResponseBody {
    open spec fn obeys_from_spec() -> bool { false }
    uninterp spec fn from_spec(s: &'static str) -> ResponseBody;
}
impl vstd::std_specs::convert::FromSpecImpl<String> for ResponseBody {
    open spec fn obeys_from_spec() -> bool { false }
    uninterp spec fn from_spec(s: String) -> ResponseBody;
}
impl HttpError {
    // builds the text of the 400/431/505 bodies with to_string(): outside the properties decided here
    #[verifier::external_body]
    pub fn description(&self) -> String { unimplemented!() }
}
pub assume_specification [std::string::String::into_bytes] (_0: std::string::String) -> std::vec::Vec<u8>;
