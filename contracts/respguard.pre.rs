use std::io::ErrorKind;
use std::path::PathBuf;
use std::sync::Mutex;
#[verifier::external_type_specification]
#[verifier::external_body]
pub struct ExErrorKind(std::io::ErrorKind);
#[verifier::external_type_specification]
#[verifier::external_body]
pub struct ExPathBuf(PathBuf);
#[verifier::external_type_specification]
#[verifier::external_body]
#[verifier::reject_recursive_types(T)]
pub struct ExMutex<T: ?Sized>(Mutex<T>);
#[verifier::external_body]
pub struct TempFile { _p: () }
