//! C11 bounded stand-in / witness search: the real `Event::write_to` / `push_to` / `Event::custom` on a grid of
//! event types and data strings, read back by an EventSource parser written from the WHATWG text
//! (html.spec.whatwg.org, 9.2.6 "Interpreting an event stream"), and the real server streaming events
//! (`Response::event_stream`) to a loopback client: order, exactly-once, the terminating chunk, overrun.
//!
//! Known finding (recorded in known_findings.json, pinned by tests/event.rs): the encoder does not end an event
//! with a blank line.  The oracle therefore reads each event's bytes with one LF appended (over the wire: each
//! event's bytes as write_to returns them); over the wire the body is compared field line by field line, whatever the chunking.
use permit::Permit;
use safina::executor::Executor;
use servlin::{socket_addr_127_0_0_1_any_port, Event, HttpServerBuilder, Request, Response};
use std::io::{Read, Write};
use std::net::{Shutdown, SocketAddr, TcpStream};
use std::sync::{Arc, Mutex};
use std::time::{Duration, Instant};

#[derive(Debug, PartialEq, Clone)]
struct Got { ty: String, data: String, id: Option<String>, retry: Option<String> }
/// EventSource parser, from the specification text (not from the encoder)
fn sse_parse(stream: &str) -> Vec<Got> {
    let s = stream.strip_prefix('\u{feff}').unwrap_or(stream);
    // lines end at CRLF, LF or CR
    let mut lines: Vec<String> = Vec::new();
    let mut cur = String::new();
    let cs: Vec<char> = s.chars().collect();
    let mut i = 0;
    let mut open = false;
    while i < cs.len() {
        open = true;
        match cs[i] {
            '\r' => { lines.push(std::mem::take(&mut cur)); if i + 1 < cs.len() && cs[i + 1] == '\n' { i += 1; } open = false; }
            '\n' => { lines.push(std::mem::take(&mut cur)); open = false; }
            c => cur.push(c),
        }
        i += 1;
    }
    let _ = open; // an unterminated last line is not processed (end of stream discards the pending event anyway)
    let (mut ty, mut data, mut id, mut retry, mut out) = (String::new(), String::new(), None, None, Vec::new());
    for line in lines {
        if line.is_empty() {
            if data.is_empty() { ty.clear(); continue; }
            if data.ends_with('\n') { data.pop(); }
            out.push(Got { ty: if ty.is_empty() { "message".into() } else { ty.clone() }, data: std::mem::take(&mut data), id: id.clone(), retry: retry.take() });
            ty.clear();
            continue;
        }
        if line.starts_with(':') { continue; }
        let (field, value) = match line.find(':') { Some(p) => { let v = &line[p + 1..]; (&line[..p], v.strip_prefix(' ').unwrap_or(v)) } None => (&line[..], "") };
        match field {
            "event" => ty = value.to_string(),
            "data" => { data.push_str(value); data.push('\n'); }
            "id" => if !value.contains('\0') { id = Some(value.to_string()) },
            "retry" => if !value.is_empty() && value.chars().all(|c| c.is_ascii_digit()) { retry = Some(value.to_string()) },
            _ => {}
        }
    }
    out
}
/// what the client must recover: the data with every line end written as LF (an event stream cannot carry CR)
/// the known finding: a block that is not yet ended by a blank line is given one
fn with_blank_line(t: &str) -> String { if t.ends_with("\n\n") { t.to_string() } else { format!("{t}\n") } }
fn normalise(d: &str) -> String { d.replace("\r\n", "\n").replace('\r', "\n") }
fn show(s: &str) -> String { s.chars().map(|c| match c { '\r' => "\\r".to_string(), '\n' => "\\n".to_string(), c => c.to_string() }).collect() }
fn hex(s: &str) -> String { s.bytes().map(|b| format!("{b:02x}")).collect() }
fn unhex(s: &str) -> String { String::from_utf8((0..s.len() / 2).map(|i| u8::from_str_radix(&s[2 * i..2 * i + 2], 16).unwrap()).collect()).unwrap() }

fn make(ty: Option<&str>, data: &str) -> Event { match ty { None => Event::Message(data.to_string()), Some(t) => Event::Custom(t.to_string(), data.to_string()) } }
/// one event through both encoders
fn check_event(ty: Option<&str>, data: &str) -> Option<String> {
    let desc = format!("event type={} data={}", ty.map(hex).unwrap_or_else(|| "-".into()), hex(data));
    let e = make(ty, data);
    let mut pushed = Vec::new();
    if std::panic::catch_unwind(std::panic::AssertUnwindSafe(|| e.push_to(&mut pushed))).is_err() { return Some(format!("{desc} expected=encoded actual=panic in push_to")); }
    let mut buf = vec![0u8; pushed.len() + 64];
    let n = match std::panic::catch_unwind(std::panic::AssertUnwindSafe(|| e.write_to(&mut buf))) {
        Err(_) => return Some(format!("{desc} expected=encoded actual=panic in write_to")),
        Ok(Err(err)) => return Some(format!("{desc} expected=encoded actual=Err({err}) with room to spare")),
        Ok(Ok(n)) => n,
    };
    if buf[..n] != pushed[..] { return Some(format!("{desc} expected=write_to and push_to agree actual={:?} vs {:?}", show(&String::from_utf8_lossy(&buf[..n])), show(&String::from_utf8_lossy(&pushed)))); }
    // an event never encodes to nothing: a 0-byte read is how the body writer recognises the end of the stream
    if n == 0 { return Some(format!("{desc} expected=at-least-one-byte actual=0 bytes (read as end of stream)")); }
    let text = match String::from_utf8(pushed.clone()) { Ok(t) => t, Err(_) => return Some(format!("{desc} expected=utf-8 actual=invalid")) };
    let got = sse_parse(&with_blank_line(&text));
    let want = vec![Got { ty: match ty { Some(t) if !t.is_empty() => t.to_string(), _ => "message".into() }, data: normalise(data), id: None, retry: None }];
    if got != want { return Some(format!("{desc} expected=client reads {want:?} actual={got:?} from {:?}", show(&text))); }
    // a buffer that is too small: an error, never a short or empty success
    for cap in [0usize, 1, n / 2, n.saturating_sub(1)] {
        if cap >= n { continue; }
        let mut small = vec![0u8; cap];
        match e.write_to(&mut small) { Err(_) => {} Ok(k) => return Some(format!("{desc} expected=Err for a {cap}-byte buffer actual=Ok({k})")) }
    }
    None
}
fn check_custom(ty: &str) -> Option<String> {
    let desc = format!("custom type={}", hex(ty));
    let want_ok = !ty.contains('\r') && !ty.contains('\n');
    match Event::custom(ty, "d".to_string()) {
        Ok(Event::Custom(t, d)) if want_ok && t == ty && d == "d" => None,
        Err(_) if !want_ok => None,
        other => Some(format!("{desc} expected={} actual={other:?}", if want_ok { "Ok(Custom(type, data))" } else { "Err" })),
    }
}

// ---- over the wire
struct Server { addr: SocketAddr, _permit: Permit, _exec: Arc<Executor>, report: Arc<Mutex<Vec<String>>> }
#[derive(Clone, Debug)]
enum Script { /// send these events with a pause of `gap_ms` between them, then drop the sender
               Seq(Vec<(Option<String>, String)>, u64),
               /// two senders: the clone is dropped after the first event, the stream must go on
               TwoSenders(Vec<String>),
               /// `n` events in a tight loop before the response is returned (queue of 50): must not block
               Overrun(usize) }
fn start(script: Script) -> Server {
    safina::timer::start_timer_thread();
    let permit = Permit::new();
    let exec = Executor::new(2, 4).unwrap();
    let report = Arc::new(Mutex::new(Vec::new()));
    let rep = report.clone();
    let handler = move |_req: Request| -> Response {
        let (mut sender, response) = Response::event_stream();
        match script.clone() {
            Script::Seq(evs, gap) => { std::thread::spawn(move || { for (t, d) in evs { std::thread::sleep(Duration::from_millis(gap)); sender.send(make(t.as_deref(), &d)); } std::thread::sleep(Duration::from_millis(gap)); drop(sender); }); }
            Script::TwoSenders(ds) => { let mut second = sender.clone(); std::thread::spawn(move || {
                for (i, d) in ds.into_iter().enumerate() { std::thread::sleep(Duration::from_millis(30)); if i == 0 { second.send(Event::Message(d)); second.disconnect(); } else { sender.send(Event::Message(d)); } }
                std::thread::sleep(Duration::from_millis(30)); drop(sender); }); }
            Script::Overrun(n) => {
                let t0 = Instant::now();
                for i in 0..n { sender.send(Event::Message(format!("m{i}"))); }
                rep.lock().unwrap().push(format!("connected={} ms={}", sender.is_connected(), t0.elapsed().as_millis()));
            }
        }
        response
    };
    let (addr, _stopped) = exec.block_on(HttpServerBuilder::new().listen_addr(socket_addr_127_0_0_1_any_port()).max_conns(10).permit(permit.new_sub()).spawn(handler)).unwrap();
    Server { addr, _permit: permit, _exec: exec, report }
}
/// -> (chunks, saw terminating chunk) of a chunked response body
fn fetch(s: &Server) -> Result<(Vec<Vec<u8>>, bool), String> {
    let mut c = TcpStream::connect_timeout(&s.addr, Duration::from_secs(2)).map_err(|e| e.to_string())?;
    c.set_read_timeout(Some(Duration::from_secs(10))).unwrap();
    c.write_all(b"GET / HTTP/1.1\r\n\r\n").unwrap();
    let _ = c.shutdown(Shutdown::Write);   // the server closes once the response is complete
    let mut out = Vec::new();
    let _ = c.read_to_end(&mut out);
    let _ = c.shutdown(Shutdown::Both);
    let p = out.windows(4).position(|w| w == b"\r\n\r\n").ok_or("no response head")?;
    let head = String::from_utf8_lossy(&out[..p]).to_ascii_lowercase();
    if !head.starts_with("http/1.1 200") || !head.contains("transfer-encoding: chunked") { return Err(format!("unexpected head {head:?}")); }
    let mut rest = &out[p + 4..];
    let mut chunks = Vec::new();
    loop {
        if rest.is_empty() { return Ok((chunks, false)); }
        let e = rest.windows(2).position(|w| w == b"\r\n").ok_or("bad chunk size line")?;
        let n = usize::from_str_radix(std::str::from_utf8(&rest[..e]).map_err(|_| "bad chunk size")?, 16).map_err(|_| "bad chunk size")?;
        rest = &rest[e + 2..];
        if n == 0 { return if rest == b"\r\n" { Ok((chunks, true)) } else { Err("bytes after the terminating chunk".into()) }; }
        if rest.len() < n + 2 || &rest[n..n + 2] != b"\r\n" { return Err("truncated chunk".into()); }
        chunks.push(rest[..n].to_vec());
        rest = &rest[n + 2..];
    }
}
/// the field lines of the whole body (chunk boundaries do not matter: several events may share a chunk), blank lines and
/// comments dropped, each read as an EventSource client reads a line: (name, value with one leading space removed)
fn fields_of(chunks: &[Vec<u8>]) -> Result<Vec<(String, String)>, String> {
    let all: Vec<u8> = chunks.iter().flatten().copied().collect();
    let t = String::from_utf8(all).map_err(|_| "body is not UTF-8".to_string())?;
    if !t.is_empty() && !t.ends_with('\n') && !t.ends_with('\r') { return Err(format!("body ends inside a line: {:?}", show(&t[t.len().saturating_sub(40)..]))); }
    let mut v = Vec::new();
    for line in t.replace("\r\n", "\n").split(|c| c == '\n' || c == '\r') {
        if line.is_empty() || line.starts_with(':') { continue; }
        let (n, val) = match line.find(':') { Some(p) => { let x = &line[p + 1..]; (&line[..p], x.strip_prefix(' ').unwrap_or(x)) } None => (line, "") };
        v.push((n.to_string(), val.to_string()));
    }
    Ok(v)
}
/// the fields the events must arrive as: the type, if any, then one data field per line of the data
fn want_of(evs: &[(Option<String>, String)]) -> Vec<(String, String)> {
    let mut v = Vec::new();
    for (t, d) in evs {
        if let Some(t) = t { v.push(("event".to_string(), t.clone())); }
        for l in normalise(d).split('\n') { v.push(("data".to_string(), l.to_string())); }
    }
    v
}
fn check_stream(name: &str) -> Option<String> {
    let desc = format!("stream scenario={name}");
    let m = |d: &str| (None, d.to_string());
    let t = |t: &str, d: &str| (Some(t.to_string()), d.to_string());
    match name {
        "order" | "content" | "burst" | "bigburst" | "hugeburst" | "sizes" | "oversize" => {
            let (evs, gap): (Vec<(Option<String>, String)>, u64) = match name {
                "order" => ((0..30).map(|i| if i % 3 == 0 { t("tick", &format!("n{i}")) } else { m(&format!("n{i}")) }).collect(), 3),
                // content that must not end the stream or disturb its neighbours: empty data, bare line ends, field look-alikes
                "content" => (vec![m("first"), m(""), m("\n"), m("\r"), t("x", ""), m("a\rid: 7"), m("a\r\nevent: y\n"), m(":comment"), m("data: nested"), m("retry: 5"), m("last")], 10),
                // one byte more than the writer reads at once
                // (such an event used to abort the stream: repaired defect f72b510 -- it is delivered in pieces)
                "oversize" => (vec![m("before"), m(&"s".repeat(65529 - 7)), m("after"), m(&"t".repeat(70_000)), t("big", &format!("{}\n{}", "u".repeat(65_528), "v".repeat(140_000))),
                                    m(&format!("{}\u{e9}{}", "w".repeat(65_520), "x".repeat(9))), m(&"\u{1F600}".repeat(40_000)), m("last")], 4),
                "burst" => ((0..40).map(|i| m(&format!("b{i}"))).collect(), 0),
                // one event per chunk (the pause lets the writer drain), the block `data: ..\n` exactly as long as each value at
                // which the chunk-size line gains a hex digit, one below and one above, and the largest the writer reads at once:
                // a size line that reads as 0 would end the stream because of an event's length
                "sizes" => ([15usize, 16, 17, 255, 256, 257, 4095, 4096, 4097, 65527, 65528].iter().flat_map(|n| vec![m(&"s".repeat(n - 7)), m("after")]).collect(), 4),
                // bursts that do not fit one read window of the body writer (65528 bytes)
                "bigburst" => ((0..40).map(|i| m(&format!("{i}:{}", "x".repeat(5000)))).collect(), 0),
                _ => ((0..3).map(|i| t("big", &format!("{i}:{}", "y".repeat(30000)))).collect(), 0),
            };
            let s = start(Script::Seq(evs.clone(), gap));
            let (chunks, term) = match fetch(&s) { Ok(x) => x, Err(e) => return Some(format!("{desc} expected=chunked event stream actual={e}")) };
            let got = match fields_of(&chunks) { Ok(g) => g, Err(e) => return Some(format!("{desc} expected=whole field lines actual={e}")) };
            let want = want_of(&evs);
            if got != want { let k = got.iter().zip(want.iter()).position(|(a, b)| a != b).unwrap_or(got.len().min(want.len()));
                let brief = |x: Option<&(String, String)>| x.map(|(a, b)| format!("{a}: {}", show(&b.chars().take(24).collect::<String>())));
                return Some(format!("{desc} expected={} fields (every event once, in sending order) actual={} fields, first difference at {k}: {:?} vs {:?}", want.len(), got.len(), brief(got.get(k)), brief(want.get(k)))); }
            if !term { return Some(format!("{desc} expected=terminating chunk after the sender was dropped actual=none")); }
            None
        }
        "two-senders" => {
            let ds: Vec<String> = (0..6).map(|i| format!("s{i}")).collect();
            let s = start(Script::TwoSenders(ds.clone()));
            let (chunks, term) = match fetch(&s) { Ok(x) => x, Err(e) => return Some(format!("{desc} expected=chunked event stream actual={e}")) };
            let got = match fields_of(&chunks) { Ok(g) => g, Err(e) => return Some(format!("{desc} expected=whole field lines actual={e}")) };
            let want = want_of(&ds.iter().map(|d| (None, d.clone())).collect::<Vec<_>>());
            if got != want { return Some(format!("{desc} expected=all {} events (the stream ends only when the last sender is gone) actual={} data fields", want.len(), got.len())); }
            if !term { return Some(format!("{desc} expected=terminating chunk actual=none")); }
            None
        }
        "overrun" => {
            let s = start(Script::Overrun(500));
            let (chunks, term) = match fetch(&s) { Ok(x) => x, Err(e) => return Some(format!("{desc} expected=chunked event stream actual={e}")) };
            let rep = s.report.lock().unwrap().join(";");
            if !rep.contains("connected=false") { return Some(format!("{desc} expected=sender disconnected after overrunning the queue actual={rep}")); }
            let got = match fields_of(&chunks) { Ok(g) => g, Err(e) => return Some(format!("{desc} expected=whole field lines actual={e}")) };
            // what was queued before the overrun arrives, in order, once
            for (i, g) in got.iter().enumerate() { if g.0 != "data" || g.1 != format!("m{i}") { return Some(format!("{desc} expected=event {i} is m{i} actual={:?}", g)); } }
            if got.is_empty() || got.len() >= 500 { return Some(format!("{desc} expected=a non-empty prefix of the 500 events actual={}", got.len())); }
            if !term { return Some(format!("{desc} expected=terminating chunk once the disconnected sender is gone actual=none")); }
            None
        }
        _ => Some(format!("{desc} expected=known scenario actual=unknown")),
    }
}
/// API level, single thread: every sequence of sender operations up to `depth` over two sender handles (the second
/// one is a clone), then every handle dropped and the response written.  Reference model written from the property: an
/// event handed to a connected sender is delivered exactly once, in sending order (across the handles); a disconnected or
/// never-created handle delivers nothing; the stream ends after the last handle is gone.
#[derive(Clone, Copy, Debug, PartialEq)]
enum SOp { Send1, Send2, Clone1, Disc1, Disc2, Drop1, Drop2 }
fn check_api(ops: &[SOp]) -> Option<String> {
    let desc = format!("api ops={}", ops.iter().map(|o| format!("{o:?}")).collect::<Vec<_>>().join(","));
    let (s1, resp) = Response::event_stream();
    let mut h1 = Some(s1); let mut h2: Option<servlin::EventSender> = None;
    let (mut m1, mut m2) = (true, false);   // model: handle exists and is connected
    let mut want: Vec<(Option<String>, String)> = Vec::new();
    let mut k = 0;
    for op in ops {
        match op {
            SOp::Send1 | SOp::Send2 => {
                let first = *op == SOp::Send1;
                let d = format!("e{k}"); k += 1;
                let (h, m) = if first { (&mut h1, m1) } else { (&mut h2, m2) };
                if let Some(s) = h.as_mut() {
                    if s.is_connected() != m { return Some(format!("{desc} expected=is_connected={m} before send actual={}", s.is_connected())); }
                    s.send(Event::Message(d.clone()));
                    if m { want.push((None, d)); }
                    if s.is_connected() != m { return Some(format!("{desc} expected=is_connected={m} after send actual={}", s.is_connected())); }
                }
            }
            SOp::Clone1 => { if let Some(s) = h1.as_ref() { h2 = Some(s.clone()); m2 = m1; } }
            SOp::Disc1 => { if let Some(s) = h1.as_mut() { s.disconnect(); m1 = false; } }
            SOp::Disc2 => { if let Some(s) = h2.as_mut() { s.disconnect(); m2 = false; } }
            SOp::Drop1 => { h1 = None; m1 = false; }
            SOp::Drop2 => { h2 = None; m2 = false; }
        }
    }
    drop(h1); drop(h2);
    let mut w = verif_replay::RecWriter::new();
    let r = std::panic::catch_unwind(std::panic::AssertUnwindSafe(|| verif_replay::block_on(servlin::internal::write_http_response(&mut w, &resp, false))));
    match r { Ok(Ok(())) => {} other => return Some(format!("{desc} expected=response written actual={:?}", other.map(|x| x.is_ok()))) }
    let p = match w.out.windows(4).position(|x| x == b"\r\n\r\n") { Some(p) => p, None => return Some(format!("{desc} expected=head actual=none")) };
    let mut rest = &w.out[p + 4..];
    let mut chunks = Vec::new();
    loop {
        let e = match rest.windows(2).position(|x| x == b"\r\n") { Some(e) => e, None => return Some(format!("{desc} expected=terminating chunk actual=body ends early")) };
        let n = match usize::from_str_radix(std::str::from_utf8(&rest[..e]).unwrap_or("x"), 16) { Ok(n) => n, Err(_) => return Some(format!("{desc} expected=chunk size actual=garbage")) };
        rest = &rest[e + 2..];
        if n == 0 { if rest != b"\r\n" { return Some(format!("{desc} expected=nothing after the terminating chunk actual={} bytes", rest.len())); } break; }
        if rest.len() < n + 2 { return Some(format!("{desc} expected=whole chunk actual=truncated")); }
        chunks.push(rest[..n].to_vec()); rest = &rest[n + 2..];
    }
    let got = match fields_of(&chunks) { Ok(g) => g, Err(e) => return Some(format!("{desc} expected=whole field lines actual={e}")) };
    let wantf = want_of(&want);
    if got != wantf { return Some(format!("{desc} expected={} events once each in sending order actual={:?}", want.len(), got.iter().map(|x| x.1.clone()).collect::<Vec<_>>())); }
    None
}
fn main() {
    std::panic::set_hook(Box::new(|_| {}));
    let args: Vec<String> = std::env::args().collect();
    if args.len() >= 3 && args[1] == "replay" {
        let w = args[2..].join(" ");
        let field = |k: &str| w.split(k).nth(1).map(|x| x.split(' ').next().unwrap_or("").to_string());
        if w.starts_with("api ") {
            let ops: Vec<SOp> = field("ops=").unwrap_or_default().split(',').filter(|x| !x.is_empty()).map(|x| match x { "Send1" => SOp::Send1, "Send2" => SOp::Send2, "Clone1" => SOp::Clone1, "Disc1" => SOp::Disc1, "Disc2" => SOp::Disc2, "Drop1" => SOp::Drop1, _ => SOp::Drop2 }).collect();
            match check_api(&ops) { Some(m) => { println!("WITNESS {m}"); std::process::exit(1) } None => { println!("OK witness no longer fails"); std::process::exit(0) } }
        }
        let r = if w.starts_with("event ") { let t = field("type=").unwrap(); let ty = if t == "-" { None } else { Some(unhex(&t)) }; check_event(ty.as_deref(), &unhex(&field("data=").unwrap())) }
            else if w.starts_with("custom ") { check_custom(&unhex(&field("type=").unwrap())) }
            else { check_stream(&field("scenario=").unwrap()) };
        match r { Some(m) => { println!("WITNESS {m}"); std::process::exit(1) } None => { println!("OK witness no longer fails"); std::process::exit(0) } }
    }
    let thorough = args.iter().any(|a| a == "--thorough");
    let mut n = 0u64; let mut found: Vec<String> = Vec::new();
    // every data string over an alphabet of line ends, field punctuation and a non-ASCII char, up to length 5 (6 thorough)
    let alpha = ['a', ':', ' ', '\r', '\n', '\u{e9}'];
    let maxlen = if thorough { 6 } else { 5 };
    let types: [Option<&str>; 6] = [None, Some("t"), Some(" t"), Some("a:b"), Some(""), Some("\u{e9}v")];
    for len in 0..=maxlen {
        for code in 0..alpha.len().pow(len as u32) {
            let mut c = code; let d: String = (0..len).map(|_| { let ch = alpha[c % alpha.len()]; c /= alpha.len(); ch }).collect();
            let tys: &[Option<&str>] = if len <= 3 { &types } else { &types[..2] };
            for ty in tys { n += 1; if let Some(m) = check_event(*ty, &d) { if found.len() < 6 { found.push(m) } } }
        }
    }
    for d in ["data: x", "event: boom", "id: 1", "retry: 10", ":c", "x\r\n\r\ny", "\u{feff}bom", "a\u{2028}b", "line1\nline2\nline3", &"z".repeat(70000)] {
        for ty in [None, Some("ty")] { n += 1; if let Some(m) = check_event(ty, d) { if found.len() < 6 { found.push(m) } } }
    }
    for ty in ["", "t", "a b", "a:b", "a\rb", "a\nb", "\r", "\n", "a\r\n", "\u{e9}", "x\u{2028}"] { n += 1; if let Some(m) = check_custom(ty) { if found.len() < 6 { found.push(m) } } }
    let alpha_ops = [SOp::Send1, SOp::Send2, SOp::Clone1, SOp::Disc1, SOp::Disc2, SOp::Drop1, SOp::Drop2];
    let depth = if thorough { 6 } else { 5 };
    for len in 0..=depth { for code in 0..alpha_ops.len().pow(len as u32) {
        let mut c = code; let ops: Vec<SOp> = (0..len).map(|_| { let o = alpha_ops[c % alpha_ops.len()]; c /= alpha_ops.len(); o }).collect();
        n += 1; if let Some(m) = check_api(&ops) { if found.len() < 6 { found.push(m) } }
    }}
    // a sender that overruns the queue of 50 without anybody reading is disconnected from then on
    { n += 1; let (mut s, _resp) = Response::event_stream(); for i in 0..60 { s.send(Event::Message(format!("o{i}"))); }
      if s.is_connected() { if found.len() < 6 { found.push("api overrun expected=disconnected after 60 unread events actual=connected".to_string()) } } }
    for sc in ["order", "content", "sizes", "oversize", "burst", "bigburst", "hugeburst", "two-senders", "overrun"] { n += 1; if let Some(m) = check_stream(sc) { if found.len() < 6 { found.push(m) } } }
    println!("EVALUATED {n}");
    for f in &found { println!("WITNESS {f}"); }
    std::process::exit(if found.is_empty() { 0 } else { 1 });
}
