// fixed width: through year 9999 the text has exactly 20 characters with the separators at their places
pub proof fn thm_iso_fixed_width(dt: DateTime)
    requires valid(dt), dt.year <= 9999
    ensures c16(iso_spec(dt).len() == 20), c16(iso_spec(dt)[4] == '-' && iso_spec(dt)[7] == '-' && iso_spec(dt)[10] == 'T' && iso_spec(dt)[13] == ':' && iso_spec(dt)[16] == ':' && iso_spec(dt)[19] == 'Z')
{
    axiom_pad_width(dt.year as int, 4); axiom_pad_width(dt.month as int, 2); axiom_pad_width(dt.day as int, 2);
    axiom_pad_width(dt.hour as int, 2); axiom_pad_width(dt.min as int, 2); axiom_pad_width(dt.sec as int, 2);
}
// vacuity canary -- must FAIL
fn canary_timefmt(t: &SystemTime)
{
    let s = t.iso8601_utc();
    let d = t.to_datetime();
    proof { axiom_pad_width(7, 2); }
    assert(false);
}
