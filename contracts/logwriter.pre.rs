// ---- stand-ins for the log writer step (unit logwriter); time / PrefixFile model comes from logset.pre.rs
use vstd::std_specs::cmp::PartialOrdSpec as PartialOrdSpecD;

// std::fs::File as an append-only byte sink (assumed): what write_all accepted is the file's content
#[verifier::external_body]
pub struct File { _p: core::marker::PhantomData<u8> }
impl File {
    pub uninterp spec fn content(&self) -> Seq<u8>;
    #[verifier::external_body]
    pub fn write_all(&mut self, buf: &[u8]) -> (r: Result<(), std::io::Error>)
        ensures
            r is Ok ==> final(self).content() == old(self).content() + buf@,
            r is Err ==> old(self).content().is_prefix_of(final(self).content()),
    { unimplemented!() }
}

// the event handed to the writer (assumed): write_jsonl appends exactly the event's line, at least one byte
// (the line ends in '\n'); C17 is about what the line looks like
#[verifier::external_body]
pub struct LogEvent { _p: core::marker::PhantomData<u8> }
impl LogEvent {
    pub uninterp spec fn line(&self) -> Seq<u8>;
    #[verifier::external_body]
    pub proof fn line_nonempty(&self) ensures self.line().len() >= 1 {}
    #[verifier::external_body]
    pub fn write_jsonl(&self, f: &mut Vec<u8>) -> (r: Result<(), std::io::Error>)
        ensures r is Ok ==> final(f)@ == old(f)@ + self.line(),
    { unimplemented!() }
}

// rule R11: `.unwrap()` of an I/O result -- a panic ends the writer thread, so what follows exists only for Ok
pub trait IoUnwrap<T> { fn io_unwrap(self) -> T; }
impl<T, E> IoUnwrap<T> for Result<T, E> {
    #[verifier::external_body]
    fn io_unwrap(self) -> (r: T)
        ensures self is Ok, r == self->Ok_0
    { unimplemented!() }
}

// the clock (assumed): the one reading taken in a writer step is `step_now()`, an arbitrary instant from which the
// configured keep-age can be subtracted (SystemTime - Duration panics otherwise).  The region is checked syntactically
// to read the clock exactly once (assert_count), so a single name for the reading is sound.
pub uninterp spec fn step_now() -> SystemTime;
pub assume_specification[ SystemTime::now ]() -> (r: SystemTime)
    ensures r == step_now();

// LogFile::create (assumed; its body -- OpenOptions::create_new under a generated name -- is not under contract):
// a new, empty file whose recorded length is 0
impl LogFile {
    #[verifier::external_body]
    pub fn create(path_prefix: &PathBuf) -> (r: Result<LogFile, String>)
        ensures r is Ok ==> r->Ok_0.len == 0 && r->Ok_0.file.content() == Seq::<u8>::empty()
    { unimplemented!() }
}


#[verifier::external_body]
pub proof fn axiom_duration()
    ensures
        <Duration as PartialOrdSpecD<Duration>>::obeys_partial_cmp_spec(),
        forall|a: Duration, b: Duration| #[trigger] <Duration as PartialOrdSpecD<Duration>>::partial_cmp_spec(&a, &b) == Some(cmp_int(dur_of(a), dur_of(b))),
        forall|a: Duration| dur_of(a) >= 0,
{}
pub assume_specification[ Duration::from_secs ](secs: u64) -> (r: Duration)
    ensures dur_of(r) == secs * 1_000_000_000;
pub assume_specification[ SystemTime::duration_since ](this: &SystemTime, earlier: SystemTime) -> (r: Result<Duration, std::time::SystemTimeError>)
    ensures
        time_of(*this) >= time_of(earlier) ==> r is Ok && dur_of(r->Ok_0) == time_of(*this) - time_of(earlier),
        time_of(*this) < time_of(earlier) ==> r is Err;
pub assume_specification<T, E> [ Result::<T, E>::unwrap_or ](this: Result<T, E>, default: T) -> (r: T)
    where E: core::marker::Destruct, T: core::marker::Destruct,
    ensures r == (match this { Ok(v) => v, Err(_) => default });
#[verifier::external_type_specification]
#[verifier::external_body]
pub struct ExSystemTimeError(std::time::SystemTimeError);
pub assume_specification[ <PathBuf as Clone>::clone ](this: &PathBuf) -> (r: PathBuf)
    ensures r == *this;

// ---- representation invariant of the file being written: the recorded length is the length of what was written
pub open spec fn lf_wf(f: LogFile) -> bool { f.len == f.file.content().len() }
pub open spec fn age_of(f: LogFile, now: SystemTime) -> int {
    if time_of(now) >= time_of(f.created) { time_of(now) - time_of(f.created) } else { 0 }
}

pub broadcast proof fn lemma_suffix_trans(a: Seq<PrefixFile>, b: Seq<PrefixFile>, c: Seq<PrefixFile>)
    requires #[trigger] a.is_suffix_of(b), #[trigger] b.is_suffix_of(c)
    ensures a.is_suffix_of(c)
{
    assert(a =~= c.subrange(c.len() - a.len(), c.len() as int));
}
pub proof fn lemma_suffix_refl(a: Seq<PrefixFile>)
    ensures a.is_suffix_of(a)
{
    assert(a =~= a.subrange(0, a.len() as int));
}

pub open spec fn not_after(s: Seq<PrefixFile>, t: SystemTime) -> bool {
    forall|i: int| 0 <= i < s.len() ==> time_of(#[trigger] s[i].mtime) <= time_of(t)
}
pub proof fn lemma_not_after_suffix(a: Seq<PrefixFile>, b: Seq<PrefixFile>, t: SystemTime)
    requires a.is_suffix_of(b), not_after(b, t)
    ensures not_after(a, t)
{
    assert forall|i: int| 0 <= i < a.len() implies time_of(#[trigger] a[i].mtime) <= time_of(t) by {
        assert(a[i] == b[b.len() - a.len() + i]);
    }
}

// ---- start-up (region_startup): the crate's Error and the conversions `?` uses, the starting event (assumed / opaque)
#[verifier::external_body]
pub struct Error { _p: () }
impl vstd::std_specs::convert::FromSpecImpl<String> for Error {
    open spec fn obeys_from_spec() -> bool { false }
    uninterp spec fn from_spec(s: String) -> Error;
}
impl From<String> for Error {
    #[verifier::external_body]
    fn from(s: String) -> Error { unimplemented!() }
}
impl vstd::std_specs::convert::FromSpecImpl<std::io::Error> for Error {
    open spec fn obeys_from_spec() -> bool { false }
    uninterp spec fn from_spec(e: std::io::Error) -> Error;
}
impl From<std::io::Error> for Error {
    #[verifier::external_body]
    fn from(e: std::io::Error) -> Error { unimplemented!() }
}
pub enum Level { Error, Info, Debug }
#[verifier::external_body]
pub struct Tag { _p: () }
#[verifier::external_body]
pub fn tag(name: &'static str, value: &'static str) -> Tag { unimplemented!() }
// the line of the starting event (`Starting log writer`)
pub uninterp spec fn start_line() -> Seq<u8>;
impl LogEvent {
    #[verifier::external_body]
    pub fn new(level: Level, t: Tag) -> (r: LogEvent)
        ensures r.line() == start_line()
    { unimplemented!() }
}
