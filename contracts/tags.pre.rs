// ---- attribution tags: cNN(P) == P.  A contract clause or internal obligation wrapped in cNN(..) is a deciding
// obligation of property CNN (bin/check attributes a failed obligation to the properties whose tags it carries;
// untagged obligations belong to the unit's owner property, lib/props.py UNIT_OWNER)
pub open spec fn c01(b: bool) -> bool { b }
pub open spec fn c02(b: bool) -> bool { b }
pub open spec fn c03(b: bool) -> bool { b }
pub open spec fn c04(b: bool) -> bool { b }
pub open spec fn c05(b: bool) -> bool { b }
pub open spec fn c06(b: bool) -> bool { b }
pub open spec fn c07(b: bool) -> bool { b }
pub open spec fn c08(b: bool) -> bool { b }
pub open spec fn c09(b: bool) -> bool { b }
pub open spec fn c10(b: bool) -> bool { b }
pub open spec fn c11(b: bool) -> bool { b }
pub open spec fn c12(b: bool) -> bool { b }
pub open spec fn c13(b: bool) -> bool { b }
pub open spec fn c14(b: bool) -> bool { b }
pub open spec fn c15(b: bool) -> bool { b }
pub open spec fn c16(b: bool) -> bool { b }
pub open spec fn c17(b: bool) -> bool { b }
pub open spec fn c18(b: bool) -> bool { b }
pub open spec fn c19(b: bool) -> bool { b }
pub open spec fn c20(b: bool) -> bool { b }
