//! C17 witness search / replay (bounded): the real LogEvent::write_jsonl over a grid of tag values against an
//! independent strict RFC 8259 parser.  Oracle: exactly one line, ending in '\n', no other '\n'; the line is one JSON
//! object whose members are time (string), level (string), one member per tag in order, time_ns (number), and each tag
//! member's parsed value equals the tag's value (strings char for char, integers digit for digit, bool, null; finite
//! floats as the same number).
use servlin::log::internal::{LogEvent, TagValue};
use servlin::log::{tag, Level};

#[derive(Debug, Clone, PartialEq)]
enum J { Null, Bool(bool), Num(String), Str(String), Arr(Vec<J>), Obj(Vec<(String, J)>) }
struct P<'a> { s: &'a [u8], i: usize }
impl<'a> P<'a> {
    fn ws(&mut self) { while self.i < self.s.len() && matches!(self.s[self.i], b' ' | b'\t' | b'\n' | b'\r') { self.i += 1 } }
    fn eat(&mut self, c: u8) -> Result<(), String> { if self.s.get(self.i) == Some(&c) { self.i += 1; Ok(()) } else { Err(format!("expected {:?} at {}", c as char, self.i)) } }
    fn value(&mut self) -> Result<J, String> {
        self.ws();
        match self.s.get(self.i).copied() {
            Some(b'{') => {
                self.i += 1; let mut m = Vec::new(); self.ws();
                if self.s.get(self.i) == Some(&b'}') { self.i += 1; return Ok(J::Obj(m)); }
                loop {
                    self.ws(); let k = self.string()?; self.ws(); self.eat(b':')?; let v = self.value()?; m.push((k, v)); self.ws();
                    match self.s.get(self.i) { Some(b',') => self.i += 1, Some(b'}') => { self.i += 1; return Ok(J::Obj(m)) } _ => return Err(format!("expected , or }} at {}", self.i)) }
                }
            }
            Some(b'[') => {
                self.i += 1; let mut a = Vec::new(); self.ws();
                if self.s.get(self.i) == Some(&b']') { self.i += 1; return Ok(J::Arr(a)); }
                loop { a.push(self.value()?); self.ws(); match self.s.get(self.i) { Some(b',') => self.i += 1, Some(b']') => { self.i += 1; return Ok(J::Arr(a)) } _ => return Err(format!("expected , or ] at {}", self.i)) } }
            }
            Some(b'"') => Ok(J::Str(self.string()?)),
            Some(b't') => self.lit("true", J::Bool(true)), Some(b'f') => self.lit("false", J::Bool(false)), Some(b'n') => self.lit("null", J::Null),
            Some(c) if c == b'-' || c.is_ascii_digit() => {
                let st = self.i;
                if self.s[self.i] == b'-' { self.i += 1 }
                match self.s.get(self.i) { Some(b'0') => self.i += 1, Some(c) if c.is_ascii_digit() => while self.i < self.s.len() && self.s[self.i].is_ascii_digit() { self.i += 1 }, _ => return Err(format!("bad number at {}", self.i)) }
                if self.s.get(self.i) == Some(&b'.') { self.i += 1; let d = self.i; while self.i < self.s.len() && self.s[self.i].is_ascii_digit() { self.i += 1 } if d == self.i { return Err("bad fraction".into()) } }
                if matches!(self.s.get(self.i), Some(b'e') | Some(b'E')) { self.i += 1; if matches!(self.s.get(self.i), Some(b'+') | Some(b'-')) { self.i += 1 } let d = self.i; while self.i < self.s.len() && self.s[self.i].is_ascii_digit() { self.i += 1 } if d == self.i { return Err("bad exponent".into()) } }
                Ok(J::Num(String::from_utf8(self.s[st..self.i].to_vec()).unwrap()))
            }
            other => Err(format!("unexpected {:?} at {}", other.map(|c| c as char), self.i)),
        }
    }
    fn lit(&mut self, w: &str, v: J) -> Result<J, String> { if self.s[self.i..].starts_with(w.as_bytes()) { self.i += w.len(); Ok(v) } else { Err(format!("bad literal at {}", self.i)) } }
    fn hex4(&mut self) -> Result<u32, String> {
        let h = self.s.get(self.i..self.i + 4).ok_or("short \\u")?; self.i += 4;
        u32::from_str_radix(std::str::from_utf8(h).map_err(|_| "bad \\u")?, 16).map_err(|_| "bad \\u".to_string()).and_then(|v| if h.iter().all(|b| b.is_ascii_hexdigit()) { Ok(v) } else { Err("bad \\u".into()) })
    }
    fn string(&mut self) -> Result<String, String> {
        self.eat(b'"')?; let mut out: Vec<u8> = Vec::new();
        loop {
            let c = *self.s.get(self.i).ok_or("unterminated string")?; self.i += 1;
            match c {
                b'"' => return String::from_utf8(out).map_err(|_| "invalid UTF-8 in string".to_string()),
                b'\\' => {
                    let e = *self.s.get(self.i).ok_or("unterminated escape")?; self.i += 1;
                    match e {
                        b'"' => out.push(b'"'), b'\\' => out.push(b'\\'), b'/' => out.push(b'/'), b'b' => out.push(8), b'f' => out.push(12), b'n' => out.push(b'\n'), b'r' => out.push(b'\r'), b't' => out.push(b'\t'),
                        b'u' => {
                            let mut cp = self.hex4()?;
                            if (0xD800..0xDC00).contains(&cp) {
                                if self.s.get(self.i) == Some(&b'\\') && self.s.get(self.i + 1) == Some(&b'u') { self.i += 2; let lo = self.hex4()?; if !(0xDC00..0xE000).contains(&lo) { return Err("bad low surrogate".into()) } cp = 0x10000 + ((cp - 0xD800) << 10) + (lo - 0xDC00); } else { return Err("lone high surrogate".into()) }
                            } else if (0xDC00..0xE000).contains(&cp) { return Err("lone low surrogate".into()) }
                            let ch = char::from_u32(cp).ok_or("bad code point")?; let mut b = [0u8; 4]; out.extend_from_slice(ch.encode_utf8(&mut b).as_bytes());
                        }
                        _ => return Err(format!("invalid escape \\{} at {}", e as char, self.i - 1)),
                    }
                }
                c if c < 0x20 => return Err(format!("raw control character 0x{c:02x} in string at {}", self.i - 1)),
                c => out.push(c),
            }
        }
    }
}
fn parse(line: &[u8]) -> Result<J, String> { let mut p = P { s: line, i: 0 }; let v = p.value()?; p.ws(); if p.i != line.len() { return Err(format!("trailing bytes at {}", p.i)) } Ok(v) }

/// a tag value described by a short text so that a witness can be replayed: s:<hex utf-8> | i:<i128> | u:<u128> | w:<width>:<int> | f:<f64 bits hex> | g:<f32 bits hex> | b:<0|1> | n
fn mk(desc: &str) -> (TagValue, J) {
    let (k, r) = desc.split_at(2);
    match k {
        "s:" => { let b: Vec<u8> = (0..r.len() / 2).map(|i| u8::from_str_radix(&r[2 * i..2 * i + 2], 16).unwrap()).collect(); let s = String::from_utf8(b).unwrap(); (TagValue::from(s.clone()), J::Str(s)) }
        "i:" => { let v: i128 = r.parse().unwrap(); (TagValue::from(v), J::Num(v.to_string())) }
        "u:" => { let v: u128 = r.parse().unwrap(); (TagValue::from(v), J::Num(v.to_string())) }
        "w:" => { let (w, v) = r.split_once(':').unwrap(); let n: i128 = v.parse().unwrap(); (match w { "i8" => TagValue::from(n as i8), "i16" => TagValue::from(n as i16), "i32" => TagValue::from(n as i32), "i64" => TagValue::from(n as i64), "u8" => TagValue::from(n as u8), "u16" => TagValue::from(n as u16), "u32" => TagValue::from(n as u32), "u64" => TagValue::from(n as u64), _ => TagValue::from(n as usize) }, J::Num(n.to_string())) }
        "f:" => { let v = f64::from_bits(u64::from_str_radix(r, 16).unwrap()); (TagValue::from(v), if v.is_finite() { J::Num(format!("{v}")) } else { J::Str(format!("{v}")) }) }
        "g:" => { let v = f32::from_bits(u32::from_str_radix(r, 16).unwrap()); (TagValue::from(v), if v.is_finite() { J::Num(format!("{v}")) } else { J::Str(format!("{v}")) }) }
        "b:" => (TagValue::from(r == "1"), J::Bool(r == "1")),
        _ => (TagValue::from(None::<bool>), J::Null),
    }
}
fn same(got: &J, want: &J) -> bool {
    match (got, want) {
        (J::Num(a), J::Num(b)) => a == b || (a.parse::<f64>().ok().zip(b.parse::<f64>().ok()).map_or(false, |(x, y)| x == y) && !b.chars().all(|c| c.is_ascii_digit() || c == '-')),
        // a non-finite float has no JSON number: any JSON string or null that names it is accepted
        (J::Str(_), J::Str(b)) if b == "NaN" || b == "inf" || b == "-inf" => true,
        (J::Null, J::Str(b)) if b == "NaN" || b == "inf" || b == "-inf" => true,
        _ => got == want,
    }
}
fn run(descs: &[String]) -> Option<String> {
    let d = format!("jsonl tags={}", descs.join(","));
    let names = ["msg", "a", "b_c", "path", "x"];
    let mut tags = Vec::new();
    let mut want = Vec::new();
    for (i, ds) in descs.iter().enumerate() {
        // `k:<hex of the name>:<value>` gives the tag a name of its own (tag names are &'static str: leaked)
        let (name, ds): (&'static str, &str) = match ds.strip_prefix("k:") {
            Some(r) => { let (h, v) = r.split_once(':').unwrap(); (Box::leak(String::from_utf8(unhex(h)).unwrap().into_boxed_str()), v) }
            None => (names[i % names.len()], ds.as_str()),
        };
        let (v, j) = mk(ds); tags.push(tag(name, v)); want.push((name.to_string(), j));
    }
    let ev = LogEvent::new(Level::Info, tags);
    let mut out = Vec::new();
    if let Err(e) = ev.write_jsonl(&mut out) { return Some(format!("{d} expected=Ok actual=Err({e})")); }
    if out.last() != Some(&b'\n') || out[..out.len() - 1].contains(&b'\n') { return Some(format!("{d} expected=exactly one newline-terminated line actual={:?}", String::from_utf8_lossy(&out))); }
    let line = &out[..out.len() - 1];
    let shown = String::from_utf8_lossy(line).to_string();
    let j = match parse(line) { Ok(j) => j, Err(e) => return Some(format!("{d} expected=valid JSON object actual=parse error: {e} in {shown:?}")) };
    let m = match j { J::Obj(m) => m, _ => return Some(format!("{d} expected=object actual={shown:?}")) };
    if m.len() != want.len() + 3 { return Some(format!("{d} expected={} members actual={} in {shown:?}", want.len() + 3, m.len())); }
    // the three fixed members, each exactly once, wherever they stand (the property fixes their presence, not their place)
    let count = |k: &str| m.iter().filter(|x| x.0 == k).count();
    let find = |k: &str| m.iter().find(|x| x.0 == k).map(|x| x.1.clone());
    let ok_fixed = count("time") == 1 && count("level") == 1 && count("time_ns") == 1
        && matches!(find("time"), Some(J::Str(_))) && find("level") == Some(J::Str("info".into())) && matches!(find("time_ns"), Some(J::Num(_)));
    if !ok_fixed { return Some(format!("{d} expected=the members time (string), level (\"info\"), time_ns (number), once each actual={shown:?}")); }
    // ... and one member per tag, in the order of the tags
    let rest: Vec<&(String, J)> = m.iter().filter(|x| x.0 != "time" && x.0 != "level" && x.0 != "time_ns").collect();
    for (k, (name, w)) in want.iter().enumerate() {
        let (gn, gv) = rest[k];
        if gn != name || !same(gv, w) { return Some(format!("{d} expected=member {name}={w:?} actual={gn}={gv:?}")); }
    }
    None
}
/// an event with a given time (through the real `log` and an installed channel logger): the line is still one JSON object, `time_ns`
/// is the RFC 8259 integer secs * 10^9 + nanos, `time` a string
fn run_time(secs: u64, nanos: u32) -> Option<String> {
    let d = format!("jsonl time secs={secs} nanos={nanos}");
    let (tx, rx) = std::sync::mpsc::sync_channel::<LogEvent>(4);
    let guard = match servlin::log::set_global_logger(tx) { Ok(g) => g, Err(_) => return Some(format!("{d} expected=logger installed actual=already set")) };
    let t = std::time::UNIX_EPOCH + std::time::Duration::new(secs, nanos);
    let r = servlin::log::internal::log(t, Level::Info, vec![tag("a", 1u8)]);
    drop(guard);
    if r.is_err() { return Some(format!("{d} expected=Ok actual=LoggerStopped")); }
    let ev = match rx.try_recv() { Ok(e) => e, Err(_) => return Some(format!("{d} expected=one event actual=none")) };
    let mut out = Vec::new();
    if let Err(e) = ev.write_jsonl(&mut out) { return Some(format!("{d} expected=Ok actual=Err({e})")); }
    if out.last() != Some(&b'\n') || out[..out.len() - 1].contains(&b'\n') { return Some(format!("{d} expected=exactly one newline-terminated line actual={:?}", String::from_utf8_lossy(&out))); }
    let shown = String::from_utf8_lossy(&out[..out.len() - 1]).to_string();
    let m = match parse(&out[..out.len() - 1]) { Ok(J::Obj(m)) => m, Ok(_) => return Some(format!("{d} expected=object actual={shown:?}")), Err(e) => return Some(format!("{d} expected=valid JSON object actual=parse error: {e} in {shown:?}")) };
    let want = (secs as u128 * 1_000_000_000 + nanos as u128).to_string();
    match m.iter().find(|x| x.0 == "time_ns").map(|x| x.1.clone()) { Some(J::Num(n)) if n == want => {} other => return Some(format!("{d} expected=time_ns {want} actual={other:?} in {shown:?}")) }
    if !matches!(m.iter().find(|x| x.0 == "time").map(|x| x.1.clone()), Some(J::Str(_))) { return Some(format!("{d} expected=time as a string actual={shown:?}")); }
    None
}
fn unhex(r: &str) -> Vec<u8> { (0..r.len() / 2).map(|i| u8::from_str_radix(&r[2 * i..2 * i + 2], 16).unwrap()).collect() }
fn hex(s: &str) -> String { s.bytes().map(|b| format!("{b:02x}")).collect() }
fn main() {
    std::panic::set_hook(Box::new(|_| {}));
    let args: Vec<String> = std::env::args().collect();
    if args.len() >= 3 && args[1] == "replay" {
        let w = args[2..].join(" ");
        if w.contains("jsonl time ") {
            let g = |k: &str| -> u64 { w.split(&format!("{k}=")).nth(1).unwrap().split(' ').next().unwrap().parse().unwrap() };
            match std::panic::catch_unwind(|| run_time(g("secs"), g("nanos") as u32)) { Ok(Some(m)) => { println!("WITNESS {m}"); std::process::exit(1) } Ok(None) => { println!("OK witness no longer fails"); std::process::exit(0) } Err(_) => { println!("WITNESS jsonl time expected=no-panic actual=panic"); std::process::exit(1) } }
        }
        let descs: Vec<String> = w.split("tags=").nth(1).unwrap().split(' ').next().unwrap().split(',').filter(|s| !s.is_empty()).map(String::from).collect();
        match std::panic::catch_unwind(|| run(&descs)) {
            Ok(Some(m)) => { println!("WITNESS {m}"); std::process::exit(1) }
            Ok(None) => { println!("OK witness no longer fails"); std::process::exit(0) }
            Err(_) => { println!("WITNESS jsonl tags={} expected=no-panic actual=panic", descs.join(",")); std::process::exit(1) }
        }
    }
    let thorough = args.iter().any(|a| a == "--thorough");
    let mut vals: Vec<String> = Vec::new();
    // strings: every code point below 0x100, boundaries of the planes, surrogate neighbours, combining / format characters, astral
    let mut cps: Vec<u32> = (0..0x100).collect();
    cps.extend([0x100, 0x2ff, 0x300, 0x301, 0x7ff, 0x800, 0x200b, 0x200d, 0x2028, 0x2029, 0xd7ff, 0xe000, 0xfeff, 0xfffd, 0xfffe, 0xffff, 0x10000, 0x1f600, 0xe0001, 0x10ffff]);
    if thorough { cps.extend((0x100..0x3000).step_by(7)); cps.extend((0x10000..0x11000).step_by(97)); }
    for cp in &cps { if let Some(c) = char::from_u32(*cp) { vals.push(format!("s:{}", hex(&c.to_string()))); vals.push(format!("s:{}", hex(&format!("a{c}b")))); } }
    for s in ["", "\"", "\\", "\\\"", "\"}", "\",\"x\":\"y", "a\nb", "a\r\nb", "\\u0041", "\\n", "tab\there", "'", "</script>", "{\"k\":1}", "\u{1f600}\u{301}", "ends with backslash\\"] { vals.push(format!("s:{}", hex(s))); }
    for v in [0i128, 1, -1, 127, -128, 255, 32767, -32768, 65535, i32::MAX as i128, i32::MIN as i128, u32::MAX as i128, i64::MAX as i128, i64::MIN as i128, u64::MAX as i128, i128::MAX, i128::MIN] { vals.push(format!("i:{v}")); }
    for v in [0u128, u64::MAX as u128 + 1, u128::MAX] { vals.push(format!("u:{v}")); }
    for (w, lo, hi) in [("i8", -128i128, 127i128), ("i16", -32768, 32767), ("i32", i32::MIN as i128, i32::MAX as i128), ("i64", i64::MIN as i128, i64::MAX as i128), ("u8", 0, 255), ("u16", 0, 65535), ("u32", 0, u32::MAX as i128), ("u64", 0, u64::MAX as i128), ("usize", 0, usize::MAX as i128)] { for v in [lo, hi, 0] { vals.push(format!("w:{w}:{v}")); } }
    for v in [0.0f64, -0.0, 1.0, -1.5, 0.1, 1e300, 1e-300, f64::MIN_POSITIVE, f64::MAX, f64::MIN, 5e-324, f64::NAN, f64::INFINITY, f64::NEG_INFINITY, 123456789.125] { vals.push(format!("f:{:x}", v.to_bits())); }
    for v in [0.0f32, 1.5, f32::MAX, f32::MIN_POSITIVE, f32::NAN, f32::INFINITY, f32::NEG_INFINITY] { vals.push(format!("g:{:x}", v.to_bits())); }
    vals.extend(["b:0".to_string(), "b:1".to_string(), "n:".to_string()]);
    let mut n = 0u64;
    let mut found: Vec<String> = Vec::new();
    let mut try_ = |ds: Vec<String>, n: &mut u64, found: &mut Vec<String>| { *n += 1; match std::panic::catch_unwind(|| run(&ds)) { Ok(Some(m)) => { if found.len() < 6 { found.push(m) } } Ok(None) => {} Err(_) => { if found.len() < 6 { found.push(format!("jsonl tags={} expected=no-panic actual=panic", ds.join(","))) } } } };
    try_(vec![], &mut n, &mut found);
    for v in &vals { try_(vec![v.clone()], &mut n, &mut found); }
    // several tags: order, separators, a hostile string next to other members
    let hostile = [format!("s:{}", hex("\",\"level\":\"error")), format!("s:{}", hex("x\"}\n{\"a\":\"b")), "i:-1".to_string(), "n:".to_string(), "b:1".to_string(), format!("s:{}", hex("\\"))];
    for a in &hostile { for b in &hostile { try_(vec![a.clone(), b.clone()], &mut n, &mut found); for c in hostile.iter().take(if thorough { 6 } else { 2 }) { try_(vec![a.clone(), b.clone(), c.clone()], &mut n, &mut found); } } }
    // event times: the epoch itself, the first second after it, nanosecond counts with fewer than nine digits, today, far ahead
    for secs in [0u64, 1, 9, 10, 999_999_999, 1_000_000_000, 1_681_457_536, 4_102_444_800, 18_000_000_000] { for nanos in [0u32, 5, 99, 100, 123_456_789, 999_999_999] {
        n += 1;
        match std::panic::catch_unwind(|| run_time(secs, nanos)) { Ok(Some(m)) => { if found.len() < 6 { found.push(m) } } Ok(None) => {} Err(_) => { if found.len() < 6 { found.push(format!("jsonl time secs={secs} nanos={nanos} expected=no-panic actual=panic")) } } }
    } }
    // tag names that need escaping, alone and next to other members (a name is a JSON string like any other)
    let knames = ["a\"b", "a\\b", "x\":1,\"admin", "a\nb", "\u{1}", "\u{1f}", "\u{7f}", "caf\u{e9}\"s", "caf\u{e9}", "", "a b", "a:b", "a,b", "}", "{", "\t", "\u{2028}", "\u{1f600}", "\\u0041", "/"];
    for k in knames { for v in ["i:1", "n:", "s:78"] { let d = format!("k:{}:{v}", hex(k)); try_(vec![d.clone()], &mut n, &mut found); try_(vec!["i:-1".to_string(), d.clone(), "b:1".to_string()], &mut n, &mut found); } }
    println!("EVALUATED {n}");
    for f in &found { println!("WITNESS {f}"); }
    std::process::exit(if found.is_empty() { 0 } else { 1 });
}
