// ---- the directory scan of PrefixFileSet::new (src/log/prefix_file_set.rs): std::fs stand-ins (assumed).  A directory entry
// has a path, and -- if its metadata can be read -- a kind, a modification time and a length; these are uninterpreted
// attributes of the entry, so the contract of the scan step holds for whatever the file system reports.
#[verifier::external_body]
pub struct DirEntry { _p: () }
#[verifier::external_body]
pub struct Metadata { _p: () }
pub uninterp spec fn path_bytes(p: &Path) -> Seq<u8>;
pub uninterp spec fn pathbuf_bytes(p: PathBuf) -> Seq<u8>;
impl DirEntry {
    pub uninterp spec fn entry_path(&self) -> PathBuf;
    pub uninterp spec fn meta(&self) -> Metadata;
    #[verifier::external_body]
    pub fn path(&self) -> (r: PathBuf) ensures r == self.entry_path() { unimplemented!() }
    #[verifier::external_body]
    pub fn metadata(&self) -> (r: Result<Metadata, std::io::Error>) ensures r matches Ok(m) ==> m == self.meta() { unimplemented!() }
}
impl Metadata {
    pub uninterp spec fn regular(&self) -> bool;
    pub uninterp spec fn mtime(&self) -> SystemTime;
    pub uninterp spec fn length(&self) -> u64;
    #[verifier::external_body]
    pub fn is_file(&self) -> (r: bool) ensures r == self.regular() { unimplemented!() }
    // "Panics on platforms that do not support Metadata::modified": assumed supported
    #[verifier::external_body]
    pub fn modified(&self) -> (r: Result<SystemTime, std::io::Error>) ensures r == Ok::<SystemTime, std::io::Error>(self.mtime()) { unimplemented!() }
    #[verifier::external_body]
    pub fn len(&self) -> (r: u64) ensures r == self.length() { unimplemented!() }
}
// rule S1 stand-in for `path.as_os_str().as_encoded_bytes().starts_with(path_prefix.as_os_str().as_encoded_bytes())`: the
// comparison is on the bytes of the two paths (not on whole components, which never matched: repaired defect 2d4230b)
#[verifier::external_body]
pub fn path_has_byte_prefix(path: &PathBuf, prefix: &Path) -> (r: bool)
    ensures r == path_bytes(prefix).is_prefix_of(pathbuf_bytes(*path))
{ unimplemented!() }
// what the scan step must do with one entry: it belongs to the set iff its path starts with the prefix (byte-wise) and it is
// a regular file, and then it is recorded with the length and modification time the file system reports
pub open spec fn entry_counts(e: DirEntry, prefix: &Path) -> bool {
    path_bytes(prefix).is_prefix_of(pathbuf_bytes(e.entry_path())) && e.meta().regular()
}
pub open spec fn entry_file(e: DirEntry) -> PrefixFile {
    PrefixFile { path: e.entry_path(), mtime: e.meta().mtime(), len: e.meta().length() }
}
// rule S1 stand-in for `files.iter().map(|f| f.len).sum()` (iterator adapters are outside Verus): the sum of the recorded
// lengths (assumed, incl. that it fits 64 bits -- no disk holds more)
#[verifier::external_body]
pub fn heap_sum_len(files: &BinaryHeap<PrefixFile>) -> (r: u64)
    ensures r == total(files@)
{ unimplemented!() }
