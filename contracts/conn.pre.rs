use std::collections::HashMap;
use std::net::SocketAddr;
use std::sync::Mutex;
#[verifier::external_type_specification]
#[verifier::external_body]
pub struct ExSocketAddr(SocketAddr);
#[verifier::external_type_specification]
#[verifier::external_body]
#[verifier::reject_recursive_types(T)]
pub struct ExMutex<T: ?Sized>(Mutex<T>);

// std::net::Shutdown (stand-in: only the variant name is used by the code under contract)
pub enum Shutdown { Read, Write, Both }

// ---- async_net::TcpStream (assumed): a duplex stream.  As a reader its events are `rhist`; as a
// writer its ghost state is `wire`, the bytes put on the wire so far.  Reading never changes
// `wire` (it is the reader-side frame `aux`); `shutdown` takes `&self` and writes nothing.
pub mod async_net {
    use super::*;
    #[verifier::external_body]
    pub struct TcpStream { _p: () }
    impl TcpStream {
        pub uninterp spec fn rhist(&self) -> Seq<Ev>;
        pub uninterp spec fn wire(&self) -> Seq<u8>;
        pub uninterp spec fn sid(&self) -> int;
        pub uninterp spec fn rlimit(&self) -> nat;
        #[verifier::external_body]
        pub fn shutdown(&self, how: Shutdown) -> (r: Result<(), std::io::Error>) { unimplemented!() }
    }
    impl AsyncRead for TcpStream {
        open spec fn hist(&self) -> Seq<Ev> { self.rhist() }
        #[verifier::prophetic]
        uninterp spec fn end_hist(&self) -> Seq<Ev>;
        open spec fn limit(&self) -> nat { self.rlimit() }
        open spec fn rid(&self) -> int { self.sid() }
        #[verifier::prophetic]
        uninterp spec fn end_rid(&self) -> int;
        open spec fn aux(&self) -> Seq<u8> { self.wire() }
        #[verifier::prophetic]
        uninterp spec fn end_aux(&self) -> Seq<u8>;
        #[verifier::external_body]
        proof fn resolved(&self) {}
        #[verifier::external_body]
        proof fn within_limit(&self) {}
        #[verifier::external_body]
        fn read(&mut self, buf: &mut [u8]) -> (r: Result<usize, std::io::Error>) { unimplemented!() }
        #[verifier::external_body]
        fn read_to_end(&mut self, buf: &mut Vec<u8>) -> (r: Result<usize, std::io::Error>) { unimplemented!() }
    }
    impl AsyncWrite for TcpStream {
        open spec fn cur(&self) -> Seq<u8> { self.wire() }
        #[verifier::prophetic]
        uninterp spec fn end(&self) -> Seq<u8>;
        open spec fn accepted(&self) -> nat { self.wire().len() }
        #[verifier::prophetic]
        uninterp spec fn end_accepted(&self) -> nat;
        #[verifier::prophetic]
        open spec fn deep(&self) -> Seq<u8> { self.end() }
        #[verifier::prophetic]
        open spec fn end_deep(&self) -> Seq<u8> { self.end() }
        #[verifier::prophetic]
        open spec fn fr(&self) -> Fr { Fr::Nil }
        #[verifier::prophetic]
        open spec fn end_fr(&self) -> Fr { Fr::Nil }
        #[verifier::external_body]
        proof fn resolved(&self) {}
        #[verifier::external_body]
        fn write_all(&mut self, buf: &[u8]) -> (r: Result<(), std::io::Error>) { unimplemented!() }
        #[verifier::external_body]
        fn write(&mut self, buf: &[u8]) -> (r: Result<usize, std::io::Error>) { unimplemented!() }
        #[verifier::external_body]
        fn flush(&mut self) -> (r: Result<(), std::io::Error>) { unimplemented!() }
        #[verifier::external_body]
        fn close(&mut self) -> (r: Result<(), std::io::Error>) { unimplemented!() }
    }
}

// ---- futures_lite Chain (`(&mut buf).chain(&mut stream)`), assumed: a reader that delivers the
// first reader's bytes and then the second's; its non-read state (`aux`) is the second reader's.
// FixedBuf is a reader of its readable bytes (fixed-buffer's futures-io feature).
#[verifier::external_body]
#[verifier::reject_recursive_types(A)]
#[verifier::reject_recursive_types(B)]
pub struct Chain<A, B> { _a: core::marker::PhantomData<(A, B)> }
impl<A, B: AsyncRead> Chain<A, B> {
    pub uninterp spec fn cid(&self) -> int;
    pub uninterp spec fn chist(&self) -> Seq<Ev>;
    pub uninterp spec fn second(&self) -> B;
}
pub uninterp spec fn chain_second_end_aux(cid: int) -> Seq<u8>;
impl<A, B: AsyncRead> AsyncRead for Chain<A, B> {
    open spec fn hist(&self) -> Seq<Ev> { self.chist() }
    #[verifier::prophetic]
    uninterp spec fn end_hist(&self) -> Seq<Ev>;
    uninterp spec fn limit(&self) -> nat;
    open spec fn rid(&self) -> int { self.cid() }
    #[verifier::prophetic]
    uninterp spec fn end_rid(&self) -> int;
    // reading through the chain never changes the second reader's non-read state
    open spec fn aux(&self) -> Seq<u8> { self.second().aux() }
    #[verifier::prophetic]
    uninterp spec fn end_aux(&self) -> Seq<u8>;
    #[verifier::external_body]
    proof fn resolved(&self) {}
    #[verifier::external_body]
    proof fn within_limit(&self) {}
    #[verifier::external_body]
    fn read(&mut self, buf: &mut [u8]) -> (r: Result<usize, std::io::Error>) { unimplemented!() }
    #[verifier::external_body]
    fn read_to_end(&mut self, buf: &mut Vec<u8>) -> (r: Result<usize, std::io::Error>) { unimplemented!() }
}
pub open spec fn min_nat(a: nat, b: nat) -> nat { if a <= b { a } else { b } }
pub open spec fn chain_front(before: Seq<u8>, after: Seq<u8>, delivered: Seq<u8>) -> bool {
    let k = min_nat(delivered.len(), before.len()) as int;
    after == before.skip(k) && delivered.take(k) == before.take(k)
}
pub trait ChainExt: Sized {
    fn chain<B: AsyncRead>(self, next: B) -> (c: Chain<Self, B>)
        ensures c.second() == next, c.chist().len() == 0,
            // the chain is given up with the same non-read state of `next` as it ends with
            c.end_aux() == next.end_aux();
}
impl<const N: usize> ChainExt for &mut FixedBuf<N> {
    #[verifier::external_body]
    fn chain<B: AsyncRead>(self, next: B) -> (c: Chain<Self, B>)
        // reading out of a well-formed FixedBuf (its AsyncRead impl only advances the read index) leaves it well-formed
        ensures old(self).wf() ==> final(self).wf(),
            // (assumed, from fixed-buffer's AsyncRead impl and futures-lite's Chain) the chain delivers the buffer's readable
            // bytes first, and exactly the bytes it did not deliver are still readable once the chain is given up
            chain_front(old(self).rd(), final(self).rd(), consumed(c)),
    { unimplemented!() }
}

// Request derives Clone in the source (the derive is dropped with the other outer attributes because
// its field types are stand-ins here): a clone is an equal value.
impl Clone for Request {
    #[verifier::external_body]
    fn clone(&self) -> (r: Self) ensures r == *self { unimplemented!() }
}

// ---- the serialiser and the request reader, assumed at this level (their heads are built with
// format!/write!/regex!, outside Verus; the parts within reach are under contract in other units)
#[verifier::external_body]
pub fn read_http_request<const BUF_SIZE: usize, R: AsyncRead + Unpin>(
    remote_addr: SocketAddr,
    buf: &mut FixedBuf<BUF_SIZE>,
    reader: R,
) -> (r: Result<Request, HttpError>)
    requires old(buf).wf()
    ensures final(buf).wf(), kept(reader),
{ unimplemented!() }

// ---- the protocol-state contract of HttpConn (taken from the property statement of C05/C08/C20)
pub open spec fn wire(c: HttpConn) -> Seq<u8> { c.stream.wire() }
pub open spec fn is_5xx_code(code: u16) -> bool { 500 <= code <= 599 }
pub open spec fn conn_write_response_post(pre: HttpConn, post: HttpConn, resp: Response, r: Result<(), HttpError>) -> bool {
    &&& post.read_state == pre.read_state
    &&& match pre.write_state {
        // no response owed / shut down: the documented error, nothing on the wire, no state change
        WriteState::None => r == Err::<(), HttpError>(HttpError::ResponseAlreadySent) && wire(post) == wire(pre) && post.write_state == pre.write_state,
        WriteState::Shutdown => r == Err::<(), HttpError>(HttpError::Disconnected) && wire(post) == wire(pre) && post.write_state == pre.write_state,
        WriteState::Response => {
            let close = is_5xx_code(resp.code);   // every 5xx response is sent with close = true
            match r {
                Ok(()) => wire(post) == wire(pre) + ser(resp, close)
                    && post.write_state == (if close { WriteState::Shutdown }
                                            else if 100 <= resp.code <= 199 { WriteState::Response }   // interim: still owed
                                            else { WriteState::None }),
                Err(_) => wire(pre).is_prefix_of(wire(post)) && wire(post).is_prefix_of(wire(pre) + ser(resp, close))
                    // any byte sent: write side shut down; none sent: the response is still owed
                    && post.write_state == (if wire(post).len() > wire(pre).len() { WriteState::Shutdown } else { WriteState::Response }),
            }
        }
    }
}

pub open spec fn same_conn(pre: HttpConn, post: HttpConn) -> bool {
    wire(post) == wire(pre) && post.read_state == pre.read_state && post.write_state == pre.write_state
}
// what Response::new(code) builds (used as the witness for the interim 100-continue response)
pub open spec fn is_new_response(r: Response, code: u16) -> bool {
    r.code == code && r.kind == ResponseKind::Normal && r.content_type is None && r.headers.0@.len() == 0
}
// write_http_continue == write_response(&Response::new(100)) including its guards
pub open spec fn conn_continue_post(pre: HttpConn, post: HttpConn, r: Result<(), HttpError>) -> bool {
    match pre.write_state {
        // 100-continue goes out only while a response is owed
        WriteState::None => r == Err::<(), HttpError>(HttpError::ResponseAlreadySent) && same_conn(pre, post),
        WriteState::Shutdown => r == Err::<(), HttpError>(HttpError::Disconnected) && same_conn(pre, post),
        WriteState::Response => exists|r100: Response| #[trigger] is_new_response(r100, 100) && conn_write_response_post(pre, post, r100, r),
    }
}
pub open spec fn conn_read_request_post(pre: HttpConn, post: HttpConn, r: Result<Request, HttpError>) -> bool {
    &&& wire(post) == wire(pre)     // reading a request never writes
    &&& match pre.write_state {
        // a response is still owed / the connection is shut down: refused, nothing changes
        WriteState::Response => r matches Err(e) && e == HttpError::ResponseNotSent && same_conn(pre, post),
        WriteState::Shutdown => r matches Err(e) && e == HttpError::Disconnected && same_conn(pre, post),
        WriteState::None => match pre.read_state {
            // a body is still unread / read side finished: refused, nothing changes
            ReadState::Body { .. } => r matches Err(e) && e == HttpError::BodyNotRead && same_conn(pre, post),
            ReadState::Shutdown => r matches Err(e) && e == HttpError::Disconnected && same_conn(pre, post),
            ReadState::Head => {
                // from here on a response is owed, whatever the outcome of the read
                &&& post.write_state == WriteState::Response
                &&& match r {
                    Ok(req) => post.read_state == (match req.body {
                        RequestBody::PendingKnown(len) => ReadState::Body { len: Some(len), expect_continue: req.expect_continue, chunked: req.chunked, gzip: req.gzip },
                        RequestBody::PendingUnknown => ReadState::Body { len: None, expect_continue: req.expect_continue, chunked: req.chunked, gzip: req.gzip },
                        _ => ReadState::Head,
                    }),
                    Err(_) => post.read_state == pre.read_state,
                }
            },
        },
    }
}
// the guard at the top of read_body_to_vec (max == None) / read_body_to_file (max == Some(max_len))
pub open spec fn body_guard_err(rs: ReadState, max: Option<u64>) -> Option<HttpError> {
    match rs {
        ReadState::Head => Some(HttpError::BodyNotAvailable),
        ReadState::Shutdown => Some(HttpError::Disconnected),
        ReadState::Body { len, expect_continue, chunked, gzip } =>
            if chunked || gzip { Some(HttpError::UnsupportedTransferEncoding) }
            else if max is Some && len is Some && len->Some_0 > max->Some_0 { Some(HttpError::BodyTooLong) }   // refused before any byte is read
            else if max is None && len is Some && len->Some_0 > usize::MAX { Some(HttpError::InvalidContentLength) }
            else { None },
    }
}
pub open spec fn body_read_result(len: Option<u64>, max: Option<u64>, r: Result<RequestBody, HttpError>) -> bool {
    match r {
        Ok(b) => match max {
            None => b matches RequestBody::Vec(v) && (len is Some ==> v@.len() == len->Some_0),
            Some(m) => b matches RequestBody::TempFile(_, n) && (len is Some ==> n == len->Some_0) && n <= m,
        },
        Err(e) => e is Truncated || (max is Some && (e is ErrorSavingFile || (len is None && e is BodyTooLong))),
    }
}
pub open spec fn conn_read_body_post(pre: HttpConn, post: HttpConn, r: Result<RequestBody, HttpError>, max: Option<u64>) -> bool {
    match body_guard_err(pre.read_state, max) {
        Some(e) => r matches Err(e2) && e2 == e && same_conn(pre, post),
        None => {
            let ec = pre.read_state->expect_continue;
            let len = pre.read_state->len;
            // a body of known length leaves the connection ready for the next head; an unknown-length body ends it
            let next = if len is Some { ReadState::Head } else { ReadState::Shutdown };
            if !ec {
                body_read_result(len, max, r) && wire(post) == wire(pre)
                && post.write_state == pre.write_state && post.read_state == next
            } else {
                // announced with Expect: 100-continue goes out first, automatically
                (r is Err && pre.write_state != WriteState::Response && conn_continue_post(pre, post, Err::<(), HttpError>(r->Err_0)))
                || exists|r100: Response| #[trigger] is_new_response(r100, 100) && (
                    // ... it could not be sent: that error, nothing read, read state unchanged
                    (r is Err && pre.write_state == WriteState::Response && conn_write_response_post(pre, post, r100, Err::<(), HttpError>(r->Err_0)))
                    // ... it was sent (a response is still owed afterwards), then the body was read
                    || (pre.write_state == WriteState::Response && wire(post) == wire(pre) + ser(r100, false)
                        && post.write_state == WriteState::Response && post.read_state == next && body_read_result(len, max, r)))
            }
        },
    }
}

// ---- clauses of the method contracts restated per property (each is implied by the conn_*_post contract above; a
// change that breaks one of them is then reported for the property it belongs to)
// C08: a failed send leaves a prefix of the one serialisation; any byte sent => write side shut down; none sent =>
// the response is still owed and the wire untouched; after shutdown nothing is written
pub open spec fn wr_failure_clause(pre: HttpConn, post: HttpConn, resp: Response, r: Result<(), HttpError>) -> bool {
    &&& (pre.write_state == WriteState::Response && r is Err) ==> {
            &&& wire(pre).is_prefix_of(wire(post)) && wire(post).is_prefix_of(wire(pre) + ser(resp, is_5xx_code(resp.code)))
            &&& wire(post).len() > wire(pre).len() ==> post.write_state == WriteState::Shutdown
            &&& wire(post).len() == wire(pre).len() ==> post.write_state == WriteState::Response
        }
    &&& pre.write_state == WriteState::Shutdown ==> wire(post) == wire(pre) && post.write_state == WriteState::Shutdown
}
// C20: a response is sent with close = true exactly when it is a 5xx
pub open spec fn wr_close_clause(pre: HttpConn, post: HttpConn, resp: Response, r: Result<(), HttpError>) -> bool {
    (pre.write_state == WriteState::Response && r is Ok) ==> wire(post) == wire(pre) + ser(resp, is_5xx_code(resp.code))
}
// C09: a declared length over the limit is refused before anything is read; what is accepted has the declared
// length and fits the limit
pub open spec fn rb_limit_clause(pre: HttpConn, post: HttpConn, r: Result<RequestBody, HttpError>, max: Option<u64>) -> bool {
    &&& body_guard_err(pre.read_state, max) == Some(HttpError::BodyTooLong) ==> r == Err::<RequestBody, HttpError>(HttpError::BodyTooLong) && same_conn(pre, post)
    &&& (pre.read_state is Body && r is Ok) ==> body_guard_err(pre.read_state, max) is None && body_read_result(pre.read_state->len, max, r)
}
// C03: chunked / gzip bodies are refused when the body is read, before anything is read
pub open spec fn rb_coding_clause(pre: HttpConn, post: HttpConn, r: Result<RequestBody, HttpError>, max: Option<u64>) -> bool {
    (pre.read_state matches ReadState::Body { chunked, gzip, .. } && (chunked || gzip))
        ==> r == Err::<RequestBody, HttpError>(HttpError::UnsupportedTransferEncoding) && same_conn(pre, post)
}
// C03: a body with a declared length is exactly the next N bytes: as far as they were buffered already it is those bytes,
// and what followed them in the buffer stays there for the next request
pub open spec fn rb_exact_clause(pre: HttpConn, post: HttpConn, r: Result<RequestBody, HttpError>, max: Option<u64>) -> bool {
    (body_guard_err(pre.read_state, max) is None && pre.read_state->len is Some && r is Ok) ==> ({
        let k = min_nat(pre.read_state->len->Some_0 as nat, pre.buf.rd().len()) as int;
        post.buf.rd() == pre.buf.rd().skip(k)
        && (max is None ==> r->Ok_0 is Vec && r->Ok_0->Vec_0@.take(k) == pre.buf.rd().take(k))
    })
}
// C03: the body read state is exactly the framing the request head declared
pub open spec fn rr_framing_clause(pre: HttpConn, post: HttpConn, r: Result<Request, HttpError>) -> bool {
    (pre.write_state == WriteState::None && pre.read_state is Head && r is Ok) ==> post.read_state == (match r->Ok_0.body {
        RequestBody::PendingKnown(len) => ReadState::Body { len: Some(len), expect_continue: r->Ok_0.expect_continue, chunked: r->Ok_0.chunked, gzip: r->Ok_0.gzip },
        RequestBody::PendingUnknown => ReadState::Body { len: None, expect_continue: r->Ok_0.expect_continue, chunked: r->Ok_0.chunked, gzip: r->Ok_0.gzip },
        _ => ReadState::Head,
    })
}

// ---- C08 at the level of handle_http_conn_once / handle_http_conn
// the wire after `pre` holds nothing more, or exactly one complete interim 100-continue
pub open spec fn clean_boundary(pre: HttpConn, post: HttpConn) -> bool {
    wire(post) == wire(pre) || exists|r100: Response| #[trigger] is_new_response(r100, 100) && wire(post) == wire(pre) + ser(r100, false)
}
pub open spec fn error_path_ok(pre: HttpConn, post: HttpConn) -> bool {
    // shut down or nothing owed (a further write_response is refused and writes nothing), or still owed and untouched
    post.write_state == WriteState::Shutdown || post.write_state == WriteState::None
    || (post.write_state == WriteState::Response && clean_boundary(pre, post))
}
pub open spec fn once_post(pre: HttpConn, post: HttpConn, r: Result<(), HttpError>) -> bool {
    (pre.read_state == ReadState::Head && pre.write_state == WriteState::None && r is Err && !(r->Err_0 is Disconnected))
        ==> error_path_ok(pre, post)
}
// a failed write on a connection owing a response: shut down, or nothing went out and the response is still owed
pub broadcast proof fn lemma_write_err(pre: HttpConn, post: HttpConn, resp: Response, r: Result<(), HttpError>)
    requires #[trigger] conn_write_response_post(pre, post, resp, r), r is Err, pre.write_state == WriteState::Response,
    ensures post.write_state == WriteState::Shutdown || (post.write_state == WriteState::Response && wire(post) == wire(pre)),
{
    if wire(post).len() <= wire(pre).len() {
        assert(wire(post) =~= wire(pre));
    }
}
// a failed body read on a connection owing a response
pub broadcast proof fn lemma_body_err(pre: HttpConn, post: HttpConn, r: Result<RequestBody, HttpError>, max: Option<u64>)
    requires #[trigger] conn_read_body_post(pre, post, r, max), r is Err, pre.write_state == WriteState::Response,
    ensures error_path_ok(pre, post),
{
    if body_guard_err(pre.read_state, max) is None && pre.read_state->expect_continue {
        let e = r->Err_0;
        if exists|r100: Response| #[trigger] is_new_response(r100, 100) && conn_write_response_post(pre, post, r100, Err::<(), HttpError>(e)) {
            let r100 = choose|r100: Response| #[trigger] is_new_response(r100, 100) && conn_write_response_post(pre, post, r100, Err::<(), HttpError>(e));
            lemma_write_err(pre, post, r100, Err::<(), HttpError>(e));
        }
    }
}
// permit::Permit, safina::executor token: opaque
#[verifier::external_body]
pub struct Permit { _p: () }
impl Permit {
    #[verifier::external_body]
    pub fn is_revoked(&self) -> bool { unimplemented!() }
}
#[verifier::external_body]
pub struct Token { _p: () }
#[verifier::external_body]
pub fn verif_print() { unimplemented!() }
// std calls on the error path whose results no obligation here depends on (no contract assumed beyond the types)
pub assume_specification<T: std::ops::Deref> [std::option::Option::<T>::as_deref] (_0: &std::option::Option<T>) -> std::option::Option<&<T as std::ops::Deref>::Target>;

// Response::payload_too_large_413 (src/response.rs): built with Response::text, whose Into<ResponseBody> argument is outside this
// unit; that it is a Normal response with code 413 is the complete Kani harness c20_ctor_payload_too_large_413 (C20)
impl Response {
    #[verifier::external_body]
    pub fn payload_too_large_413() -> (r: Response)
        ensures r.kind == ResponseKind::Normal, r.code == 413
    { unimplemented!() }
}
