// ---- optional-whitespace trimming (shared by the head and parse units)
pub open spec fn is_ws(b: u8) -> bool { b == 32 || b == 9 || b == 13 || b == 10 }

// trimming optional whitespace (SP / HTAB / CR / LF) from both ends, front first -- the definition
pub open spec fn trim_ws(s: Seq<u8>) -> Seq<u8> decreases s.len() {
    if s.len() > 0 && is_ws(s[0]) { trim_ws(s.subrange(1, s.len() as int)) }
    else if s.len() > 0 && is_ws(s[s.len() - 1]) { trim_ws(s.subrange(0, s.len() - 1)) }
    else { s }
}
// ... and what it means: no whitespace is left at either end, and a value without surrounding
// whitespace is returned unchanged
pub proof fn lemma_trim_ws(s: Seq<u8>)
    ensures
        trim_ws(s).len() > 0 ==> !is_ws(trim_ws(s)[0]) && !is_ws(trim_ws(s)[trim_ws(s).len() - 1]),
        (s.len() == 0 || (!is_ws(s[0]) && !is_ws(s[s.len() - 1]))) ==> trim_ws(s) == s,
        trim_ws(s).len() <= s.len(),
    decreases s.len()
{
    if s.len() > 0 && is_ws(s[0]) {
        lemma_trim_ws(s.subrange(1, s.len() as int));
    } else if s.len() > 0 && is_ws(s[s.len() - 1]) {
        lemma_trim_ws(s.subrange(0, s.len() - 1));
    }
}


// (vstd specifies <[T]>::first / last / split_first); assumed contract of <[T]>::split_last:
pub assume_specification<T>[ <[T]>::split_last ](s: &[T]) -> (r: Option<(&T, &[T])>)
    ensures s@.len() == 0 ==> r is None,
        s@.len() > 0 ==> r is Some && *r->Some_0.0 == s@[s@.len() - 1] && r->Some_0.1@ == s@.subrange(0, s@.len() - 1);
