// the written form, stage by stage in the order the code writes (left-nested from what was written before, `o`)
pub open spec fn ck0(o: Seq<char>, c: Cookie) -> Seq<char> { o + c.name_().inner()@ + seq!['='] + c.value_().inner()@ }
pub open spec fn ck1(o: Seq<char>, c: Cookie) -> Seq<char> {
    if c.domain_().inner()@.len() != 0 { ck0(o, c) + seq![';', ' ', 'D', 'o', 'm', 'a', 'i', 'n', '='] + c.domain_().inner()@ } else { ck0(o, c) }
}
pub open spec fn ck2(o: Seq<char>, c: Cookie) -> Seq<char> {
    if !is_epoch(c.expires_()) { ck1(o, c) + seq![';', ' ', 'E', 'x', 'p', 'i', 'r', 'e', 's', '='] + iso_text(c.expires_()) } else { ck1(o, c) }
}
pub open spec fn ck3(o: Seq<char>, c: Cookie) -> Seq<char> {
    if c.http_only_() { ck2(o, c) + seq![';', ' ', 'H', 't', 't', 'p', 'O', 'n', 'l', 'y'] } else { ck2(o, c) }
}
pub open spec fn ck4(o: Seq<char>, c: Cookie) -> Seq<char> {
    if !dur_is_zero(c.max_age_()) { ck3(o, c) + seq![';', ' ', 'M', 'a', 'x', '-', 'A', 'g', 'e', '='] + dec_int(dur_secs(c.max_age_()) as int) } else { ck3(o, c) }
}
pub open spec fn ck5(o: Seq<char>, c: Cookie) -> Seq<char> {
    if c.path_().inner()@.len() != 0 { ck4(o, c) + seq![';', ' ', 'P', 'a', 't', 'h', '='] + c.path_().inner()@ } else { ck4(o, c) }
}
pub open spec fn ck6(o: Seq<char>, c: Cookie) -> Seq<char> {
    match c.same_site_() {
        SameSite::Strict => ck5(o, c) + seq![';', ' ', 'S', 'a', 'm', 'e', 'S', 'i', 't', 'e', '=', 'S', 't', 'r', 'i', 'c', 't'],
        SameSite::Lax => ck5(o, c) + seq![';', ' ', 'S', 'a', 'm', 'e', 'S', 'i', 't', 'e', '=', 'L', 'a', 'x'],
        SameSite::None => ck5(o, c) + seq![';', ' ', 'S', 'a', 'm', 'e', 'S', 'i', 't', 'e', '=', 'N', 'o', 'n', 'e'],
    }
}
pub open spec fn ck7(o: Seq<char>, c: Cookie) -> Seq<char> {
    if c.secure_() { ck6(o, c) + seq![';', ' ', 'S', 'e', 'c', 'u', 'r', 'e'] } else { ck6(o, c) }
}
pub open spec fn cookie_text(c: Cookie) -> Seq<char> { ck7(Seq::empty(), c) }
pub proof fn lemma_assoc(o: Seq<char>, x: Seq<char>, p: Seq<char>)
    ensures (o + x) + p == o + (x + p)
{
    assert((o + x) + p =~= o + (x + p));
}
// what is written after `o` is `o` followed by the cookie text
#[verifier::rlimit(200)]
#[verifier::spinoff_prover]
pub proof fn lemma_cookie_base(o: Seq<char>, c: Cookie)
    ensures ck7(o, c) == o + cookie_text(c)
{
    let e = Seq::<char>::empty();
    assert(o + e =~= o);
    assert(e + c.name_().inner()@ =~= c.name_().inner()@);
    lemma_assoc(o, c.name_().inner()@, seq!['=']);
    lemma_assoc(o, c.name_().inner()@ + seq!['='], c.value_().inner()@);
    assert(ck0(o, c) == o + ck0(e, c));
    lemma_assoc(o, ck0(e, c), seq![';', ' ', 'D', 'o', 'm', 'a', 'i', 'n', '=']);
    lemma_assoc(o, ck0(e, c) + seq![';', ' ', 'D', 'o', 'm', 'a', 'i', 'n', '='], c.domain_().inner()@);
    assert(ck1(o, c) == o + ck1(e, c));
    lemma_assoc(o, ck1(e, c), seq![';', ' ', 'E', 'x', 'p', 'i', 'r', 'e', 's', '=']);
    lemma_assoc(o, ck1(e, c) + seq![';', ' ', 'E', 'x', 'p', 'i', 'r', 'e', 's', '='], iso_text(c.expires_()));
    assert(ck2(o, c) == o + ck2(e, c));
    lemma_assoc(o, ck2(e, c), seq![';', ' ', 'H', 't', 't', 'p', 'O', 'n', 'l', 'y']);
    assert(ck3(o, c) == o + ck3(e, c));
    lemma_assoc(o, ck3(e, c), seq![';', ' ', 'M', 'a', 'x', '-', 'A', 'g', 'e', '=']);
    lemma_assoc(o, ck3(e, c) + seq![';', ' ', 'M', 'a', 'x', '-', 'A', 'g', 'e', '='], dec_int(dur_secs(c.max_age_()) as int));
    assert(ck4(o, c) == o + ck4(e, c));
    lemma_assoc(o, ck4(e, c), seq![';', ' ', 'P', 'a', 't', 'h', '=']);
    lemma_assoc(o, ck4(e, c) + seq![';', ' ', 'P', 'a', 't', 'h', '='], c.path_().inner()@);
    assert(ck5(o, c) == o + ck5(e, c));
    lemma_assoc(o, ck5(e, c), seq![';', ' ', 'S', 'a', 'm', 'e', 'S', 'i', 't', 'e', '=', 'S', 't', 'r', 'i', 'c', 't']);
    lemma_assoc(o, ck5(e, c), seq![';', ' ', 'S', 'a', 'm', 'e', 'S', 'i', 't', 'e', '=', 'L', 'a', 'x']);
    lemma_assoc(o, ck5(e, c), seq![';', ' ', 'S', 'a', 'm', 'e', 'S', 'i', 't', 'e', '=', 'N', 'o', 'n', 'e']);
    assert(ck6(o, c) == o + ck6(e, c));
    lemma_assoc(o, ck6(e, c), seq![';', ' ', 'S', 'e', 'c', 'u', 'r', 'e']);
}

// ---- the reading side: RFC 6265 section 5.2 (written from the RFC, independent of the writer)
pub open spec fn is_wsp(c: char) -> bool { c == ' ' || c == '\t' }
// first index >= from holding c, or s.len()
pub open spec fn find(s: Seq<char>, c: char, from: int) -> int
    decreases s.len() - from
{
    if from < 0 || from >= s.len() { s.len() as int } else if s[from] == c { from } else { find(s, c, from + 1) }
}
pub open spec fn ltrim(s: Seq<char>) -> Seq<char> decreases s.len() {
    if s.len() > 0 && is_wsp(s[0]) { ltrim(s.skip(1)) } else { s }
}
pub open spec fn rtrim(s: Seq<char>) -> Seq<char> decreases s.len() {
    if s.len() > 0 && is_wsp(s.last()) { rtrim(s.drop_last()) } else { s }
}
pub open spec fn trim(s: Seq<char>) -> Seq<char> { rtrim(ltrim(s)) }
pub open spec fn split_av(av: Seq<char>) -> Av {
    let k = find(av, '=', 0);
    if k < av.len() { Av { name: trim(av.subrange(0, k)), value: Some(trim(av.subrange(k + 1, av.len() as int))) } }
    else { Av { name: trim(av), value: None } }
}
// 5.2 step 3 onwards: s[i..] is the unparsed-attributes (empty, or starting with ';')
pub open spec fn parse_avs(s: Seq<char>, i: int) -> Seq<Av>
    decreases s.len() - i
{
    if i < 0 || i >= s.len() { Seq::empty() }
    else {
        let j = find(s, ';', i + 1);
        if j <= i || j > s.len() { Seq::empty() }   // (never: find returns an index >= its start; stated for termination)
        else { seq![split_av(s.subrange(i + 1, j))] + parse_avs(s, j) }
    }
}
// 5.2 steps 1-2: the name-value-pair is everything before the first ';'
pub open spec fn parse_pair(s: Seq<char>) -> Option<(Seq<char>, Seq<char>)> {
    let e = find(s, ';', 0);
    let nv = s.subrange(0, e);
    let k = find(nv, '=', 0);
    if k >= nv.len() { None } else { Some((trim(nv.subrange(0, k)), trim(nv.subrange(k + 1, nv.len() as int)))) }
}

// ---- character classes the property assumes of what the application passes in
pub open spec fn holds_ch(s: Seq<char>, c: char) -> bool { exists|i: int| 0 <= i < s.len() && s[i] == c }
pub open spec fn edge_clean(s: Seq<char>) -> bool { s.len() == 0 || (!is_wsp(s[0]) && !is_wsp(s.last())) }
pub open spec fn name_ok(s: Seq<char>) -> bool { !holds_ch(s, ';') && !holds_ch(s, '=') && edge_clean(s) }
pub open spec fn value_ok(s: Seq<char>) -> bool { !holds_ch(s, ';') && edge_clean(s) }
pub open spec fn av_ok(a: Av) -> bool { name_ok(a.name) && (a.value matches Some(v) ==> value_ok(v)) }

pub proof fn lemma_find_skip(a: Seq<char>, b: Seq<char>, c: char, from: int)
    requires 0 <= from <= a.len(), forall|i: int| from <= i < a.len() ==> a[i] != c
    ensures find(a + b, c, from) == a.len() + find(b, c, 0)
    decreases a.len() - from
{
    if from < a.len() {
        assert((a + b)[from] == a[from]);
        lemma_find_skip(a, b, c, from + 1);
    } else {
        lemma_find_shift(a, b, c, 0);
    }
}
pub proof fn lemma_find_shift(a: Seq<char>, b: Seq<char>, c: char, k: int)
    requires 0 <= k <= b.len()
    ensures find(a + b, c, a.len() + k) == a.len() + find(b, c, k)
    decreases b.len() - k
{
    if k < b.len() {
        assert((a + b)[a.len() + k] == b[k]);
        lemma_find_shift(a, b, c, k + 1);
    }
}
pub proof fn lemma_find_none(s: Seq<char>, c: char, from: int)
    requires 0 <= from <= s.len(), forall|i: int| from <= i < s.len() ==> s[i] != c
    ensures find(s, c, from) == s.len()
    decreases s.len() - from
{
    if from < s.len() { lemma_find_none(s, c, from + 1); }
}
pub proof fn lemma_find_at(s: Seq<char>, c: char, from: int, at: int)
    requires 0 <= from <= at < s.len(), s[at] == c, forall|i: int| from <= i < at ==> s[i] != c
    ensures find(s, c, from) == at
    decreases at - from
{
    if from < at { lemma_find_at(s, c, from + 1, at); }
}
pub proof fn lemma_trim_clean(s: Seq<char>)
    requires edge_clean(s)
    ensures trim(s) == s, trim(seq![' '] + s) == s
{
    let t = seq![' '] + s;
    assert(t.skip(1) =~= s);
    assert(is_wsp(t[0]));
    assert(ltrim(t) == ltrim(s));
}
// one attribute as written reads back as itself, wherever the next ';' (or the end) is
pub proof fn lemma_split_av(a: Av)
    requires av_ok(a)
    ensures split_av(av_text(a).skip(1)) == a
{
    let body = av_text(a).skip(1);   // " name" or " name=value"
    lemma_trim_clean(a.name);
    match a.value {
        Some(v) => {
            lemma_trim_clean(v);
            let left = seq![' '] + a.name;
            assert(body =~= left + seq!['='] + v);
            assert forall|i: int| 0 <= i < left.len() implies left[i] != '=' by {
                if i > 0 { assert(left[i] == a.name[i - 1]); assert(!holds_ch(a.name, '=')); }
            }
            lemma_find_at(body, '=', 0, left.len() as int);
            assert(body.subrange(0, left.len() as int) =~= left);
            assert(body.subrange(left.len() as int + 1, body.len() as int) =~= v);
        },
        None => {
            assert(body =~= seq![' '] + a.name);
            assert forall|i: int| 0 <= i < body.len() implies body[i] != '=' by {
                if i > 0 { assert(body[i] == a.name[i - 1]); assert(!holds_ch(a.name, '=')); }
            }
            lemma_find_none(body, '=', 0);
        },
    }
}
pub proof fn lemma_av_no_semicolon(a: Av)
    requires av_ok(a)
    ensures av_text(a)[0] == ';', forall|i: int| 1 <= i < av_text(a).len() ==> av_text(a)[i] != ';'
{
    let t = av_text(a);
    assert forall|i: int| 1 <= i < t.len() implies t[i] != ';' by {
        if i >= 2 && i < 2 + a.name.len() { assert(t[i] == a.name[i - 2]); assert(!holds_ch(a.name, ';')); }
        else if i >= 2 + a.name.len() {
            match a.value { Some(v) => { if i > 2 + a.name.len() { assert(t[i] == v[i - 3 - a.name.len()]); assert(!holds_ch(v, ';')); } }, None => {} }
        }
    }
}
pub open spec fn avs_front(l: Seq<Av>) -> Seq<char> decreases l.len() {
    if l.len() == 0 { Seq::empty() } else { av_text(l[0]) + avs_front(l.skip(1)) }
}
pub proof fn lemma_avs_front(l: Seq<Av>)
    ensures avs_text(l) == avs_front(l)
    decreases l.len()
{
    if l.len() == 0 {
    } else if l.len() == 1 {
        assert(l.drop_last() =~= Seq::<Av>::empty());
        assert(l.skip(1) =~= Seq::<Av>::empty());
        assert(avs_text(l.drop_last()) =~= Seq::<char>::empty());
        assert(avs_front(l.skip(1)) =~= Seq::<char>::empty());
        assert(l.last() == l[0]);
        assert(avs_text(l) =~= avs_front(l));
    } else {
        lemma_avs_front(l.drop_last());
        lemma_avs_front(l.skip(1));
        lemma_avs_front(l.skip(1).drop_last());
        assert(l.drop_last().skip(1) =~= l.skip(1).drop_last());
        assert(l.skip(1).last() == l.last());
        assert(l.drop_last()[0] == l[0]);
        let a = av_text(l[0]);
        let mid = avs_front(l.skip(1).drop_last());
        let z = av_text(l.last());
        assert(avs_text(l) == (a + mid) + z);
        assert(avs_front(l) == a + (mid + z));
        assert((a + mid) + z =~= a + (mid + z));
    }
}
// the attribute list as written after `pre` reads back as the same list, in order
pub proof fn lemma_parse_avs(pre: Seq<char>, l: Seq<Av>)
    requires forall|i: int| 0 <= i < l.len() ==> av_ok(#[trigger] l[i])
    ensures parse_avs(pre + avs_front(l), pre.len() as int) == l
    decreases l.len()
{
    let s = pre + avs_front(l);
    let i = pre.len() as int;
    if l.len() == 0 {
        assert(s =~= pre);
        assert(parse_avs(s, i) =~= l);
    } else {
        let a = l[0];
        let t = av_text(a);
        let rest = avs_front(l.skip(1));
        lemma_av_no_semicolon(a);
        lemma_split_av(a);
        assert(s =~= (pre + t) + rest);
        // the next ';' after position i is where the next attribute starts (or the end)
        let pt = pre + t;
        assert forall|k: int| i + 1 <= k < pt.len() implies pt[k] != ';' by { assert(pt[k] == t[k - i]); }
        lemma_find_skip(pt, rest, ';', i + 1);
        if l.len() == 1 {
            assert(l.skip(1) =~= Seq::<Av>::empty());
            assert(rest.len() == 0);
        } else {
            lemma_av_no_semicolon(l[1]);
            assert(l.skip(1)[0] == l[1]);
            assert(rest[0] == ';');
        }
        assert(find(rest, ';', 0) == 0);
        let j = pt.len() as int;
        assert(find(s, ';', i + 1) == j);
        assert(j > i);
        assert(s.subrange(i + 1, j) =~= t.skip(1));
        assert forall|k: int| 0 <= k < l.skip(1).len() implies av_ok(#[trigger] l.skip(1)[k]) by { assert(l.skip(1)[k] == l[k + 1]); }
        lemma_parse_avs(pt, l.skip(1));
        assert(seq![a] + l.skip(1) =~= l);
    }
}
// the attributes of a cookie, in the order they are written (taken from the property's list)
pub open spec fn av(name: Seq<char>, value: Option<Seq<char>>) -> Av { Av { name, value } }
pub open spec fn cl1(c: Cookie) -> Seq<Av> {
    if c.domain_().inner()@.len() != 0 { Seq::<Av>::empty().push(av(seq!['D', 'o', 'm', 'a', 'i', 'n'], Some(c.domain_().inner()@))) } else { Seq::empty() }
}
pub open spec fn cl2(c: Cookie) -> Seq<Av> {
    if !is_epoch(c.expires_()) { cl1(c).push(av(seq!['E', 'x', 'p', 'i', 'r', 'e', 's'], Some(iso_text(c.expires_())))) } else { cl1(c) }
}
pub open spec fn cl3(c: Cookie) -> Seq<Av> {
    if c.http_only_() { cl2(c).push(av(seq!['H', 't', 't', 'p', 'O', 'n', 'l', 'y'], None)) } else { cl2(c) }
}
pub open spec fn cl4(c: Cookie) -> Seq<Av> {
    if !dur_is_zero(c.max_age_()) { cl3(c).push(av(seq!['M', 'a', 'x', '-', 'A', 'g', 'e'], Some(dec_int(dur_secs(c.max_age_()) as int)))) } else { cl3(c) }
}
pub open spec fn cl5(c: Cookie) -> Seq<Av> {
    if c.path_().inner()@.len() != 0 { cl4(c).push(av(seq!['P', 'a', 't', 'h'], Some(c.path_().inner()@))) } else { cl4(c) }
}
pub open spec fn same_site_text(s: SameSite) -> Seq<char> {
    match s { SameSite::Strict => seq!['S', 't', 'r', 'i', 'c', 't'], SameSite::Lax => seq!['L', 'a', 'x'], SameSite::None => seq!['N', 'o', 'n', 'e'] }
}
pub open spec fn cl6(c: Cookie) -> Seq<Av> {
    cl5(c).push(av(seq!['S', 'a', 'm', 'e', 'S', 'i', 't', 'e'], Some(same_site_text(c.same_site_()))))
}
pub open spec fn cookie_avs(c: Cookie) -> Seq<Av> {
    if c.secure_() { cl6(c).push(av(seq!['S', 'e', 'c', 'u', 'r', 'e'], None)) } else { cl6(c) }
}
pub proof fn lemma_push_text(l: Seq<Av>, a: Av)
    ensures avs_text(l.push(a)) == avs_text(l) + av_text(a)
{
    assert(l.push(a).drop_last() =~= l);
}
// the written text is the cookie pair followed by the attribute list
pub proof fn lemma_cookie_is_list(o: Seq<char>, c: Cookie)
    ensures ck7(o, c) == ck0(o, c) + avs_text(cookie_avs(c))
{
    let b = ck0(o, c);
    assert(b + avs_text(Seq::<Av>::empty()) =~= b);
    // stage 1
    let a1 = av(seq!['D', 'o', 'm', 'a', 'i', 'n'], Some(c.domain_().inner()@));
    lemma_push_text(Seq::<Av>::empty(), a1);
    assert(av_text(a1) =~= seq![';', ' ', 'D', 'o', 'm', 'a', 'i', 'n', '='] + c.domain_().inner()@);
    lemma_assoc(b, seq![';', ' ', 'D', 'o', 'm', 'a', 'i', 'n', '='], c.domain_().inner()@);
    assert(avs_text(Seq::<Av>::empty()) + av_text(a1) =~= av_text(a1));
    assert(ck1(o, c) == b + avs_text(cl1(c)));
    // stage 2
    let a2 = av(seq!['E', 'x', 'p', 'i', 'r', 'e', 's'], Some(iso_text(c.expires_())));
    lemma_push_text(cl1(c), a2);
    assert(av_text(a2) =~= seq![';', ' ', 'E', 'x', 'p', 'i', 'r', 'e', 's', '='] + iso_text(c.expires_()));
    lemma_assoc(ck1(o, c), seq![';', ' ', 'E', 'x', 'p', 'i', 'r', 'e', 's', '='], iso_text(c.expires_()));
    lemma_assoc(b, avs_text(cl1(c)), av_text(a2));
    assert(ck2(o, c) == b + avs_text(cl2(c)));
    // stage 3
    let a3 = av(seq!['H', 't', 't', 'p', 'O', 'n', 'l', 'y'], None);
    lemma_push_text(cl2(c), a3);
    assert(av_text(a3) =~= seq![';', ' ', 'H', 't', 't', 'p', 'O', 'n', 'l', 'y']);
    lemma_assoc(b, avs_text(cl2(c)), av_text(a3));
    assert(ck3(o, c) == b + avs_text(cl3(c)));
    // stage 4
    let a4 = av(seq!['M', 'a', 'x', '-', 'A', 'g', 'e'], Some(dec_int(dur_secs(c.max_age_()) as int)));
    lemma_push_text(cl3(c), a4);
    assert(av_text(a4) =~= seq![';', ' ', 'M', 'a', 'x', '-', 'A', 'g', 'e', '='] + dec_int(dur_secs(c.max_age_()) as int));
    lemma_assoc(ck3(o, c), seq![';', ' ', 'M', 'a', 'x', '-', 'A', 'g', 'e', '='], dec_int(dur_secs(c.max_age_()) as int));
    lemma_assoc(b, avs_text(cl3(c)), av_text(a4));
    assert(ck4(o, c) == b + avs_text(cl4(c)));
    // stage 5
    let a5 = av(seq!['P', 'a', 't', 'h'], Some(c.path_().inner()@));
    lemma_push_text(cl4(c), a5);
    assert(av_text(a5) =~= seq![';', ' ', 'P', 'a', 't', 'h', '='] + c.path_().inner()@);
    lemma_assoc(ck4(o, c), seq![';', ' ', 'P', 'a', 't', 'h', '='], c.path_().inner()@);
    lemma_assoc(b, avs_text(cl4(c)), av_text(a5));
    assert(ck5(o, c) == b + avs_text(cl5(c)));
    // stage 6
    let a6 = av(seq!['S', 'a', 'm', 'e', 'S', 'i', 't', 'e'], Some(same_site_text(c.same_site_())));
    lemma_push_text(cl5(c), a6);
    assert(av_text(a6) =~= match c.same_site_() {
        SameSite::Strict => seq![';', ' ', 'S', 'a', 'm', 'e', 'S', 'i', 't', 'e', '=', 'S', 't', 'r', 'i', 'c', 't'],
        SameSite::Lax => seq![';', ' ', 'S', 'a', 'm', 'e', 'S', 'i', 't', 'e', '=', 'L', 'a', 'x'],
        SameSite::None => seq![';', ' ', 'S', 'a', 'm', 'e', 'S', 'i', 't', 'e', '=', 'N', 'o', 'n', 'e'],
    });
    lemma_assoc(b, avs_text(cl5(c)), av_text(a6));
    assert(ck6(o, c) == b + avs_text(cl6(c)));
    // stage 7
    let a7 = av(seq!['S', 'e', 'c', 'u', 'r', 'e'], None);
    lemma_push_text(cl6(c), a7);
    assert(av_text(a7) =~= seq![';', ' ', 'S', 'e', 'c', 'u', 'r', 'e']);
    lemma_assoc(b, avs_text(cl6(c)), av_text(a7));
}
// what the property assumes of the application's inputs: RFC-valid name, value and attribute characters
pub open spec fn cookie_ok(c: Cookie) -> bool {
    &&& c.name_().inner()@.len() > 0 && name_ok(c.name_().inner()@)
    &&& value_ok(c.value_().inner()@)
    &&& value_ok(c.domain_().inner()@) && value_ok(c.path_().inner()@)
    &&& value_ok(iso_text(c.expires_()))
}
pub proof fn lemma_digits_ok(v: int)
    requires v >= 0
    ensures value_ok(dec_int(v))
{
    axiom_dec_int(v);
    let d = dec_int(v);
    assert forall|i: int| 0 <= i < d.len() implies d[i] != ';' && !is_wsp(d[i]) by { assert(is_digit(d[i])); }
}
pub proof fn lemma_avs_ok(c: Cookie)
    requires cookie_ok(c)
    ensures forall|i: int| 0 <= i < cookie_avs(c).len() ==> av_ok(#[trigger] cookie_avs(c)[i])
{
    lemma_digits_ok(dur_secs(c.max_age_()) as int);
    assert(av_ok(av(seq!['D', 'o', 'm', 'a', 'i', 'n'], Some(c.domain_().inner()@))));
    assert(av_ok(av(seq!['E', 'x', 'p', 'i', 'r', 'e', 's'], Some(iso_text(c.expires_())))));
    assert(av_ok(av(seq!['H', 't', 't', 'p', 'O', 'n', 'l', 'y'], None)));
    assert(av_ok(av(seq!['M', 'a', 'x', '-', 'A', 'g', 'e'], Some(dec_int(dur_secs(c.max_age_()) as int)))));
    assert(av_ok(av(seq!['P', 'a', 't', 'h'], Some(c.path_().inner()@))));
    assert(av_ok(av(seq!['S', 'a', 'm', 'e', 'S', 'i', 't', 'e'], Some(same_site_text(c.same_site_())))));
    assert(av_ok(av(seq!['S', 'e', 'c', 'u', 'r', 'e'], None)));
}
// RFC 6265 5.2 on the one Set-Cookie value written for a cookie: the name, the value and every attribute read back
pub proof fn thm_cookie_reads_back(c: Cookie)
    requires cookie_ok(c)
    ensures
        c15(parse_pair(cookie_text(c)) == Some((c.name_().inner()@, c.value_().inner()@))),
        c15(parse_avs(cookie_text(c), find(cookie_text(c), ';', 0)) == cookie_avs(c)),
{
    let e = Seq::<char>::empty();
    let name = c.name_().inner()@;
    let value = c.value_().inner()@;
    let nv = ck0(e, c);
    assert(nv =~= name + seq!['='] + value);
    lemma_cookie_is_list(e, c);
    lemma_avs_front(cookie_avs(c));
    lemma_avs_ok(c);
    let rest = avs_front(cookie_avs(c));
    let s = cookie_text(c);
    assert(s == nv + rest);
    // no ';' in the pair; the attribute text is empty or starts with ';'
    assert forall|i: int| 0 <= i < nv.len() implies nv[i] != ';' by {
        if i < name.len() { assert(nv[i] == name[i]); assert(!holds_ch(name, ';')); }
        else if i > name.len() { assert(nv[i] == value[i - name.len() - 1]); assert(!holds_ch(value, ';')); }
    }
    lemma_find_skip(nv, rest, ';', 0);
    if cookie_avs(c).len() > 0 { lemma_av_no_semicolon(cookie_avs(c)[0]); assert(rest[0] == ';'); }
    assert(find(rest, ';', 0) == 0);
    assert(find(s, ';', 0) == nv.len());
    lemma_parse_avs(nv, cookie_avs(c));
    // the pair splits at the first '=' (none in the name)
    assert(s.subrange(0, nv.len() as int) =~= nv);
    assert forall|i: int| 0 <= i < name.len() implies nv[i] != '=' by { assert(nv[i] == name[i]); assert(!holds_ch(name, '=')); }
    lemma_find_at(nv, '=', 0, name.len() as int);
    assert(nv.subrange(0, name.len() as int) =~= name);
    assert(nv.subrange(name.len() as int + 1, nv.len() as int) =~= value);
    lemma_trim_clean(name);
    lemma_trim_clean(value);
}
// ---- the header value built from a cookie is pure ASCII (so with_set_cookie cannot panic) and is the cookie text
pub open spec fn cookie_ascii(c: Cookie) -> bool {
    ascii(c.name_()) && ascii(c.value_()) && ascii(c.domain_()) && ascii(c.path_()) && vstd::utf8::is_ascii_chars(iso_text(c.expires_()))
}
pub proof fn lemma_ascii_add(a: Seq<char>, b: Seq<char>)
    requires vstd::utf8::is_ascii_chars(a), vstd::utf8::is_ascii_chars(b)
    ensures vstd::utf8::is_ascii_chars(a + b)
{
    assert forall|i: int| 0 <= i < (a + b).len() implies 0 <= (#[trigger] (a + b)[i] as nat) < 128 by {
        if i < a.len() { assert((a + b)[i] == a[i]); } else { assert((a + b)[i] == b[i - a.len()]); }
    }
}
pub proof fn lemma_cookie_ascii(c: Cookie)
    requires cookie_ascii(c)
    ensures vstd::utf8::is_ascii_chars(cookie_text(c))
{
    let e = Seq::<char>::empty();
    axiom_dec_int(dur_secs(c.max_age_()) as int);
    let d = dec_int(dur_secs(c.max_age_()) as int);
    assert(vstd::utf8::is_ascii_chars(d)) by { assert forall|i: int| 0 <= i < d.len() implies 0 <= (#[trigger] d[i] as nat) < 128 by { assert(is_digit(d[i])); } }
    lemma_ascii_add(e, c.name_().inner()@);
    lemma_ascii_add(e + c.name_().inner()@, seq!['=']);
    lemma_ascii_add(e + c.name_().inner()@ + seq!['='], c.value_().inner()@);
    lemma_ascii_add(ck0(e, c), seq![';', ' ', 'D', 'o', 'm', 'a', 'i', 'n', '=']);
    lemma_ascii_add(ck0(e, c) + seq![';', ' ', 'D', 'o', 'm', 'a', 'i', 'n', '='], c.domain_().inner()@);
    lemma_ascii_add(ck1(e, c), seq![';', ' ', 'E', 'x', 'p', 'i', 'r', 'e', 's', '=']);
    lemma_ascii_add(ck1(e, c) + seq![';', ' ', 'E', 'x', 'p', 'i', 'r', 'e', 's', '='], iso_text(c.expires_()));
    lemma_ascii_add(ck2(e, c), seq![';', ' ', 'H', 't', 't', 'p', 'O', 'n', 'l', 'y']);
    lemma_ascii_add(ck3(e, c), seq![';', ' ', 'M', 'a', 'x', '-', 'A', 'g', 'e', '=']);
    lemma_ascii_add(ck3(e, c) + seq![';', ' ', 'M', 'a', 'x', '-', 'A', 'g', 'e', '='], d);
    lemma_ascii_add(ck4(e, c), seq![';', ' ', 'P', 'a', 't', 'h', '=']);
    lemma_ascii_add(ck4(e, c) + seq![';', ' ', 'P', 'a', 't', 'h', '='], c.path_().inner()@);
    lemma_ascii_add(ck5(e, c), seq![';', ' ', 'S', 'a', 'm', 'e', 'S', 'i', 't', 'e', '=', 'S', 't', 'r', 'i', 'c', 't']);
    lemma_ascii_add(ck5(e, c), seq![';', ' ', 'S', 'a', 'm', 'e', 'S', 'i', 't', 'e', '=', 'L', 'a', 'x']);
    lemma_ascii_add(ck5(e, c), seq![';', ' ', 'S', 'a', 'm', 'e', 'S', 'i', 't', 'e', '=', 'N', 'o', 'n', 'e']);
    lemma_ascii_add(ck6(e, c), seq![';', ' ', 'S', 'e', 'c', 'u', 'r', 'e']);
}
// vacuity canary -- must FAIL
fn canary_cookie(c: &Cookie, f: &mut Formatter<'_>)
    requires cookie_ok(*c)
{
    let r = c.fmt(f);
    proof { thm_cookie_reads_back(*c); }
    assert(false);
}
