// vacuity canary: must fail
proof fn canary_errresp() { assert(false); }
