// io::ErrorKind as an opaque type (units without io.pre.rs)
use std::io::ErrorKind;
#[verifier::external_type_specification]
#[verifier::external_body]
pub struct ExErrorKind(std::io::ErrorKind);
