// Partition independence (C01): two runs over the same buffer contents whose consumed bytes are both
// prefixes of one stream `t` -- the whole of it whenever the run ended on end-of-stream / error --
// agree on the outcome and on the number of bytes consumed up to the end of the head.
#[verifier::spinoff_prover]
pub proof fn thm_partition_independent<const N: usize>(pre: FixedBuf<N>, t: Seq<u8>,
        post1: FixedBuf<N>, evs1: Seq<Ev>, r1: Result<Head, HttpError>,
        post2: FixedBuf<N>, evs2: Seq<Ev>, r2: Result<Head, HttpError>)
    requires
        pre.wf(), pre.ri() == 0,
        head_post(pre, post1, evs1, r1), head_post(pre, post2, evs2, r2),
        (pre.rd() + bytes_of(evs1)).is_prefix_of(t), (pre.rd() + bytes_of(evs2)).is_prefix_of(t),
        (pre.rd() + bytes_of(evs1)).len() <= N, (pre.rd() + bytes_of(evs2)).len() <= N,
        (evs1.len() > 0 && !(evs1.last() is Data)) ==> pre.rd() + bytes_of(evs1) == t,
        (evs2.len() > 0 && !(evs2.last() is Data)) ==> pre.rd() + bytes_of(evs2) == t,
        post1.wf(), post2.wf(), post1.ri() == 0, post2.ri() == 0,   // (nothing consumed unless a head was found)
    ensures
        r1 == r2,
{
    let a1 = pre.rd() + bytes_of(evs1);
    let a2 = pre.rd() + bytes_of(evs2);
    if has_delim(a1) { lemma_fd_prefix(a1, t); }
    if has_delim(a2) { lemma_fd_prefix(a2, t); }
    // if one run saw a delimiter and the other did not, the other's bytes are a prefix of t that
    // is at least as long as the first delimiter's end or it ended the stream early -- both impossible
    if has_delim(a1) && !has_delim(a2) { lemma_delim_in_longer(a1, a2, t); }
    if has_delim(a2) && !has_delim(a1) { lemma_delim_in_longer(a2, a1, t); }
    if has_delim(a1) && has_delim(a2) {
        lemma_fd_is_first(a1); lemma_fd_is_first(a2);
        assert(a1.subrange(0, fd(a1)) =~= t.subrange(0, fd(t)));
        assert(a2.subrange(0, fd(a2)) =~= t.subrange(0, fd(t)));
    }
}
// a prefix `b` of t without delimiter is strictly shorter than the end of t's first delimiter
#[verifier::spinoff_prover]
pub proof fn lemma_delim_in_longer(a: Seq<u8>, b: Seq<u8>, t: Seq<u8>)
    requires has_delim(a), a.is_prefix_of(t), b.is_prefix_of(t), !has_delim(b)
    ensures b.len() < fd(t) + 4, fd(t) + 4 <= a.len()
{
    lemma_fd_prefix(a, t);
    let p = fd(t);
    lemma_least(a, choose|q: int| occurs_at(delim(), a, q));
    assert(first_occ(delim(), a, fd(a)));
    if b.len() >= p + 4 {
        assert(b.subrange(p, p + 4) =~= t.subrange(p, p + 4));
        assert(a.subrange(p, p + 4) =~= t.subrange(p, p + 4));
        assert(occurs_at(delim(), b, p));
    }
}

// vacuity canary -- must FAIL
fn canary_head<R: AsyncRead>(buf: &mut FixedBuf<64>, mut r: R)
    requires old(buf).wf()
{
    broadcast use reader_resolved, seq_events;
    let h = Head::try_read(buf);
    let w = buf.writable();
    let mut b = [0u8; 4];
    let x = r.read(&mut b);
    buf.shift();
    let e = buf.is_empty();
    assert(false);
}
