use vstd::prelude::*;
verus! {
pub struct S { pub ghost w: Seq<u8> }
pub trait Sink {
    spec fn written(&self) -> Seq<u8>;
    fn put(&mut self, x: u8)
        ensures final(self).written() == old(self).written().push(x);
}
impl Sink for S {
    open spec fn written(&self) -> Seq<u8> { self.w }
    #[verifier::external_body]
    fn put(&mut self, x: u8) { unimplemented!() }
}
pub trait AW: Sized {
    spec fn cur(&self) -> Seq<u8>;
    #[verifier::prophetic]
    spec fn end(&self) -> Seq<u8>;
    proof fn resolved(&self)
        requires has_resolved(*self)
        ensures self.cur() == self.end();
    fn put(&mut self, x: u8)
        ensures final(self).cur() == old(self).cur().push(x), final(self).end() == old(self).end();
}
impl<T: Sink> AW for &mut T {
    open spec fn cur(&self) -> Seq<u8> { (**self).written() }
    #[verifier::prophetic]
    open spec fn end(&self) -> Seq<u8> { mut_ref_future(*self).written() }
    proof fn resolved(&self) {}
    fn put(&mut self, x: u8) { (**self).put(x) }
}
fn gen<W: AW>(mut w: W) 
  ensures w.end() == w.cur().push(1u8).push(2u8)
{
    w.put(1);
    w.put(2);
    proof { w.resolved(); }
}
fn caller(s: &mut S) 
  ensures final(s).w == old(s).w.push(1u8).push(2u8)
{
    gen(&mut *s);
}
}
fn main() {}
