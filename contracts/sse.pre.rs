// ---- unit sse (C11): Server-Sent-Events encoder of src/event.rs
// `&mut [u8]` used as std::io::Write (rule S1 stand-in for the parameter type `mut buf: &mut [u8]`; assumed, from
// std's `impl Write for &mut [u8]`: bytes are copied to the front of the slice, the slice is advanced past them,
// a write that does not fit fails with WriteZero).  `out()` is the text whose UTF-8 form has been copied so far,
// `frame()` the length of the slice as it was handed over; `len()` is what is left.
#[verifier::external_body]
pub struct SliceSink { _p: () }
impl Write for SliceSink {
    type E = std::io::Error;
    uninterp spec fn out(&self) -> Seq<char>;
    uninterp spec fn frame(&self) -> int;
}
impl SliceSink {
    #[verifier::external_body]
    pub fn len(&self) -> (n: usize)
        ensures n as int + utf8_len(self.out()) == self.frame()
    { unimplemented!() }
}
// ---- the byte level, for an event that is larger than the window and is delivered in pieces (EventReceiver's second field):
// `raw()` is what a raw copy put at the front of the slice (rule S1: `buf[..n].copy_from_slice(&v[..n])` -> put_front);
// utf8(s) is the UTF-8 form of a text (uninterpreted; its length is utf8_len)
impl SliceSink {
    pub uninterp spec fn raw(&self) -> Seq<u8>;
    // the length of the whole slice as it was handed over (`buf.len()` of a slice nobody advanced)
    #[verifier::external_body]
    pub fn capacity(&self) -> (n: usize) ensures n as int == self.frame() { unimplemented!() }
    #[verifier::external_body]
    pub fn put_front(&mut self, src: &Vec<u8>, n: usize)
        requires n <= src@.len(), n <= old(self).frame()
        ensures final(self).raw() == src@.take(n as int), final(self).frame() == old(self).frame()
    { unimplemented!() }
}
pub uninterp spec fn utf8(s: Seq<char>) -> Seq<u8>;
#[verifier::external_body]
pub broadcast proof fn axiom_utf8_length(s: Seq<char>)
    ensures #[trigger] utf8(s).len() == utf8_len(s)
{}
// rule S1 stand-ins for `a.min(b)` on usize and `v.drain(..n)` (assumed meanings)
#[verifier::external_body]
pub fn min_usize(a: usize, b: usize) -> (r: usize) ensures r == (if a <= b { a } else { b }) { unimplemented!() }
#[verifier::external_body]
pub fn drop_front(v: &mut Vec<u8>, n: usize)
    requires n <= old(v)@.len()
    ensures final(v)@ == old(v)@.skip(n as int)
{ unimplemented!() }
// length of the UTF-8 form of a text (assumed: additive, at least one byte per character)
pub uninterp spec fn utf8_len(s: Seq<char>) -> nat;
#[verifier::external_body]
pub broadcast proof fn axiom_utf8_len_add(a: Seq<char>, b: Seq<char>)
    ensures #[trigger] utf8_len(a + b) == utf8_len(a) + utf8_len(b)
{}
#[verifier::external_body]
pub broadcast proof fn axiom_utf8_len_ge(a: Seq<char>)
    ensures #[trigger] utf8_len(a) >= a.len()
{}

// ---- line ends as an EventSource parser sees them: CRLF, LF, CR
pub open spec fn is_eol(c: char) -> bool { c == '\r' || c == '\n' }
pub open spec fn no_eol(s: Seq<char>) -> bool { forall|i: int| 0 <= i < s.len() ==> !is_eol(#[trigger] s[i]) }
// index of the first line-end character, or the length
pub open spec fn first_eol(s: Seq<char>) -> int decreases s.len() {
    if s.len() == 0 { 0 } else if is_eol(s[0]) { 0 } else { 1 + first_eol(s.skip(1)) }
}
// width of the line end that starts at i
pub open spec fn eol_width(s: Seq<char>, i: int) -> int {
    if s[i] == '\r' && i + 1 < s.len() && s[i + 1] == '\n' { 2 } else { 1 }
}
// the lines of a text: at least one; a text that ends with a line end has an empty last line
pub open spec fn lines_of(s: Seq<char>) -> Seq<Seq<char>> decreases s.len() {
    let i = first_eol(s);
    if 0 <= i < s.len() { seq![s.take(i)] + lines_of(s.skip(i + eol_width(s, i))) } else { seq![s] }
}
pub proof fn lemma_first_eol(s: Seq<char>)
    ensures 0 <= first_eol(s) <= s.len(), no_eol(s.take(first_eol(s))), first_eol(s) < s.len() ==> is_eol(s[first_eol(s)]),
    decreases s.len()
{
    if s.len() > 0 && !is_eol(s[0]) {
        lemma_first_eol(s.skip(1));
        let i = first_eol(s);
        assert forall|k: int| 0 <= k < i implies !is_eol(#[trigger] s.take(i)[k]) by {
            if k > 0 { assert(s.take(i)[k] == s.skip(1).take(i - 1)[k - 1]); }
        }
    }
}
// rule S1 stand-in for `data.replace("\r\n", "\n").split(|c| c == '\n' || c == '\r')` (assumed; compared with the real
// expression on every data string over {a : SP CR LF e-acute} up to length 5 by the stand-in c11): the lines of the data
#[verifier::external_body]
pub fn sse_lines(data: &String) -> (r: Vec<String>)
    ensures r@.len() == lines_of(data@).len(),
        forall|i: int| 0 <= i < r@.len() ==> (#[trigger] r@[i])@ == lines_of(data@)[i],
{ unimplemented!() }

// ---- what an event is written as
pub open spec fn lit_event() -> Seq<char> { seq!['e', 'v', 'e', 'n', 't', ':', ' '] }
pub open spec fn lit_data() -> Seq<char> { seq!['d', 'a', 't', 'a', ':', ' '] }
pub open spec fn lf() -> Seq<char> { seq!['\n'] }
pub open spec fn data_fields(ls: Seq<Seq<char>>) -> Seq<char> decreases ls.len() {
    if ls.len() == 0 { Seq::empty() } else { data_fields(ls.drop_last()) + (lit_data() + ls.last() + lf()) }
}
pub open spec fn ev_type(e: Event) -> Option<Seq<char>> { match e { Event::Message(_) => None, Event::Custom(t, _) => Some(t@) } }
pub open spec fn ev_data(e: Event) -> Seq<char> { match e { Event::Message(d) => d@, Event::Custom(_, d) => d@ } }
pub open spec fn type_field(e: Event) -> Seq<char> { match ev_type(e) { None => Seq::empty(), Some(t) => lit_event() + t + lf() } }
pub open spec fn enc(e: Event) -> Seq<char> { type_field(e) + data_fields(lines_of(ev_data(e))) }

// ---- std / crate functions used by Event::custom (assumed)
#[verifier::external_trait_specification]
pub trait ExAsRef<T: core::marker::PointeeSized>: core::marker::PointeeSized {
    type ExternalTraitSpecificationFor: core::convert::AsRef<T>;
    fn as_ref(&self) -> (r: &T) ensures r == asref_spec::<Self, T>(self);
}
pub uninterp spec fn asref_spec<S: core::marker::PointeeSized, T: core::marker::PointeeSized>(s: &S) -> &T;
// rule S1 stand-in for `str::contains(char)` (Verus has no specification for the Pattern-generic method)
#[verifier::external_body]
pub fn str_has_char(s: &str, c: char) -> (r: bool)
    ensures r == s@.contains(c)
{ unimplemented!() }
// rule R5: format!(..) is replaced by a call of this opaque function (the text of an error message is never constrained)
#[verifier::external_body]
pub fn verif_fmt() -> String { unimplemented!() }
#[verifier::external_body]
pub fn escape_and_elide(input: &[u8], max_len: usize) -> String { unimplemented!() }
// the queue between senders and the response writer (safina::sync; assumed: try_send never blocks)
#[verifier::external_body]
#[verifier::reject_recursive_types(T)]
pub struct SyncSender<T> { _p: core::marker::PhantomData<T> }
#[verifier::external_body]
pub struct TrySendError { _p: () }
// whether the queue takes the value (room left, receiver alive): decided outside this unit
pub uninterp spec fn queue_takes<T>(s: SyncSender<T>, v: T) -> bool;
impl<T> SyncSender<T> {
    #[verifier::external_body]
    pub fn try_send(&self, value: T) -> (r: Result<(), TrySendError>)
        ensures r is Ok <==> queue_takes(*self, value)
    { unimplemented!() }
}
// ---- the receiving end as the body writer polls it (EventReceiver::poll_read).  Rule S1 stand-ins: `mut self: Pin<&mut Self>`
// -> `&mut self` (EventReceiver is Unpin: the pin only forwards), `Pin::new(&mut self.0).poll(cx)` -> `recv_poll(&mut self.0, cx)`,
// `futures_io::AsyncRead` -> the one-method trait below (with the byte slice as SliceSink).
#[verifier::external_body]
pub struct Context<'a> { _p: core::marker::PhantomData<&'a u8> }
#[verifier::external_body]
pub struct RecvError { _p: () }
#[verifier::external_body]
#[verifier::reject_recursive_types(T)]
pub struct Receiver<T> { _p: core::marker::PhantomData<T> }
pub enum Poll<T> { Ready(T), Pending }
// what the queue answered to the latest poll (ghost): Ready(Err) means every sender is gone and the queue is empty
pub uninterp spec fn last_poll<T>(q: Receiver<T>) -> Poll<Result<T, RecvError>>;
#[verifier::external_body]
pub fn recv_poll<T>(q: &mut Receiver<T>, cx: &mut Context<'_>) -> (r: Poll<Result<T, RecvError>>)
    ensures r == last_poll(*final(q))
{ unimplemented!() }
// ---- Event::push_to (src/event.rs) at the byte level.  Rule R9 expands `write!(buf, LIT, args..).unwrap()` on the Vec<u8> into the
// calls below (assumed meaning of std's formatting: the literal pieces and the arguments' Display output -- for a string its
// UTF-8 form, `utf8` -- appended in order; writing to a Vec cannot fail); the literal pieces are the constants vlit_<hex>()
// generated from the literal tokens
pub trait VDisp { spec fn disp(&self) -> Seq<u8>; }
impl<'a> VDisp for &'a str { open spec fn disp(&self) -> Seq<u8> { utf8(self@) } }
impl VDisp for String { open spec fn disp(&self) -> Seq<u8> { utf8(self@) } }
impl<'a> VDisp for &'a String { open spec fn disp(&self) -> Seq<u8> { utf8(self@) } }
#[verifier::external_body]
pub fn vw_lit(v: &mut Vec<u8>, lit: &str, Ghost(b): Ghost<Seq<u8>>)
    ensures final(v)@ == old(v)@ + b
{ unimplemented!() }
#[verifier::external_body]
pub fn vw_arg<T: VDisp>(v: &mut Vec<u8>, x: &T)
    ensures final(v)@ == old(v)@ + x.disp()
{ unimplemented!() }
// (rule R9 also expands the format! of Event::custom's error text: its content stays unspecified)
#[verifier::external_body]
pub fn vf_new() -> String { unimplemented!() }
#[verifier::external_body]
pub fn vf_lit(s: &mut String, lit: &str, Ghost(b): Ghost<Seq<u8>>) { unimplemented!() }
#[verifier::external_body]
pub fn vf_arg<T: VDisp>(s: &mut String, x: &T) { unimplemented!() }
// the block as bytes: `event: ` utf8(T) LF iff typed, then `data: ` utf8(L) LF per line -- the byte form of enc(e), piece by piece
pub open spec fn data_fields_b(ls: Seq<Seq<char>>) -> Seq<u8> decreases ls.len() {
    if ls.len() == 0 { Seq::empty() } else { data_fields_b(ls.drop_last()) + (vlit_646174613a20() + utf8(ls.last()) + vlit_0a()) }
}
pub open spec fn type_field_b(e: Event) -> Seq<u8> { match ev_type(e) { None => Seq::empty(), Some(t) => vlit_6576656e743a20() + utf8(t) + vlit_0a() } }
pub open spec fn delivered_form(e: Event) -> Seq<u8> { type_field_b(e) + data_fields_b(lines_of(ev_data(e))) }
pub trait SseRead {
    spec fn polled(&self) -> Poll<Result<Event, RecvError>>;
    // the bytes of an event that did not fit the previous window and are still to be delivered
    spec fn waiting(&self) -> Seq<u8>;
    fn poll_read(&mut self, cx: &mut Context<'_>, buf: &mut SliceSink) -> (r: Poll<Result<usize, std::io::Error>>)
        requires old(buf).out() =~= Seq::<char>::empty(), old(buf).frame() > 0
        ensures
            // while part of an event is waiting, the queue is left alone and the next piece is delivered: as much as fits, in order,
            // the rest keeps waiting -- never a 0-byte read
            c11(old(self).waiting().len() > 0 ==> (r matches Poll::Ready(Ok(n)) && n > 0 && n <= old(self).waiting().len()
                && final(buf).raw() == old(self).waiting().take(n as int) && final(self).waiting() == old(self).waiting().skip(n as int))),
            // otherwise: the end of the stream (a 0-byte read) is reported when, and only when, the queue says every sender is gone
            c11(old(self).waiting().len() == 0 ==> ((r matches Poll::Ready(Ok(n)) && n == 0) <==> (final(self).polled() matches Poll::Ready(Err(_))))),
            c11(old(self).waiting().len() == 0 ==> (r is Pending <==> final(self).polled() is Pending)),
            // an event that was received is handed on: as its whole block if that fits the window, else its first bytes now and
            // the rest waiting -- it is never refused for its size
            c11(old(self).waiting().len() == 0 ==> (final(self).polled() matches Poll::Ready(Ok(ev)) ==> (r matches Poll::Ready(Ok(n)) && n > 0 && (
                ((final(buf).out() == enc(ev) || final(buf).out() == enc(ev) + lf()) && n == utf8_len(final(buf).out()) && final(self).waiting().len() == 0)
                || (n <= delivered_form(ev).len() && final(buf).raw() == delivered_form(ev).take(n as int) && final(self).waiting() == delivered_form(ev).skip(n as int)))))),
    ;
}

// ---- the blocking form (impl std::io::Read for EventReceiver; not used by the server).  Rule S1 stand-ins: `Read` -> the one-method
// trait below, `self.0.recv()` -> recv_block(&mut self.0) (blocks until an event arrives or every sender is gone: its answer is
// the uninterpreted last_recv)
pub uninterp spec fn last_recv<T>(q: Receiver<T>) -> Result<T, RecvError>;
#[verifier::external_body]
pub fn recv_block<T>(q: &mut Receiver<T>) -> (r: Result<T, RecvError>)
    ensures r == last_recv(*final(q))
{ unimplemented!() }
pub trait SseBlockingRead {
    spec fn received(&self) -> Result<Event, RecvError>;
    spec fn waiting_b(&self) -> Seq<u8>;
    fn read(&mut self, buf: &mut SliceSink) -> (r: Result<usize, std::io::Error>)
        requires old(buf).out() =~= Seq::<char>::empty(), old(buf).frame() > 0
        ensures
            r is Ok,
            // a waiting rest goes first, without asking the queue; otherwise 0 bytes exactly when every sender is gone, and a received
            // event is delivered whole or as its first bytes with the rest left waiting
            c11(old(self).waiting_b().len() > 0 ==> (r->Ok_0 > 0 && r->Ok_0 <= old(self).waiting_b().len()
                && final(buf).raw() == old(self).waiting_b().take(r->Ok_0 as int) && final(self).waiting_b() == old(self).waiting_b().skip(r->Ok_0 as int))),
            c11(old(self).waiting_b().len() == 0 ==> (r->Ok_0 == 0 <==> final(self).received() is Err)),
            c11(old(self).waiting_b().len() == 0 ==> (final(self).received() matches Ok(ev) ==> (
                ((final(buf).out() == enc(ev) || final(buf).out() == enc(ev) + lf()) && r->Ok_0 == utf8_len(final(buf).out()) && final(self).waiting_b().len() == 0)
                || (r->Ok_0 <= delivered_form(ev).len() && final(buf).raw() == delivered_form(ev).take(r->Ok_0 as int) && final(self).waiting_b() == delivered_form(ev).skip(r->Ok_0 as int))))),
    ;
}
