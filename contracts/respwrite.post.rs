// vacuity canary: must fail
proof fn canary_respwrite() { assert(false); }
