use std::ops::Add;
use std::time::Duration;
// Oracle: the proleptic Gregorian calendar, written from its definition (not from time.rs).
pub open spec fn is_leap(y: int) -> bool { y % 400 == 0 || (y % 100 != 0 && y % 4 == 0) }
pub open spec fn ylen(y: int) -> int { if is_leap(y) { 366 } else { 365 } }
pub open spec fn mlen(y: int, m: int) -> int {
    if m == 2 { if is_leap(y) { 29 } else { 28 } }
    else if m == 4 || m == 6 || m == 9 || m == 11 { 30 } else { 31 }
}
// days before month m in year y
pub open spec fn dbm(y: int, m: int) -> int decreases m {
    if m <= 1 { 0 } else { dbm(y, m - 1) + mlen(y, m - 1) }
}
// leap years in [1, y)
pub open spec fn leaps(y: int) -> int { (y - 1) / 4 - (y - 1) / 100 + (y - 1) / 400 }
// days from 1970-01-01 to y-01-01
pub open spec fn dby(y: int) -> int { 365 * (y - 1970) + leaps(y) - leaps(1970) }
// normalised year / month of a DateTime whose month field may exceed 12
pub open spec fn ny(dt: DateTime) -> int { dt.year + (dt.month - 1) / 12 }
pub open spec fn nm(dt: DateTime) -> int { (dt.month - 1) % 12 + 1 }
// days since the epoch / seconds since the epoch denoted by the (possibly unbalanced) fields
pub open spec fn days(dt: DateTime) -> int { dby(ny(dt)) + dbm(ny(dt), nm(dt)) + dt.day - 1 }
pub open spec fn secs(dt: DateTime) -> int { ((days(dt) * 24 + dt.hour) * 60 + dt.min) * 60 + dt.sec }
pub open spec fn bounded(dt: DateTime, b: int) -> bool {
    1970 <= dt.year <= b && 1 <= dt.month <= b
    && 1 <= dt.day <= b && 0 <= dt.hour <= b
    && 0 <= dt.min <= b && 0 <= dt.sec <= b
}
pub open spec fn valid_ymd(dt: DateTime) -> bool {
    1 <= dt.month <= 12 && 1 <= dt.day <= mlen(dt.year as int, dt.month as int)
}
pub open spec fn valid(dt: DateTime) -> bool {
    dt.year >= 1970 && valid_ymd(dt) && 0 <= dt.hour < 24 && 0 <= dt.min < 60 && 0 <= dt.sec < 60
}
// std::time::Duration: only as_secs is used by the code under contract (assumed contract).
// (vstd already declares the external type std::time::Duration)
pub uninterp spec fn dur_secs(d: std::time::Duration) -> int;
pub assume_specification[ std::time::Duration::as_secs ](d: &std::time::Duration) -> (r: u64)
    ensures r == dur_secs(*d);


