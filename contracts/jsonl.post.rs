// ---- the reading side, written from RFC 8259 section 7 (independent of the encoder)
pub open spec fn hexv(c: char) -> Option<int> {
    let n = c as u32 as int;
    if 48 <= n <= 57 { Some(n - 48) } else if 97 <= n <= 102 { Some(n - 87) } else if 65 <= n <= 70 { Some(n - 55) } else { None }
}
pub open spec fn cons(c: char, r: Option<(Seq<char>, int)>) -> Option<(Seq<char>, int)> {
    match r { Some((s, j)) => Some((seq![c] + s, j)), None => None }
}
pub open spec fn simple_escape(e: char) -> Option<char> {
    if e == '"' { Some('"') } else if e == '\\' { Some('\\') } else if e == '/' { Some('/') } else if e == 'b' { Some(8u8 as char) }
    else if e == 'f' { Some(12u8 as char) } else if e == 'n' { Some('\n') } else if e == 'r' { Some('\r') } else if e == 't' { Some('\t') } else { None }
}
// t[i..] is what follows an opening quote: the decoded characters and the index just after the closing quote
pub open spec fn dec(t: Seq<char>, i: int) -> Option<(Seq<char>, int)>
    decreases t.len() - i
{
    if i < 0 || i >= t.len() { None }
    else if t[i] == '"' { Some((Seq::empty(), i + 1)) }
    else if t[i] == '\\' {
        if i + 1 >= t.len() { None }
        else if t[i + 1] == 'u' {
            if i + 5 >= t.len() { None }
            else {
                match (hexv(t[i + 2]), hexv(t[i + 3]), hexv(t[i + 4]), hexv(t[i + 5])) {
                    (Some(a), Some(b), Some(c), Some(d)) => {
                        let cp = a * 4096 + b * 256 + c * 16 + d;
                        // (surrogate escapes: the pairing rule is not needed here, they are refused)
                        if 0xD800 <= cp < 0xE000 { None } else { cons(cp as char, dec(t, i + 6)) }
                    },
                    _ => None,
                }
            }
        } else {
            match simple_escape(t[i + 1]) { Some(ch) => cons(ch, dec(t, i + 2)), None => None }
        }
    }
    else if (t[i] as u32) < 0x20 { None }
    else { cons(t[i], dec(t, i + 1)) }
}

pub proof fn lemma_esc_front(s: Seq<char>)
    requires s.len() > 0
    ensures esc_all(s) == esc(s[0]) + esc_all(s.skip(1))
    decreases s.len()
{
    if s.len() == 1 {
        assert(s.drop_last() =~= Seq::<char>::empty());
        assert(s.skip(1) =~= Seq::<char>::empty());
        assert(esc_all(s) =~= esc(s[0]) + esc_all(s.skip(1)));
    } else {
        lemma_esc_front(s.drop_last());
        assert(s.drop_last().skip(1) =~= s.skip(1).drop_last());
        assert(s.skip(1).last() == s.last());
        assert(s.drop_last()[0] == s[0]);
        assert(esc_all(s) =~= esc(s[0]) + esc_all(s.skip(1)));
    }
}
pub proof fn lemma_hex(d: int)
    requires 0 <= d < 16
    ensures hexv(hexc(d)) == Some(d), hexv('0') == Some(0int), hexv('1') == Some(1int)
{}
// one decoding step undoes one encoding step
pub proof fn lemma_dec_step(t: Seq<char>, i: int, c: char)
    requires 0 <= i, i + esc(c).len() < t.len(), forall|k: int| 0 <= k < esc(c).len() ==> t[i + k] == #[trigger] esc(c)[k],
    ensures dec(t, i) == cons(c, dec(t, i + esc(c).len()))
{
    let e = esc(c);
    let n = c as u32;
    assert(t[i] == e[0]);
    if c == '"' || c == '\\' || c == '\n' || c == '\r' || c == '\t' {
        assert(t[i + 1] == e[1]);
    } else if n < 0x20 {
        lemma_hex((n % 16) as int);
        assert(t[i + 1] == e[1] && t[i + 2] == e[2] && t[i + 3] == e[3] && t[i + 4] == e[4] && t[i + 5] == e[5]);
        let cp = (if n < 0x10 { 0int } else { 1int }) * 16 + (n % 16) as int;
        assert(cp == n);
        assert(cp as char == c);
    } else {
    }
}
// the string ends exactly at its own closing quote, whatever follows, and reads back as s
pub proof fn lemma_dec_esc(pre: Seq<char>, s: Seq<char>, rest: Seq<char>)
    ensures dec(pre + esc_all(s) + seq!['"'] + rest, pre.len() as int) == Some((s, (pre.len() + esc_all(s).len() + 1) as int))
    decreases s.len()
{
    let t = pre + esc_all(s) + seq!['"'] + rest;
    let i = pre.len() as int;
    if s.len() == 0 {
        assert(t[i] == '"');
    } else {
        lemma_esc_front(s);
        let c = s[0];
        let e = esc(c);
        let tl = s.skip(1);
        assert(t =~= (pre + e) + esc_all(tl) + seq!['"'] + rest);
        lemma_dec_esc(pre + e, tl, rest);
        assert(esc_all(s).len() == e.len() + esc_all(tl).len());
        assert(seq![c] + tl =~= s);
        assert forall|k: int| 0 <= k < e.len() implies t[i + k] == #[trigger] e[k] by {}
        lemma_dec_step(t, i, c);
    }
}
pub proof fn thm_json_str_reads_back(s: Seq<char>, before: Seq<char>, after: Seq<char>)
    ensures dec(before + json_str(s) + after, (before.len() + 1) as int) == Some((s, (before.len() + json_str(s).len()) as int))
{
    lemma_dec_esc(before + seq!['"'], s, after);
    assert(before + json_str(s) + after =~= (before + seq!['"']) + esc_all(s) + seq!['"'] + after);
}

// ---- no control character (in particular no line break) inside the line
pub open spec fn clean(s: Seq<char>) -> bool { forall|k: int| 0 <= k < s.len() ==> (#[trigger] s[k]) as u32 >= 0x20 }
pub proof fn lemma_clean_add(a: Seq<char>, b: Seq<char>)
    requires clean(a), clean(b)
    ensures clean(a + b)
{
    assert forall|k: int| 0 <= k < (a + b).len() implies (#[trigger] (a + b)[k]) as u32 >= 0x20 by {
        if k < a.len() { assert((a + b)[k] == a[k]); } else { assert((a + b)[k] == b[k - a.len()]); }
    }
}
pub proof fn lemma_esc_clean(s: Seq<char>)
    ensures clean(esc_all(s))
    decreases s.len()
{
    if s.len() > 0 {
        lemma_esc_clean(s.drop_last());
        let e = esc(s.last());
        assert(clean(e));
        lemma_clean_add(esc_all(s.drop_last()), e);
    }
}
pub proof fn thm_json_str_clean(s: Seq<char>)
    ensures c17(clean(json_str(s)))
{
    lemma_esc_clean(s);
    lemma_clean_add(seq!['"'], esc_all(s));
    lemma_clean_add(seq!['"'] + esc_all(s), seq!['"']);
}
// type invariant of TagValue::Float (assumed of std: the Display text of a finite f32 / f64 has no control character)
pub open spec fn value_ok(v: TagValue) -> bool { v matches TagValue::Float(x) ==> clean(x@) }
pub proof fn lemma_dec_int_clean(v: int)
    ensures clean(dec_int(v))
{
    axiom_dec_int(v);
}
pub proof fn lemma_value_clean(v: TagValue)
    requires value_ok(v)
    ensures clean(value_json(v))
{
    match v {
        TagValue::Str(x) => { thm_json_str_clean(x@); },
        TagValue::String(x) => { thm_json_str_clean(x@); },
        TagValue::Bool(x) => {},
        TagValue::I8(x) => { lemma_dec_int_clean(x as int); },
        TagValue::I16(x) => { lemma_dec_int_clean(x as int); },
        TagValue::I32(x) => { lemma_dec_int_clean(x as int); },
        TagValue::I64(x) => { lemma_dec_int_clean(x as int); },
        TagValue::I128(x) => { lemma_dec_int_clean(x as int); },
        TagValue::U8(x) => { lemma_dec_int_clean(x as int); },
        TagValue::U16(x) => { lemma_dec_int_clean(x as int); },
        TagValue::U32(x) => { lemma_dec_int_clean(x as int); },
        TagValue::U64(x) => { lemma_dec_int_clean(x as int); },
        TagValue::U128(x) => { lemma_dec_int_clean(x as int); },
        TagValue::Usize(x) => { lemma_dec_int_clean(x as int); },
        TagValue::Float(x) => {},
        TagValue::Null => {},
    }
}
pub proof fn lemma_tags_clean(ts: Seq<Tag>)
    requires forall|i: int| 0 <= i < ts.len() ==> value_ok(#[trigger] ts[i].value)
    ensures clean(tags_json(ts))
    decreases ts.len()
{
    if ts.len() >= 1 {
        let t = ts.last();
        thm_json_str_clean(t.name@);
        lemma_value_clean(t.value);
        lemma_clean_add(json_str(t.name@), seq![':']);
        lemma_clean_add(json_str(t.name@) + seq![':'], value_json(t.value));
        if ts.len() > 1 {
            lemma_tags_clean(ts.drop_last());
            lemma_clean_add(tags_json(ts.drop_last()), seq![',']);
            lemma_clean_add(tags_json(ts.drop_last()) + seq![','], member_json(t));
        }
    }
}
pub open spec fn dt_ok(dt: DateTime) -> bool { dt.year >= 0 && dt.month >= 0 && dt.day >= 0 && dt.hour >= 0 && dt.min >= 0 && dt.sec >= 0 }
pub open spec fn event_ok(ev: LogEvent) -> bool {
    &&& dt_ok(datetime_of(ev.time_()))
    &&& forall|i: int| 0 <= i < ev.tags_().0@.len() ==> value_ok(#[trigger] ev.tags_().0@[i].value)
}
pub proof fn lemma_pad_clean(v: int, w: nat)
    requires v >= 0
    ensures clean(pad_int(v, w))
{
    axiom_pad_int(v, w);
}
pub proof fn lemma_assoc(o: Seq<char>, x: Seq<char>, p: Seq<char>)
    ensures (o + x) + p == o + (x + p)
{
    assert((o + x) + p =~= o + (x + p));
}
pub open spec fn chain(o: Seq<char>, ps: Seq<Seq<char>>) -> Seq<char> decreases ps.len() {
    if ps.len() == 0 { o } else { chain(o, ps.drop_last()) + ps.last() }
}
pub proof fn lemma_chain_base(o: Seq<char>, ps: Seq<Seq<char>>)
    ensures chain(o, ps) == o + chain(Seq::empty(), ps)
    decreases ps.len()
{
    if ps.len() == 0 {
        assert(o + Seq::<char>::empty() =~= o);
    } else {
        lemma_chain_base(o, ps.drop_last());
        lemma_assoc(o, chain(Seq::empty(), ps.drop_last()), ps.last());
    }
}
pub proof fn lemma_chain_clean(o: Seq<char>, ps: Seq<Seq<char>>)
    requires clean(o), forall|i: int| 0 <= i < ps.len() ==> clean(#[trigger] ps[i])
    ensures clean(chain(o, ps))
    decreases ps.len()
{
    if ps.len() > 0 {
        lemma_chain_clean(o, ps.drop_last());
        lemma_clean_add(chain(o, ps.drop_last()), ps.last());
    }
}
pub open spec fn front_pieces(ev: LogEvent) -> Seq<Seq<char>> {
    let dt = datetime_of(ev.time_());
    let h = seq![seq!['{', '"', 't', 'i', 'm', 'e', '"', ':', '"'], pad_int(dt.year as int, 4), seq!['-'], pad_int(dt.month as int, 2), seq!['-'],
        pad_int(dt.day as int, 2), seq!['T'], pad_int(dt.hour as int, 2), seq![':'], pad_int(dt.min as int, 2), seq![':'],
        pad_int(dt.sec as int, 2), seq!['Z', '"', ',', '"', 'l', 'e', 'v', 'e', 'l', '"', ':', '"'], level_text(ev.level_())];
    if ev.tags_().0@.len() == 0 {
        h.push(seq!['"', ',', '"', 't', 'i', 'm', 'e', '_', 'n', 's', '"', ':']).push(dec_int(epoch_ns_of(ev.time_()) as int))
    } else {
        h.push(seq!['"', ',']).push(tags_json(ev.tags_().0@)).push(seq![',', '"', 't', 'i', 'm', 'e', '_', 'n', 's', '"', ':']).push(dec_int(epoch_ns_of(ev.time_()) as int))
    }
}
#[verifier::rlimit(100)]
pub proof fn lemma_front_is_chain(o: Seq<char>, ev: LogEvent)
    ensures line_front(o, ev) == chain(o, front_pieces(ev))
{
    let ps = front_pieces(ev);
    reveal_with_fuel(chain, 20);
    assert(ps.len() == if ev.tags_().0@.len() == 0 { 16int } else { 18int });
    let p1 = ps.drop_last();
    let p2 = p1.drop_last(); let p3 = p2.drop_last(); let p4 = p3.drop_last(); let p5 = p4.drop_last(); let p6 = p5.drop_last();
    let p7 = p6.drop_last(); let p8 = p7.drop_last(); let p9 = p8.drop_last(); let p10 = p9.drop_last(); let p11 = p10.drop_last();
    let p12 = p11.drop_last(); let p13 = p12.drop_last(); let p14 = p13.drop_last(); let p15 = p14.drop_last(); let p16 = p15.drop_last();
    if ev.tags_().0@.len() > 0 { let p17 = p16.drop_last(); let p18 = p17.drop_last(); assert(p18.len() == 0); } else { assert(p16.len() == 0); }
}
// the line written after `o` is `o` followed by the line
pub proof fn thm_line_shape(o: Seq<char>, ev: LogEvent)
    ensures c17(line_after(o, ev) == o + jsonl_line(ev))
{
    lemma_front_is_chain(o, ev);
    lemma_front_is_chain(Seq::empty(), ev);
    lemma_chain_base(o, front_pieces(ev));
    lemma_assoc(o, line_front(Seq::empty(), ev), seq!['}', '\n']);
}
// exactly one line: the only line break is the last character
pub proof fn thm_one_line(ev: LogEvent)
    requires event_ok(ev)
    ensures c17(jsonl_line(ev).last() == '\n' && clean(jsonl_line(ev).drop_last()))
{
    let dt = datetime_of(ev.time_());
    lemma_pad_clean(dt.year as int, 4); lemma_pad_clean(dt.month as int, 2); lemma_pad_clean(dt.day as int, 2);
    lemma_pad_clean(dt.hour as int, 2); lemma_pad_clean(dt.min as int, 2); lemma_pad_clean(dt.sec as int, 2);
    lemma_dec_int_clean(epoch_ns_of(ev.time_()) as int);
    lemma_tags_clean(ev.tags_().0@);
    assert(clean(level_text(ev.level_())));
    let ps = front_pieces(ev);
    assert forall|i: int| 0 <= i < ps.len() implies clean(#[trigger] ps[i]) by {}
    lemma_front_is_chain(Seq::empty(), ev);
    lemma_chain_clean(Seq::empty(), ps);
    let x = line_front(Seq::empty(), ev);
    lemma_clean_add(x, seq!['}']);
    assert((x + seq!['}', '\n']).drop_last() =~= x + seq!['}']);
}
// a string member's value reads back as the tag's string and ends at its own closing quote, whatever the value is and
// whatever follows it: it cannot break out of its string, add members or split the line
pub proof fn thm_string_member_reads_back(before: Seq<char>, t: Tag, after: Seq<char>)
    requires t.value is String || t.value is Str
    ensures
        c17(dec(before + member_json(t) + after, (before.len() + 1) as int) == Some((t.name@, (before.len() + json_str(t.name@).len()) as int))),
        c17(dec(before + member_json(t) + after, (before.len() + json_str(t.name@).len() + 2) as int)
            == Some((tag_text(t.value), (before.len() + member_json(t).len()) as int))),
{
    let n = json_str(t.name@);
    let v = json_str(tag_text(t.value));
    assert(member_json(t) == n + seq![':'] + v);
    thm_json_str_reads_back(t.name@, before, seq![':'] + v + after);
    assert(before + member_json(t) + after =~= before + n + (seq![':'] + v + after));
    thm_json_str_reads_back(tag_text(t.value), before + n + seq![':'], after);
    assert(before + member_json(t) + after =~= (before + n + seq![':']) + v + after);
}
pub open spec fn tag_text(v: TagValue) -> Seq<char> {
    match v { TagValue::Str(x) => x@, TagValue::String(x) => x@, _ => Seq::empty() }
}
// vacuity canary -- must FAIL
fn canary_jsonl(ev: &LogEvent, f: &mut Formatter<'_>, tags: &TagList, v: &TagValue)
    requires event_ok(*ev)
{
    let r1 = write_json_str(f, "a\"b");
    let r2 = tags.fmt(f);
    let r3 = v.fmt(f);
    proof { axiom_dec_int(5); axiom_pad_int(7, 2); thm_one_line(*ev); }
    assert(false);
}
