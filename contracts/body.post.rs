// vacuity canary: exercise the assumed Take / File / FixedBuf contracts, then claim false -- must FAIL
fn canary_body<R: AsyncRead>(r: R, dir: &Path) {
    broadcast use reader_resolved, writer_resolved, seq_events, b_take_fate;
    let mut t = AsyncReadExt::take(r, 10);
    let mut v: Vec<u8> = Vec::new();
    let x = t.read_to_end(&mut v);
    let mut b = [0u8; 4];
    let y = t.read(&mut b);
    proof { t.take_fate(); t.within_limit(); }
    let mut fb: FixedBuf<16> = FixedBuf::new();
    let w = fb.writable();
    fb.wrote(3);
    let ra = fb.read_all();
    if let Ok(tf) = TempFile::in_dir(dir) {
        if let Ok(mut f) = async_fs::File::create(tf.path()) {
            let z = f.write_all(&b);
            let c = f.close();
        }
    }
    assert(false);
}
