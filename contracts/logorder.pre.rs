// ---- unit logorder (C18): `log` and the three front functions of src/log on their real text
use std::time::SystemTime;
use std::ops::{Deref, DerefMut};
#[verifier::external_type_specification]
#[verifier::external_body]
pub struct ExSystemTime2(SystemTime);
pub assume_specification[ SystemTime::now ]() -> (r: SystemTime);

// two `&str` with the same characters are the same string (assumed; Verus compares a string-literal pattern as a value)
#[verifier::external_body]
pub broadcast proof fn axiom_str_ext(a: &str, b: &str)
    requires #[trigger] a@ == #[trigger] b@
    ensures a == b
{}

// ---- the order the property fixes: message, method, path and the body-size tags first, in this order; every other tag
// after them
pub open spec fn rank(n: Seq<char>) -> u8 {
    if n == "msg"@ { 0 } else if n == "http_method"@ { 1 } else if n == "path"@ { 2 } else if n == "request_body_len"@ { 3 }
    else if n == "request_body"@ { 4 } else if n == "response_body_len"@ { 5 } else { 99 }
}
// the tags of rank r, in the order given
pub open spec fn with_rank(s: Seq<Tag>, r: u8) -> Seq<Tag> decreases s.len() {
    if s.len() == 0 { Seq::empty() }
    else if rank(s.last().name@) == r { with_rank(s.drop_last(), r).push(s.last()) }
    else { with_rank(s.drop_last(), r) }
}
// the tags with the fixed ones first in their fixed order and the others in the order given
pub open spec fn ordered(s: Seq<Tag>) -> Seq<Tag> {
    with_rank(s, 0) + with_rank(s, 1) + with_rank(s, 2) + with_rank(s, 3) + with_rank(s, 4) + with_rank(s, 5) + with_rank(s, 99)
}
// rule S1 stand-in for `tags.0.sort_by_key(KEY)` (assumed: slice::sort_by_key is a stable sort -- for a key that only takes
// the values 0..5 and 99 the result is the concatenation of the per-key subsequences in key order); the closure that the
// real text passes must compute `rank`, which is checked at the call
#[verifier::external_body]
pub fn sort_tags_by_key<F: Fn(&Tag) -> u8>(v: &mut Vec<Tag>, f: F)
    requires forall|t: &Tag| #[trigger] f.requires((t,)),
        forall|t: &Tag, k: u8| #[trigger] f.ensures((t,), k) ==> k == rank(t.name@),
    ensures final(v)@ == ordered(old(v)@)
{ unimplemented!() }
// the tags the calling thread attached to itself (a thread_local!, outside Verus): what `with_thread_local_log_tags`
// shows to its closure.  Rule S1 stand-in for `with_thread_local_log_tags(|thread_tags| tags.0.extend_from_slice(thread_tags))`
pub uninterp spec fn thread_tags() -> Seq<Tag>;
#[verifier::external_body]
pub fn append_thread_tags(v: &mut Vec<Tag>)
    ensures final(v)@ == old(v)@ + thread_tags()
{ unimplemented!() }
// rule S1 stand-ins for the generic conversions `tags.into()` / `msg.into()` (assumed: Into<TagList> for Vec<Tag> and
// TagList keeps the tags; the other conversions are left abstract)
pub uninterp spec fn given_tags<T>(t: T) -> Seq<Tag>;
#[verifier::external_body]
pub broadcast proof fn axiom_given_vec(v: Vec<Tag>)
    ensures #[trigger] given_tags(v) == v@
{}
#[verifier::external_body]
pub fn into_tag_list<T: Into<TagList>>(t: T) -> (r: TagList)
    ensures r.0@ == given_tags(t)
{ unimplemented!() }
pub uninterp spec fn given_string<T>(t: T) -> Seq<char>;
#[verifier::external_body]
pub fn into_string<T: Into<String>>(t: T) -> (r: String)
    ensures r@ == given_string(t)
{ unimplemented!() }
// Tag::new / tag (src/log/tag.rs; assumed): the name, and the value converted by Into<TagValue> (abstract: tv_of)
pub uninterp spec fn tv_of<V>(v: V) -> TagValue;
// (a String value becomes the text value of its characters)
pub uninterp spec fn tv_str(s: Seq<char>) -> TagValue;
#[verifier::external_body]
pub broadcast proof fn axiom_tv_string(s: String)
    ensures #[trigger] tv_of(s) == tv_str(s@)
{}
#[verifier::external_body]
pub fn tag<V>(name: &'static str, value: V) -> (r: Tag)
    ensures r.name == name, r.value == tv_of(value)
{ unimplemented!() }
// the installed logger (a global behind a mutex, outside Verus): sending hands the event over or reports that the
// logger has stopped.  `was_sent` is uninterpreted: the only way to establish it is a send of exactly this event.
pub uninterp spec fn was_sent(e: LogEvent) -> bool;
#[verifier::external_body]
pub struct GlobalLoggerGuard { _p: () }
#[verifier::external_body]
pub struct SendError { _p: () }
#[verifier::external_body]
pub fn global_logger() -> GlobalLoggerGuard { unimplemented!() }
impl GlobalLoggerGuard {
    #[verifier::external_body]
    pub fn send(&self, event: LogEvent) -> (r: Result<(), SendError>)
        ensures r is Ok ==> was_sent(event)
    { unimplemented!() }
}
// what a logging call must deliver: one event with this level whose tags are all the tags given and all the calling
// thread's own tags, the fixed ones first
pub closed spec fn delivered(level: Level, given: Seq<Tag>) -> bool {
    exists|e: LogEvent| #[trigger] was_sent(e) && e.level == level && e.tags.0@ == ordered(given + thread_tags())
}
