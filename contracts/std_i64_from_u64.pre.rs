// Assumed contract of std: `i64::try_from(u64)`.  vstd specifies TryFrom for most integer
// pairs but leaves this one uninterpreted (measured: neither `obeys_try_from_spec()` nor its
// negation is provable), so the std behaviour is stated here as an axiom.
#[verifier::external_body]
pub proof fn axiom_i64_try_from_u64()
    ensures <i64 as vstd::std_specs::convert::TryFromSpec<u64>>::obeys_try_from_spec(),
        forall|v: u64| v <= i64::MAX ==> #[trigger] <i64 as vstd::std_specs::convert::TryFromSpec<u64>>::try_from_spec(v)
            == Ok::<i64, <i64 as TryFrom<u64>>::Error>(v as i64),
        forall|v: u64| v > i64::MAX ==> (#[trigger] <i64 as vstd::std_specs::convert::TryFromSpec<u64>>::try_from_spec(v)).is_err(),
{}
