// ---- the installed logger (src/log/logger.rs): a global `Mutex<GlobalLoggerState>`.  Locking is outside Verus; the functions
// below are verified as functions of the state the lock hands out (rule S1: `let mut g = lock_global_logger();` becomes a
// `&mut GlobalLoggerState` parameter of the same name) -- assumed: the mutex is exclusive and every function that touches the
// global goes through it (the real code ignores poisoning).
use std::sync::mpsc::SyncSender;
use std::ops::Deref;
#[verifier::external_type_specification]
#[verifier::external_body]
#[verifier::reject_recursive_types(T)]
pub struct ExSyncSender<T>(SyncSender<T>);
#[verifier::external_body]
pub struct LogEvent { _p: () }
// starting the stdout default (a thread and a channel): only that it yields a sender
#[verifier::external_body]
pub fn start_stdout_logger_thread() -> SyncSender<LogEvent> { unimplemented!() }
pub open spec fn sender_of(s: GlobalLoggerState) -> Option<SyncSender<LogEvent>> {
    match s { GlobalLoggerState::None => None, GlobalLoggerState::Some(x) => Some(x), GlobalLoggerState::Default(x) => Some(x) }
}
// std::mem::replace (assumed meaning: the old value comes back, the new one is stored)
pub assume_specification<T>[core::mem::replace::<T>](dest: &mut T, src: T) -> (r: T)
    ensures r == *old(dest), *final(dest) == src;
