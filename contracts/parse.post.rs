// vacuity canary -- must FAIL
fn canary_parse(line: &[u8]) {
    let m = hdr_matcher();
    let r = m.match_slices(line);
    let s = String::from_utf8(line.to_vec());
    let l = Head::latin1_bytes_to_utf8(line);
    proof { lemma_trim_ws(line@); }
    assert(false);
}
