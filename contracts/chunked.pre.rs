// ---- Spec of HTTP/1.1 chunked coding (RFC 7230 section 4.1), written from the RFC.
pub open spec fn hexd(n: int) -> u8 { if n < 10 { (48 + n) as u8 } else { (87 + n) as u8 } }
// lower-case hexadecimal numeral of n without leading zeros, for 1 <= n < 65536
pub open spec fn hex_min(n: int) -> Seq<u8> {
    if n >= 4096 { seq![hexd(n / 4096 % 16), hexd(n / 256 % 16), hexd(n / 16 % 16), hexd(n % 16)] }
    else if n >= 256 { seq![hexd(n / 256 % 16), hexd(n / 16 % 16), hexd(n % 16)] }
    else if n >= 16 { seq![hexd(n / 16 % 16), hexd(n % 16)] }
    else { seq![hexd(n % 16)] }
}
pub open spec fn crlf() -> Seq<u8> { seq![13u8, 10u8] }
pub open spec fn chunk(d: Seq<u8>) -> Seq<u8> { hex_min(d.len() as int) + crlf() + d + crlf() }
pub open spec fn enc(ps: Seq<Seq<u8>>) -> Seq<u8> decreases ps.len() {
    if ps.len() == 0 { Seq::empty() } else { enc(ps.drop_last()) + chunk(ps.last()) }
}
pub open spec fn term() -> Seq<u8> { seq![48u8, 13u8, 10u8, 13u8, 10u8] }
// every piece is a legal chunk payload of this encoder: 1..=65528 bytes (never a zero-length chunk)
pub open spec fn pieces_ok(ps: Seq<Seq<u8>>) -> bool {
    forall|i: int| 0 <= i < ps.len() ==> 1 <= (#[trigger] ps[i]).len() <= 65528
}
// The contract of copy_chunked_async over the read events `evs` of the call (taken from the
// property statement): data pieces become chunks; the terminating chunk follows exactly when
// the reader reported end of stream; a reader error ends the output without it.
pub open spec fn chunked_post(evs: Seq<Ev>, w0: Seq<u8>, wend: Seq<u8>, res: CopyResult) -> bool {
    &&& evs.len() >= 1
    &&& data_only(evs.drop_last())
    &&& pieces_ok(pieces(evs))
    &&& match res {
        CopyResult::Ok(n) => evs.last() is Eof && wend == w0 + enc(pieces(evs)) + term()
                             && n == bytes_of(evs).len() + 3,
        CopyResult::ReaderErr(_) => evs.last() is Fail && wend == w0 + enc(pieces(evs)),
        CopyResult::WriterErr(_) => (evs.last() is Data || evs.last() is Eof) && w0.is_prefix_of(wend)
                             && wend.is_prefix_of(w0 + enc(pieces(evs)) + (if evs.last() is Eof { term() } else { Seq::empty() })),
    }
}
pub open spec fn skip_prefix(s: Seq<u8>, p: u8) -> Seq<u8> decreases s.len() {
    if s.len() > 0 && s[0] == p { skip_prefix(s.subrange(1, s.len() as int), p) } else { s }
}
pub proof fn lemma_enc_push(ps: Seq<Seq<u8>>, p: Seq<u8>)
    ensures enc(ps.push(p)) == enc(ps) + chunk(p)
{
    assert(ps.push(p).drop_last() =~= ps);
}
// The framing statements of copy_chunked_async build b = 4 hex digits CRLF data CRLF and strip
// leading '0's: that is exactly chunk(data).
pub proof fn lemma_frame(b: Seq<u8>, len: int)
    requires 1 <= len <= 65528, b.len() == 6 + len + 2,
        b[0] == hexd(len / 4096 % 16), b[1] == hexd(len / 256 % 16), b[2] == hexd(len / 16 % 16), b[3] == hexd(len % 16),
        b[4] == 13, b[5] == 10, b[6 + len] == 13, b[7 + len] == 10,
    ensures skip_prefix(b, 48u8) == chunk(b.subrange(6, 6 + len))
{
    let d = b.subrange(6, 6 + len);
    let n = b.len() as int;
    reveal_with_fuel(skip_prefix, 5);
    let b1 = b.subrange(1, n);
    let b2 = b1.subrange(1, n - 1);
    let b3 = b2.subrange(1, n - 2);
    assert(b1[0] == b[1] && b2[0] == b[2] && b3[0] == b[3]);
    assert(b3.subrange(1, n - 3)[0] == 13u8);
    if len >= 4096 { assert(b =~= chunk(d)); }
    else if len >= 256 { assert(b1 =~= chunk(d)); }
    else if len >= 16 { assert(b2 =~= chunk(d)); }
    else { assert(b3 =~= chunk(d)); }
}
pub proof fn lemma_nibbles()
    ensures
        forall|x: usize| #[trigger] ((x >> 12) & 0xF) == x / 4096 % 16 && ((x >> 12) & 0xF) < 16,
        forall|x: usize| #[trigger] ((x >> 8) & 0xF) == x / 256 % 16 && ((x >> 8) & 0xF) < 16,
        forall|x: usize| #[trigger] ((x >> 4) & 0xF) == x / 16 % 16 && ((x >> 4) & 0xF) < 16,
        forall|x: usize| #[trigger] (x & 0xF) == x % 16 && (x & 0xF) < 16,
{
    assert(forall|x: usize| #[trigger] ((x >> 12) & 0xF) == x / 4096 % 16 && ((x >> 12) & 0xF) < 16) by (bit_vector);
    assert(forall|x: usize| #[trigger] ((x >> 8) & 0xF) == x / 256 % 16 && ((x >> 8) & 0xF) < 16) by (bit_vector);
    assert(forall|x: usize| #[trigger] ((x >> 4) & 0xF) == x / 16 % 16 && ((x >> 4) & 0xF) < 16) by (bit_vector);
    assert(forall|x: usize| #[trigger] (x & 0xF) == x % 16 && (x & 0xF) < 16) by (bit_vector);
}

// One loop iteration of copy_chunked_async, proved away from the 64 KiB buffer context:
// given the framing bytes the code stored into `b` and the new read event, the trimmed slice is
// chunk(piece) and every history-derived quantity advances by exactly that piece.
pub proof fn lemma_chunk_step(hs: Seq<Ev>, k: int, hist: Seq<Ev>, b: Seq<u8>, len: int, bytes: Seq<u8>)
    requires
        1 <= len <= 65528, b.len() == 65536, 0 <= k <= hs.len(),
        hist.len() == hs.len() + 1, hist.drop_last() == hs,
        hist.last() is Data, hist.last()->Data_0 == b.subrange(6, 6 + len),
        b[0] == hexd(len / 4096 % 16), b[1] == hexd(len / 256 % 16), b[2] == hexd(len / 16 % 16), b[3] == hexd(len % 16),
        b[4] == 13, b[5] == 10, b[6 + len] == 13, b[7 + len] == 10,
        bytes == skip_prefix(b.subrange(0, 6 + len + 2), 48u8),
        data_only(hs.skip(k)), pieces_ok(pieces(hs.skip(k))),
    ensures
        bytes == chunk(b.subrange(6, 6 + len)),
        data_only(hist.skip(k)), pieces_ok(pieces(hist.skip(k))),
        enc(pieces(hist.skip(k))) == enc(pieces(hs.skip(k))) + chunk(b.subrange(6, 6 + len)),
        bytes_of(hist.skip(k)) == bytes_of(hs.skip(k)) + b.subrange(6, 6 + len),
        bytes_of(hist) == bytes_of(hs) + b.subrange(6, 6 + len),
{
    let piece = b.subrange(6, 6 + len);
    let fb = b.subrange(0, 6 + len + 2);
    lemma_frame(fb, len);
    assert(fb.subrange(6, 6 + len) =~= piece);
    assert(hist =~= hs.push(Ev::Data(piece)));
    assert(hist.skip(k) =~= hs.skip(k).push(Ev::Data(piece)));
    lemma_pieces_push(hs.skip(k), Ev::Data(piece));
    lemma_pieces_push(hs, Ev::Data(piece));
    lemma_enc_push(pieces(hs.skip(k)), piece);
    assert forall|i: int| 0 <= i < pieces(hist.skip(k)).len() implies 1 <= (#[trigger] pieces(hist.skip(k))[i]).len() <= 65528 by {
        if i < pieces(hs.skip(k)).len() { assert(pieces(hist.skip(k))[i] == pieces(hs.skip(k))[i]); }
    }
}
