use std::ops::Deref;
use std::borrow::Cow;
// ---- assumed contracts on std used by headers.rs / ascii_string.rs
#[verifier::external_trait_specification]
pub trait ExAsRef<T: core::marker::PointeeSized>: core::marker::PointeeSized {
    type ExternalTraitSpecificationFor: core::convert::AsRef<T>;
    fn as_ref(&self) -> (r: &T) ensures r == asref_spec::<Self, T>(self);
}
pub uninterp spec fn asref_spec<S: core::marker::PointeeSized, T: core::marker::PointeeSized>(s: &S) -> &T;
// ASCII-case-insensitive equality of two strings: left uninterpreted, so every theorem below
// holds for whatever relation str::eq_ignore_ascii_case computes.
pub uninterp spec fn eq_ic(a: Seq<char>, b: Seq<char>) -> bool;
pub assume_specification[ str::eq_ignore_ascii_case ](a: &str, b: &str) -> (r: bool)
    ensures r == eq_ic(a@, b@);

// R5: format!(..) is replaced by a call of this opaque function (the text of an error message is
// never constrained by any contract).
#[verifier::external_body]
pub fn verif_fmt() -> String { unimplemented!() }
pub assume_specification[ char::is_ascii ](c: &char) -> (r: bool)
    ensures r == ((*c as u32) < 128);
// std's ToString (via Display) for the string-like types used by the AsciiString constructors:
// the produced String has the same characters.  vstd leaves `to_string_from_display_ensures`
// uninterpreted except for str.
#[verifier::external_body]
pub proof fn axiom_display()
    ensures
        forall|s: &String, r: String| #[trigger] vstd::string::to_string_from_display_ensures::<String>(s, r) <==> r@ == s@,
        forall|s: &Box<str>, r: String| #[trigger] vstd::string::to_string_from_display_ensures::<Box<str>>(s, r) <==> r@ == s@,
        forall|s: &Cow<'_, str>, r: String| #[trigger] vstd::string::to_string_from_display_ensures::<Cow<'_, str>>(s, r) <==> r@ == s@,
        forall|c: &char, r: String| #[trigger] vstd::string::to_string_from_display_ensures::<char>(c, r) <==> r@ == seq![*c],
{}
// the type invariant of AsciiString
pub open spec fn ascii(a: AsciiString) -> bool { vstd::utf8::is_ascii_chars(a.inner()@) }

// ---- the abstract view of a header collection: the sequence of fields
pub open spec fn m(h: Header, name: Seq<char>) -> bool { eq_ic(h.name.inner()@, name) }
// values of the fields whose name matches, in order
pub open spec fn matching(s: Seq<Header>, name: Seq<char>) -> Seq<AsciiString> decreases s.len() {
    if s.len() == 0 { Seq::empty() }
    else if m(s.last(), name) { matching(s.drop_last(), name).push(s.last().value) }
    else { matching(s.drop_last(), name) }
}
// the fields whose name does not match, in order
pub open spec fn rest(s: Seq<Header>, name: Seq<char>) -> Seq<Header> decreases s.len() {
    if s.len() == 0 { Seq::empty() }
    else if m(s.last(), name) { rest(s.drop_last(), name) }
    else { rest(s.drop_last(), name).push(s.last()) }
}
pub proof fn lemma_matching_push(s: Seq<Header>, h: Header, name: Seq<char>)
    ensures matching(s.push(h), name) == (if m(h, name) { matching(s, name).push(h.value) } else { matching(s, name) }),
            rest(s.push(h), name) == (if m(h, name) { rest(s, name) } else { rest(s, name).push(h) }),
{
    assert(s.push(h).drop_last() =~= s);
}
pub proof fn lemma_matching_app(a: Seq<Header>, b: Seq<Header>, name: Seq<char>)
    ensures matching(a + b, name) == matching(a, name) + matching(b, name),
            rest(a + b, name) == rest(a, name) + rest(b, name),
    decreases b.len()
{
    if b.len() == 0 {
        assert(a + b =~= a);
        assert(matching(a, name) + matching(b, name) =~= matching(a, name));
        assert(rest(a, name) + rest(b, name) =~= rest(a, name));
    } else {
        lemma_matching_app(a, b.drop_last(), name);
        assert((a + b).drop_last() =~= a + b.drop_last());
        assert((a + b).last() == b.last());
        if m(b.last(), name) {
            assert(matching(a, name) + matching(b.drop_last(), name).push(b.last().value) =~= (matching(a, name) + matching(b.drop_last(), name)).push(b.last().value));
        } else {
            assert(rest(a, name) + rest(b.drop_last(), name).push(b.last()) =~= (rest(a, name) + rest(b.drop_last(), name)).push(b.last()));
        }
    }
}
pub proof fn lemma_rest_all_nonmatching(s: Seq<Header>, name: Seq<char>)
    requires forall|i: int| 0 <= i < s.len() ==> !m(#[trigger] s[i], name)
    ensures rest(s, name) == s, matching(s, name).len() == 0
    decreases s.len()
{
    if s.len() > 0 {
        lemma_rest_all_nonmatching(s.drop_last(), name);
        assert(s.drop_last().push(s.last()) =~= s);
    }
}

// loop invariants of get_only / get_all as spec fns (their parameter types also fix the type of
// the not-yet-inferred local they talk about)
pub open spec fn get_only_inv(value: Option<&AsciiString>, seen: Seq<Header>, nm: Seq<char>) -> bool {
    &&& value is Some <==> matching(seen, nm).len() == 1
    &&& value is None <==> matching(seen, nm).len() == 0
    &&& value is Some ==> *value->Some_0 == matching(seen, nm)[0]
}
pub open spec fn get_all_inv(headers: &Vec<&AsciiString>, seen: Seq<Header>, nm: Seq<char>) -> bool {
    &&& headers@.len() == matching(seen, nm).len()
    &&& forall|i: int| 0 <= i < headers@.len() ==> *(#[trigger] headers@[i]) == matching(seen, nm)[i]
}
