//! Connection-level bounded stand-in / witness search (C09, C08, C05): the real server
//! (HttpServerBuilder -> accept loop -> handle_http_conn -> handler) over loopback, with a scripted
//! handler, against the limits and exchange rules the properties state.  Covers what the
//! deductive units cannot take: handle_http_conn_once (generic async handler closure), the small
//! body shortcut, the 413 mapping, body-file faults during serialisation.
use permit::Permit;
use safina::executor::Executor;
use servlin::{socket_addr_127_0_0_1_any_port, HttpServerBuilder, Request, Response, ResponseBody};
use std::io::{Read, Write};
use std::net::{Shutdown, SocketAddr, TcpStream};
use std::sync::{Arc, Mutex};
use std::time::Duration;
use temp_dir::TempDir;

type Log = Arc<Mutex<Vec<(String, bool, Option<u64>, u64)>>>; // (path, pending, body len, body checksum)

fn checksum(b: &[u8]) -> u64 { b.iter().fold(1469598103934665603u64, |h, x| (h ^ *x as u64).wrapping_mul(1099511628211)) }
fn body_of(l: usize) -> Vec<u8> { (0..l).map(|i| (i * 31 + 7) as u8).collect() }

struct Server { addr: SocketAddr, _permit: Permit, _exec: Arc<Executor>, _dir: TempDir, log: Log, files: TempDir }
fn start(small: usize) -> Server { start2(small, true) }
/// `cache`: whether the server is given a directory for large request bodies
fn start2(small: usize, cache: bool) -> Server {
    safina::timer::start_timer_thread();
    let permit = Permit::new();
    let exec = Executor::new(2, 4).unwrap();
    let dir = TempDir::new().unwrap();
    let files = TempDir::new().unwrap();
    let log: Log = Arc::new(Mutex::new(Vec::new()));
    let log2 = log.clone();
    let files_path = files.path().to_path_buf();
    let handler = move |req: Request| -> Response {
        let path = req.url().path().to_string();
        let seg: Vec<&str> = path.split('/').collect(); // /kind/arg
        let (blen, sum) = match req.body().reader() { Ok(mut r) => { let mut v = Vec::new(); let _ = r.read_to_end(&mut v); (Some(v.len() as u64), checksum(&v)) } Err(_) => (req.body().len(), 0) };
        log2.lock().unwrap().push((path.clone(), req.body().is_pending(), blen, sum));
        match seg.get(1).copied() {
            Some("m") => { // upload with limit M = seg[2]
                let m: u64 = seg[2].parse().unwrap();
                if req.body().is_pending() { return Response::get_body_and_reprocess(m); }
                Response::text(200, format!("len={}", blen.unwrap_or(0)))
            }
            Some("file") => { // body file of declared length seg[2], actual length seg[3]
                let declared: u64 = seg[2].parse().unwrap(); let actual: usize = seg[3].parse().unwrap();
                let p = files_path.join(format!("f{declared}-{actual}"));
                std::fs::write(&p, body_of(actual)).unwrap();
                Response::new(200).with_body(ResponseBody::File(p, declared))
            }
            Some("file5") => { // the same with status 503 (close = true)
                let declared: u64 = seg[2].parse().unwrap(); let actual: usize = seg[3].parse().unwrap();
                let p = files_path.join(format!("g{declared}-{actual}"));
                std::fs::write(&p, body_of(actual)).unwrap();
                Response::new(503).with_body(ResponseBody::File(p, declared))
            }
            Some("rb") => { // upload with limit M = seg[2], applied through the helper Request::recv_body
                let m: u64 = seg[2].parse().unwrap();
                match req.recv_body(m) { Ok(_) => Response::text(200, format!("len={}", blen.unwrap_or(0))), Err(resp) => resp }
            }
            Some("code") => Response::text(seg[2].parse().unwrap(), "x"),
            Some("big") => Response::new(200).with_body(vec![b'a'; seg[2].parse().unwrap()]), // a body larger than the socket buffers
            _ => Response::text(200, "ok"),
        }
    };
    let b = HttpServerBuilder::new().listen_addr(socket_addr_127_0_0_1_any_port()).max_conns(100).small_body_len(small);
    let b = if cache { b.receive_large_bodies(dir.path()) } else { b };
    let (addr, _stopped) = exec.block_on(b.permit(permit.new_sub()).spawn(handler)).unwrap();
    Server { addr, _permit: permit, _exec: exec, _dir: dir, log, files }
}
fn exchange(s: &Server, send: &[u8], pause_after: Option<usize>) -> Vec<u8> {
    let mut c = TcpStream::connect_timeout(&s.addr, Duration::from_secs(2)).unwrap();
    c.set_read_timeout(Some(Duration::from_secs(10))).unwrap();
    match pause_after { Some(k) if k < send.len() => { c.write_all(&send[..k]).unwrap(); c.flush().unwrap(); std::thread::sleep(Duration::from_millis(60)); let _ = c.write_all(&send[k..]); } _ => { let _ = c.write_all(send); } }
    let _ = c.shutdown(Shutdown::Write);
    let mut out = Vec::new();
    let _ = c.read_to_end(&mut out);
    out
}
fn statuses(out: &[u8]) -> Vec<u16> {
    let t = String::from_utf8_lossy(out);
    t.match_indices("HTTP/1.1 ").filter_map(|(i, _)| t[i + 9..].get(..3).and_then(|c| c.parse().ok())).collect()
}
/// C09: one upload of L bytes against limit M on a server with threshold S
fn upload(s: &Server, small: usize, m: u64, l: usize, declared: bool, split: bool) -> Option<String> { upload2(s, small, m, l, declared, split, false) }
/// `nocache`: the server has no directory for large bodies -- a body that has to be fetched may then be refused with a 500
/// (a configuration limit the property does not speak about), but a body over the handler's limit is still never accepted
fn upload2(s: &Server, small: usize, m: u64, l: usize, declared: bool, split: bool, nocache: bool) -> Option<String> {
    let desc = if nocache { format!("upload S={small} M={m} L={l} declared={declared} split_head_body={split} nocache=1") } else { format!("upload S={small} M={m} L={l} declared={declared} split_head_body={split}") };
    let body = body_of(l);
    let head = if declared { format!("POST /m/{m} HTTP/1.1\r\ncontent-length: {l}\r\n\r\n") } else { format!("POST /m/{m} HTTP/1.1\r\n\r\n") };
    s.log.lock().unwrap().clear();
    let mut msg = head.clone().into_bytes(); msg.extend_from_slice(&body);
    let out = exchange(s, &msg, if split { Some(head.len()) } else { None });
    let st = statuses(&out);
    let log = s.log.lock().unwrap().clone();
    let in_memory = declared && l <= small;   // handed over without asking
    let empty_decl = declared && l == 0;
    let accept = in_memory || empty_decl || (l as u64) <= m;
    let final_status = st.iter().copied().filter(|c| *c != 100).collect::<Vec<_>>();
    if nocache && !(in_memory || empty_decl) && final_status == vec![500] { return None; }
    if accept {
        if final_status != vec![200] { return Some(format!("{desc} expected=200 actual={st:?}")); }
        let last = log.last().cloned();
        match last { Some((_, false, Some(n), sum)) if n == l as u64 && sum == checksum(&body) => {} other => return Some(format!("{desc} expected=handler-sees-intact-body-of-{l} actual={other:?}")) }
        let want_runs = if in_memory || empty_decl { 1 } else { 2 };
        if log.len() != want_runs { return Some(format!("{desc} expected={want_runs}-handler-runs actual={}", log.len())); }
        if (in_memory || empty_decl) && log[0].1 { return Some(format!("{desc} expected=body-in-memory-without-asking actual=pending")); }
    } else {
        if final_status != vec![413] { return Some(format!("{desc} expected=413 actual={st:?}")); }
        if log.len() != 1 { return Some(format!("{desc} expected=1-handler-run actual={}", log.len())); }
    }
    None
}
/// C09 through the handler-side helper: a handler that applies its limit with `req.recv_body(M)` gets the body iff L <= M
/// (whether it was read to memory already or has to be fetched), and a 413 otherwise
fn upload_rb(s: &Server, small: usize, m: u64, l: usize, declared: bool) -> Option<String> {
    let desc = format!("recvbody S={small} M={m} L={l} declared={declared}");
    let body = body_of(l);
    let head = if declared { format!("POST /rb/{m} HTTP/1.1\r\ncontent-length: {l}\r\n\r\n") } else { format!("POST /rb/{m} HTTP/1.1\r\n\r\n") };
    s.log.lock().unwrap().clear();
    let mut msg = head.clone().into_bytes(); msg.extend_from_slice(&body);
    let out = exchange(s, &msg, Some(head.len()));
    let st: Vec<u16> = statuses(&out).into_iter().filter(|c| *c != 100).collect();
    let log = s.log.lock().unwrap().clone();
    if (l as u64) <= m {
        if st != vec![200] { return Some(format!("{desc} expected=200 (L <= M) actual={st:?}")); }
        match log.last().cloned() { Some((_, false, Some(n), sum)) if n == l as u64 && sum == checksum(&body) => {} other => return Some(format!("{desc} expected=handler-sees-intact-body-of-{l} actual={other:?}")) }
    } else if st != vec![413] { return Some(format!("{desc} expected=413 (L > M) actual={st:?}")); }
    None
}
/// C08: response body file shorter than declared: the client sees a prefix of the correct response, one status line
fn short_file(s: &Server, declared: usize, actual: usize) -> Option<String> { short_file2(s, declared, actual, false) }
fn short_file2(s: &Server, declared: usize, actual: usize, five: bool) -> Option<String> {
    let desc = if five { format!("bodyfile declared={declared} actual={actual} status=503") } else { format!("bodyfile declared={declared} actual={actual}") };
    let out = exchange(s, format!("GET /{}/{declared}/{actual} HTTP/1.1\r\n\r\n", if five { "file5" } else { "file" }).as_bytes(), None);
    let mut correct = if five { format!("HTTP/1.1 503 Service Unavailable\r\nconnection: close\r\ncontent-length: {declared}\r\n\r\n").into_bytes() } else { format!("HTTP/1.1 200 OK\r\ncontent-length: {declared}\r\n\r\n").into_bytes() };
    correct.extend_from_slice(&body_of(declared));
    if actual >= declared { return if out == correct { None } else { Some(format!("{desc} expected=complete-response actual={} bytes, statuses {:?}", out.len(), statuses(&out))) }; }
    // either a prefix of the one correct serialisation reached the client (then nothing else), or -- no byte of it having
    // been sent -- the connection carried a single 500 response
    let only_500 = statuses(&out) == vec![500] && out.starts_with(b"HTTP/1.1 500 ");
    if !correct.starts_with(&out) && !only_500 { return Some(format!("{desc} expected=prefix-of-the-one-serialisation-or-a-single-500 actual=statuses {:?}, {} bytes", statuses(&out), out.len())); }
    None
}
/// exchange integrity on one connection: responses in order, connection closed after 5xx
fn pipeline(s: &Server, codes: &[u16]) -> Option<String> {
    let desc = format!("pipeline codes={codes:?}");
    let mut msg = Vec::new();
    for c in codes { msg.extend_from_slice(format!("GET /code/{c} HTTP/1.1\r\n\r\n").as_bytes()); }
    s.log.lock().unwrap().clear();
    let out = exchange(s, &msg, None);
    // a 5xx response closes the connection; after a 4xx the server may close (it does today) or carry on --
    // no property demands either, so both are accepted
    let mut want = Vec::new();
    for c in codes { want.push(*c); if *c >= 400 { break; } }
    let mut want_keep = Vec::new();
    for c in codes { want_keep.push(*c); if *c >= 500 { break; } }
    let got = statuses(&out);
    if got != want && got != want_keep { return Some(format!("{desc} expected={want:?} actual={got:?}")); }
    let runs = s.log.lock().unwrap().len();
    if runs != got.len() { return Some(format!("{desc} expected={}-handler-runs actual={runs}", got.len())); }
    None
}
/// C09 on a kept-alive connection: several requests with declared bodies sent in one write -- each handler run sees
/// exactly its own declared bytes (bytes of the next request already buffered behind a body are not part of it)
fn pipebody(s: &Server, small: usize, lens: &[usize]) -> Option<String> {
    let desc = format!("pipebody S={small} lens={lens:?}");
    let mut msg = Vec::new();
    for l in lens { msg.extend_from_slice(format!("POST /m/100000 HTTP/1.1\r\ncontent-length: {l}\r\n\r\n").as_bytes()); msg.extend_from_slice(&body_of(*l)); }
    s.log.lock().unwrap().clear();
    let out = exchange(s, &msg, None);
    let st: Vec<u16> = statuses(&out).into_iter().filter(|c| *c != 100).collect();
    if st != vec![200u16; lens.len()] { return Some(format!("{desc} expected={}-responses-200 actual={st:?}", lens.len())); }
    let seen: Vec<(Option<u64>, u64)> = s.log.lock().unwrap().iter().filter(|e| !e.1).map(|e| (e.2, e.3)).collect();
    let want: Vec<(Option<u64>, u64)> = lens.iter().map(|l| (Some(*l as u64), checksum(&body_of(*l)))).collect();
    if seen != want { return Some(format!("{desc} expected=each-handler-sees-its-own-body {want:?} actual={seen:?}")); }
    None
}
/// a client that stops reading for `secs` seconds in the middle of a large response and then reads on: whatever it receives is a
/// prefix of the one correct response -- no second status line or other bytes after a response that was partly sent
fn stall(s: &Server, len: usize, secs: u64) -> Option<String> {
    let desc = format!("stall len={len} secs={secs}");
    let mut c = TcpStream::connect_timeout(&s.addr, Duration::from_secs(2)).unwrap();
    c.set_read_timeout(Some(Duration::from_secs(10))).unwrap();
    let _ = c.write_all(format!("GET /big/{len} HTTP/1.1\r\n\r\n").as_bytes());
    let _ = c.shutdown(Shutdown::Write);
    std::thread::sleep(Duration::from_secs(secs));
    let mut out = Vec::new();
    let _ = c.read_to_end(&mut out);
    let Some(p) = out.windows(4).position(|w| w == b"\r\n\r\n") else { return Some(format!("{desc} expected=a response head actual={} bytes without one", out.len())) };
    let head = String::from_utf8_lossy(&out[..p]).to_string();
    if !head.starts_with("HTTP/1.1 200 ") || !head.to_ascii_lowercase().contains(&format!("content-length: {len}")) { return Some(format!("{desc} expected=200 with content-length {len} actual=head {head:?}")); }
    let body = &out[p + 4..];
    if let Some(k) = body.iter().position(|b| *b != b'a') { return Some(format!("{desc} expected=a prefix of the {len} body bytes actual=other bytes after {k} body bytes: {:?}", String::from_utf8_lossy(&body[k..(k + 60).min(body.len())]))); }
    if body.len() > len { return Some(format!("{desc} expected=at most {len} body bytes actual={}", body.len())); }
    None
}
fn main() {
    std::panic::set_hook(Box::new(|_| {}));
    let args: Vec<String> = std::env::args().collect();
    let nums = |w: &str| -> Vec<u64> { w.split(|c: char| !c.is_ascii_digit()).filter(|s| !s.is_empty()).filter_map(|s| s.parse().ok()).collect() };
    if args.len() >= 3 && args[1] == "replay" {
        let w = args[2..].join(" ");
        let n = nums(&w);
        let r = if w.starts_with("upload") { let nc = w.contains("nocache=1"); let s = start2(n[0] as usize, !nc); upload2(&s, n[0] as usize, n[1], n[2] as usize, w.contains("declared=true"), w.contains("split_head_body=true"), nc) }
            else if w.starts_with("pipebody") { let s = start(n[0] as usize); let lens: Vec<usize> = n[1..].iter().map(|x| *x as usize).collect(); pipebody(&s, n[0] as usize, &lens) }
            else if w.starts_with("recvbody") { let s = start(n[0] as usize); upload_rb(&s, n[0] as usize, n[1], n[2] as usize, w.contains("declared=true")) }
            else if w.starts_with("stall") { let s = start(100); stall(&s, n[0] as usize, n[1]) }
            else if w.starts_with("bodyfile") { let s = start(100); short_file2(&s, n[0] as usize, n[1] as usize, w.contains("status=503")) }
            else { let s = start(100); let codes: Vec<u16> = n.iter().map(|x| *x as u16).collect(); pipeline(&s, &codes) };
        match r { Some(m) => { println!("WITNESS {m}"); std::process::exit(1) } None => { println!("OK witness no longer fails"); std::process::exit(0) } }
    }
    let mut n = 0u64; let mut found = Vec::new();
    for small in [0usize, 1, 100] {
        let s = start(small);
        let mut ms: Vec<u64> = vec![0, 1, small.saturating_sub(1) as u64, small as u64, small as u64 + 1, 300, 1 << 63, u64::MAX];
        ms.sort(); ms.dedup();
        for &m in &ms {
            let mut ls: Vec<usize> = vec![0, 1, small.saturating_sub(1), small, small + 1];
            if m < 100_000 { ls.extend([m.saturating_sub(1) as usize, m as usize, m as usize + 1, m as usize + 2]); }
            ls.sort(); ls.dedup();
            for &l in &ls { for declared in [true, false] { for split in [false, true] {
                n += 1;
                if let Some(w) = upload(&s, small, m, l, declared, split) { if found.len() < 6 { found.push(w) } }
            }}}
        }
        if small == 100 {
            for (d, a) in [(2000usize, 2000usize), (2000, 0), (2000, 1), (2000, 1000), (2000, 1999), (70000, 69999), (1, 0), (2000, 3000), (4, 10), (70000, 70001), (0, 5)] { n += 1; if let Some(w) = short_file(&s, d, a) { if found.len() < 6 { found.push(w) } } }
            for (d, a) in [(2000usize, 2000usize), (2000, 0), (2000, 1000), (100, 10)] { n += 1; if let Some(w) = short_file2(&s, d, a, true) { if found.len() < 6 { found.push(w) } } }
            for codes in [vec![200u16], vec![200, 200, 200], vec![200, 404, 200], vec![500, 200], vec![200, 204, 503, 200], vec![299, 399, 400]] { n += 1; if let Some(w) = pipeline(&s, &codes) { if found.len() < 6 { found.push(w) } } }
        }
        for m in [0u64, 1, small as u64, small as u64 + 1, 300] { for l in [0usize, 1, m.saturating_sub(1) as usize, m as usize, m as usize + 1, small, small + 1] { for declared in [true, false] {
            n += 1; if let Some(w) = upload_rb(&s, small, m, l, declared) { if found.len() < 6 { found.push(w) } }
        }}}
        if small >= 1 {
            for lens in [vec![3usize, 2], vec![1, 1, 1], vec![0, 5, 0, 7], vec![small, 1, small], vec![small + 1, 2, small + 50, 3], vec![2, small + 1, 2], vec![3000, 1, 9000, 2]] { n += 1; if let Some(w) = pipebody(&s, small, &lens) { if found.len() < 6 { found.push(w) } } }
        }
        let _ = &s.files;
    }
    {
        // quick: a short stall; thorough: longer than any plausible write timeout (half a minute)
        let s = start(100);
        for secs in if args.iter().any(|a| a == "--thorough") { vec![2u64, 33] } else { vec![2u64] } { n += 1; if let Some(w) = stall(&s, 24 << 20, secs) { if found.len() < 6 { found.push(w) } } }
    }
    // a server without a directory for large bodies: limits at and around the in-memory threshold
    for small in [100usize, 1000] {
        let s = start2(small, false);
        for m in [0u64, 1, small as u64 - 1, small as u64, small as u64 + 1] { for l in [0usize, 1, m as usize, m as usize + 1, small, small + 1, 3 * small] { for declared in [true, false] {
            n += 1;
            if let Some(w) = upload2(&s, small, m, l, declared, false, true) { if found.len() < 6 { found.push(w) } }
        }}}
    }
    println!("EVALUATED {n}");
    for f in &found { println!("WITNESS {f}"); }
    std::process::exit(if found.is_empty() { 0 } else { 1 });
}
