//! C16 witness search / replay: the real `DateTime` against an independent days-from-civil.
use servlin::internal::DateTime;
use std::time::Duration;

/// days since 1970-01-01 of a proleptic Gregorian civil date (Howard Hinnant's algorithm)
fn days_from_civil(y: i64, m: i64, d: i64) -> i64 {
    let y = if m <= 2 { y - 1 } else { y };
    let era = if y >= 0 { y } else { y - 399 } / 400;
    let yoe = y - era * 400;
    let mp = (m + 9) % 12;
    let doy = (153 * mp + 2) / 5 + d - 1;
    let doe = yoe * 365 + yoe / 4 - yoe / 100 + doy;
    era * 146_097 + doe - 719_468
}
fn civil_from_days(z: i64) -> (i64, i64, i64) {
    let z = z + 719_468;
    let era = if z >= 0 { z } else { z - 146_096 } / 146_097;
    let doe = z - era * 146_097;
    let yoe = (doe - doe / 1460 + doe / 36524 - doe / 146_096) / 365;
    let y = yoe + era * 400;
    let doy = doe - (365 * yoe + yoe / 4 - yoe / 100);
    let mp = (5 * doy + 2) / 153;
    let d = doy - (153 * mp + 2) / 5 + 1;
    let m = if mp < 10 { mp + 3 } else { mp - 9 };
    (if m <= 2 { y + 1 } else { y }, m, d)
}
fn fields(s: i64) -> [i64; 6] {
    let (y, m, d) = civil_from_days(s.div_euclid(86400));
    let r = s.rem_euclid(86400);
    [y, m, d, r / 3600, r / 60 % 60, r % 60]
}
fn got(dt: &DateTime) -> [i64; 6] {
    [dt.year, dt.month, dt.day, dt.hour, dt.min, dt.sec]
}
fn mlen(y: i64, m: i64) -> i64 {
    days_from_civil(if m == 12 { y + 1 } else { y }, if m == 12 { 1 } else { m + 1 }, 1) - days_from_civil(y, m, 1)
}

fn check_new(s: i64) -> Option<String> {
    let r = std::panic::catch_unwind(|| got(&DateTime::new(s)));
    match r {
        Ok(g) if g == fields(s) => None,
        Ok(g) => Some(format!("new secs={s} expected={:?} actual={:?}", fields(s), g)),
        Err(_) => Some(format!("new secs={s} expected={:?} actual=panic", fields(s))),
    }
}
/// a duration with a fraction of a second: the broken-down time has whole seconds, so the result is that of the whole seconds
/// (convert to seconds, add, convert back: the instant t + d lies in second t + floor(d))
fn check_add_frac(start: [i64; 6], d: u64, ns: u32) -> Option<String> {
    let s0 = days_from_civil(start[0], start[1], start[2]) * 86400 + start[3] * 3600 + start[4] * 60 + start[5];
    let want = fields(s0 + d as i64);
    let r = std::panic::catch_unwind(|| {
        let dt = DateTime { year: start[0], month: start[1], day: start[2], hour: start[3], min: start[4], sec: start[5] };
        got(&(dt + Duration::new(d, ns)))
    });
    match r {
        Ok(g) if g == want => None,
        Ok(g) => Some(format!("addfrac start={start:?} dur_secs={d} nanos={ns} expected={want:?} actual={g:?}")),
        Err(_) => Some(format!("addfrac start={start:?} dur_secs={d} nanos={ns} expected={want:?} actual=panic")),
    }
}
fn check_add(start: [i64; 6], d: u64) -> Option<String> {
    let s0 = days_from_civil(start[0], start[1], start[2]) * 86400 + start[3] * 3600 + start[4] * 60 + start[5];
    let want = fields(s0 + d as i64);
    let r = std::panic::catch_unwind(|| {
        let dt = DateTime { year: start[0], month: start[1], day: start[2], hour: start[3], min: start[4], sec: start[5] };
        got(&(dt + Duration::from_secs(d)))
    });
    match r {
        Ok(g) if g == want => None,
        Ok(g) => Some(format!("add start={start:?} dur_secs={d} expected={want:?} actual={g:?}")),
        Err(_) => Some(format!("add start={start:?} dur_secs={d} expected={want:?} actual=panic")),
    }
}
/// the rendering: iso8601_utc (cookie expiry, stdout logger) and the `time` member of a JSON log line must be the
/// reference fields, zero-padded and fixed-width: YYYY-MM-DDTHH:MM:SSZ
fn check_render(s: i64) -> Option<String> {
    use servlin::internal::FormatTime;
    let f = fields(s);
    let want = format!("{:04}-{:02}-{:02}T{:02}:{:02}:{:02}Z", f[0], f[1], f[2], f[3], f[4], f[5]);
    let t = std::time::UNIX_EPOCH + Duration::from_secs(s as u64);
    let got = match std::panic::catch_unwind(|| t.iso8601_utc()) { Ok(g) => g, Err(_) => return Some(format!("render secs={s} expected={want} actual=panic")) };
    if got != want { return Some(format!("render secs={s} expected={want} actual={got}")); }
    // a cookie's Expires attribute carries the same text
    let c: servlin::AsciiString = servlin::Cookie::new("n", servlin::AsciiString::new()).with_expires(t).into();
    if s != 0 && !c.as_str().contains(&format!("; Expires={want};")) { return Some(format!("render secs={s} expected=Expires={want} actual={}", c.as_str())); }
    None
}
/// a JSON log line and a log file name made now carry the current date-time in the same fixed-width forms
fn check_now_renderings() -> Option<String> {
    use servlin::internal::FormatTime;
    let before = std::time::SystemTime::now();
    let ev = servlin::log::internal::LogEvent::new(servlin::log::Level::Info, servlin::log::tag("msg", "x"));
    let mut line = Vec::new();
    let _ = ev.write_jsonl(&mut line);
    let dir = std::env::temp_dir().join(format!("verif-c16-{}", std::process::id()));
    let _ = std::fs::create_dir_all(&dir);
    let lf = servlin::log::internal::LogFile::create(&dir.join("log"));
    let after = std::time::SystemTime::now();
    let name = lf.as_ref().ok().map(|l| l.path.file_name().unwrap().to_string_lossy().to_string());
    let _ = std::fs::remove_dir_all(&dir);
    let line = String::from_utf8_lossy(&line).to_string();
    let stamps: Vec<String> = (0..=2).flat_map(|k| [before + Duration::from_secs(k), after + Duration::from_secs(k)]).chain([before, after]).map(|t| t.iso8601_utc()).collect();
    if !stamps.iter().any(|st| line.starts_with(&format!("{{\"time\":\"{st}\","))) { return Some(format!("render now expected=time member {} actual={line:?}", stamps[0])); }
    let compact: Vec<String> = stamps.iter().map(|st| st.replace(['-', ':'], "")).collect();
    match name { None => Some("render now expected=log file created actual=error".into()),
        Some(nm) => if compact.iter().any(|c| nm == format!("log.{c}-0")) { None } else { Some(format!("render now expected=log.{}-0 actual={nm}", compact[0])) } }
}

fn main() {
    std::panic::set_hook(Box::new(|_| {}));
    let args: Vec<String> = std::env::args().collect();
    if args.len() >= 3 && args[1] == "replay" {
        // replay "new secs=.." or "add start=[..] dur_secs=.."
        let w = args[2..].join(" ");
        let nums: Vec<i64> = w
            .split(|c: char| !(c.is_ascii_digit() || c == '-'))
            .filter(|s| !s.is_empty())
            .filter_map(|s| s.parse().ok())
            .collect();
        let r = if w.starts_with("render now") { check_now_renderings() } else if w.starts_with("render") { check_render(nums[0]) } else if w.starts_with("new") { check_new(nums[0]) } else if w.starts_with("addfrac") { check_add_frac([nums[0], nums[1], nums[2], nums[3], nums[4], nums[5]], nums[6] as u64, nums[7] as u32) } else {
            check_add([nums[0], nums[1], nums[2], nums[3], nums[4], nums[5]], nums[6] as u64)
        };
        match r {
            Some(m) => { println!("WITNESS {m}"); std::process::exit(1) }
            None => { println!("OK witness no longer fails"); std::process::exit(0) }
        }
    }
    let thorough = args.iter().any(|a| a == "--thorough");
    let mut n = 0u64;
    let mut found: Vec<String> = Vec::new();
    // DateTime::new on a boundary grid
    let day_step = if thorough { 1 } else { 97 };
    let mut day = 0i64;
    let last = days_from_civil(9999, 12, 31);
    while day <= last {
        for sod in [0, 1, 59, 60, 3599, 3600, 86399] {
            n += 1;
            if let Some(m) = check_new(day * 86400 + sod) { if found.len() < 5 { found.push(m) } }
        }
        day += day_step;
    }
    // addition: start dates x durations
    let durs: [u64; 9] = [0, 1, 1, 365, 366, 367, 1461, 36524, 146_097];
    for y in 1970..=2405 {
        for m in 1..=12 {
            for d in [1, mlen(y, m)] {
                for (i, du) in durs.iter().enumerate() {
                    let secs = if i < 2 { *du } else { du * 86400 };
                    for tod in [[0, 0, 0], [23, 59, 59]] {
                        n += 1;
                        if let Some(msg) = check_add([y, m, d, tod[0], tod[1], tod[2]], secs) { if found.len() < 5 { found.push(msg) } }
                    }
                }
            }
        }
    }
    // durations with a fraction of a second, at starts where one more second would carry into the next minute / day / month / year
    for start in [[1970i64, 1, 1, 0, 0, 0], [1999, 12, 31, 23, 59, 59], [2100, 2, 28, 23, 59, 59], [2024, 2, 29, 23, 59, 58], [2024, 6, 15, 12, 30, 59], [9999, 12, 31, 23, 59, 58]] {
        for d in [0u64, 1, 59, 86399, 30 * 86400] { for ns in [1u32, 499_999_999, 500_000_000, 999_999_999] {
            n += 1;
            if let Some(msg) = check_add_frac(start, d, ns) { if found.len() < 5 { found.push(msg) } }
        }}
    }
    // rendering on the same grid (coarser) and around every power of ten of each field
    let mut day = 0i64;
    while day <= last {
        for sod in [0, 9, 10, 3599, 36000, 86399] { n += 1; if let Some(m) = check_render(day * 86400 + sod) { if found.len() < 5 { found.push(m) } } }
        day += if thorough { 13 } else { 997 };
    }
    for (y, m, d) in [(1970, 1, 1), (1999, 9, 9), (1999, 10, 10), (2000, 2, 29), (2009, 12, 31), (2010, 1, 1), (9999, 12, 31), (2026, 10, 5)] {
        for sod in [0, 1, 9 * 3600 + 9 * 60 + 9, 10 * 3600 + 10 * 60 + 10, 86399] { n += 1; if let Some(msg) = check_render(days_from_civil(y, m, d) * 86400 + sod) { if found.len() < 5 { found.push(msg) } } }
    }
    n += 1; if let Some(m) = check_now_renderings() { if found.len() < 5 { found.push(m) } }
    println!("EVALUATED {n}");
    for f in &found { println!("WITNESS {f}"); }
    std::process::exit(if found.is_empty() { 0 } else { 1 });
}
