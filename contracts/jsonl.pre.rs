// ---- unit jsonl: the writing side's spec
pub assume_specification[ char::from_digit ](num: u32, radix: u32) -> (r: Option<char>)
    ensures radix == 16 && num < 16 ==> r == Some(hexc(num as int));

// ---- the writing side's spec (shaped like the code)
pub open spec fn hexc(d: int) -> char { if d < 10 { (48 + d) as u8 as char } else { (87 + d) as u8 as char } }
pub open spec fn esc(c: char) -> Seq<char> {
    let n = c as u32;
    if c == '"' { seq!['\\', '"'] } else if c == '\\' { seq!['\\', '\\'] } else if c == '\n' { seq!['\\', 'n'] }
    else if c == '\r' { seq!['\\', 'r'] } else if c == '\t' { seq!['\\', 't'] }
    else if n < 0x20 { seq!['\\', 'u', '0', '0', if n < 0x10 { '0' } else { '1' }, hexc((n % 16) as int)] }
    else { seq![c] }
}
pub open spec fn esc_all(s: Seq<char>) -> Seq<char> decreases s.len() {
    if s.len() == 0 { Seq::empty() } else { esc_all(s.drop_last()) + esc(s.last()) }
}
pub open spec fn json_str(s: Seq<char>) -> Seq<char> { seq!['"'] + esc_all(s) + seq!['"'] }
// a tag value as it is written (taken from the property: strings as JSON strings, integers in decimal, booleans,
// null; a float is the text std produced for a finite f32 / f64)
pub open spec fn value_json(v: TagValue) -> Seq<char> {
    match v {
        TagValue::Str(x) => json_str(x@),
        TagValue::String(x) => json_str(x@),
        TagValue::Bool(x) => if x { seq!['t', 'r', 'u', 'e'] } else { seq!['f', 'a', 'l', 's', 'e'] },
        TagValue::I8(x) => dec_int(x as int),
        TagValue::I16(x) => dec_int(x as int),
        TagValue::I32(x) => dec_int(x as int),
        TagValue::I64(x) => dec_int(x as int),
        TagValue::I128(x) => dec_int(x as int),
        TagValue::U8(x) => dec_int(x as int),
        TagValue::U16(x) => dec_int(x as int),
        TagValue::U32(x) => dec_int(x as int),
        TagValue::U64(x) => dec_int(x as int),
        TagValue::U128(x) => dec_int(x as int),
        TagValue::Usize(x) => dec_int(x as int),
        TagValue::Float(x) => x@,
        TagValue::Null => seq!['n', 'u', 'l', 'l'],
    }
}
pub open spec fn member_json(t: Tag) -> Seq<char> { json_str(t.name@) + seq![':'] + value_json(t.value) }
// the members of the tag list, comma separated, in list order
pub open spec fn tags_json(ts: Seq<Tag>) -> Seq<char> decreases ts.len() {
    if ts.len() == 0 { Seq::empty() }
    else if ts.len() == 1 { member_json(ts[0]) }
    else { tags_json(ts.drop_last()) + seq![','] + member_json(ts.last()) }
}
pub proof fn lemma_tags_step(ts: Seq<Tag>, k: int)
    requires 1 <= k < ts.len()
    ensures tags_json(ts.take(k + 1)) == tags_json(ts.take(k)) + seq![','] + member_json(ts[k])
{
    assert(ts.take(k + 1).drop_last() =~= ts.take(k));
    assert(ts.take(k + 1).last() == ts[k]);
}
pub open spec fn level_text(l: Level) -> Seq<char> {
    match l {
        Level::Error => seq!['e', 'r', 'r', 'o', 'r'],
        Level::Info => seq!['i', 'n', 'f', 'o'],
        Level::Debug => seq!['d', 'e', 'b', 'u', 'g'],
    }
}
// the clock conversions (src/time.rs; DateTime::new is proved in unit `time`, C16): assumed here to be functions of the instant
pub uninterp spec fn epoch_ns_of(t: SystemTime) -> u64;
pub uninterp spec fn datetime_of(t: SystemTime) -> DateTime;
pub trait EpochTime { fn epoch_ns(&self) -> u64; }
impl EpochTime for SystemTime {
    #[verifier::external_body]
    fn epoch_ns(&self) -> (r: u64) ensures r == epoch_ns_of(*self) { unimplemented!() }
}
pub trait ToDateTime { fn to_datetime(&self) -> DateTime; }
impl ToDateTime for SystemTime {
    #[verifier::external_body]
    fn to_datetime(&self) -> (r: DateTime) ensures r == datetime_of(*self) { unimplemented!() }
}
// the line as the sequence of pieces that are written (left-nested, so that the writer's contract chain matches it
// term for term), taken from the property: one object with the fixed time, level and time_ns members and one member per
// tag in between, ended by a line break
pub open spec fn line_front(o: Seq<char>, ev: LogEvent) -> Seq<char> {
    let dt = datetime_of(ev.time_());
    let h = o + seq!['{', '"', 't', 'i', 'm', 'e', '"', ':', '"'] + pad_int(dt.year as int, 4) + seq!['-'] + pad_int(dt.month as int, 2) + seq!['-']
        + pad_int(dt.day as int, 2) + seq!['T'] + pad_int(dt.hour as int, 2) + seq![':'] + pad_int(dt.min as int, 2) + seq![':']
        + pad_int(dt.sec as int, 2) + seq!['Z', '"', ',', '"', 'l', 'e', 'v', 'e', 'l', '"', ':', '"'] + level_text(ev.level_());
    if ev.tags_().0@.len() == 0 {
        h + seq!['"', ',', '"', 't', 'i', 'm', 'e', '_', 'n', 's', '"', ':'] + dec_int(epoch_ns_of(ev.time_()) as int)
    } else {
        h + seq!['"', ','] + tags_json(ev.tags_().0@) + seq![',', '"', 't', 'i', 'm', 'e', '_', 'n', 's', '"', ':'] + dec_int(epoch_ns_of(ev.time_()) as int)
    }
}
pub open spec fn line_after(o: Seq<char>, ev: LogEvent) -> Seq<char> { line_front(o, ev) + seq!['}', '\n'] }
pub open spec fn jsonl_line(ev: LogEvent) -> Seq<char> { line_after(Seq::empty(), ev) }
