fn canary_ctype(s: &str) {
    let r = ContentType::parse(s);
    assert(false);
}
