// (spec functions: timespec.pre.rs)
pub proof fn lemma_dby_step(y: int)
    requires y >= 1
    ensures dby(y + 1) - dby(y) == ylen(y)
{}
pub proof fn lemma_dbm(y: int)
    ensures dbm(y, 1) == 0, dbm(y,2) == 31, dbm(y,3) == 31 + mlen(y,2), dbm(y,4) == 62 + mlen(y,2),
      dbm(y,5) == 92 + mlen(y,2), dbm(y,6) == 123 + mlen(y,2), dbm(y,7) == 153 + mlen(y,2), dbm(y,8) == 184 + mlen(y,2),
      dbm(y,9) == 215 + mlen(y,2), dbm(y,10) == 245 + mlen(y,2), dbm(y,11) == 276 + mlen(y,2), dbm(y,12) == 306 + mlen(y,2),
      dbm(y,13) == 337 + mlen(y,2), dbm(y,13) == ylen(y),
{
    reveal_with_fuel(dbm, 14);
}

