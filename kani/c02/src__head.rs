    // trim_trailing_cr strips exactly one trailing CR (bounded: slices of up to 4 symbolic bytes)
    // @harness class=bounded bound="slice length <= 4"
    #[kani::proof]
    #[kani::unwind(6)]
    fn c02_trim_trailing_cr() {
        let a: [u8; 4] = kani::any();
        let n: usize = kani::any();
        kani::assume(n <= 4);
        let s = &a[..n];
        let r = trim_trailing_cr(s);
        if n > 0 && s[n - 1] == b'\r' {
            assert!(r.len() == n - 1);
        } else {
            assert!(r.len() == n);
        }
        assert!(r == &s[..r.len()]);
    }
