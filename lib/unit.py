"""unit -- build one Verus verification unit from /repo's working tree + a sidecar,
run Verus on it and map the diagnostics back to obligations.

Sidecar grammar (contracts/<unit>.spec), line oriented:

    unit NAME
    rules D1 D2 D3 R2 R5           # rewrite rules enabled for every item of the unit
    preamble FILE                   # spec fns, lemmas, dependency stand-ins (relative to contracts/)
    postamble FILE                  # smoke callers / lemmas that need the extracted items
    item SRC :: PATH                # e.g. item src/time.rs :: impl DateTime / fn balance_day
      keep_attrs                    # copy the outer attributes as well (default: dropped)
      fn NAME                       # (whole-impl items) select the fn the following sites refer to
      result NAME                   # name the return value:  -> T   becomes   -> (NAME: T)
      selfmut                       # rule R4 for `mut self` receivers
      @attr | @sig | @body_start | @body_end | @loop K header | @loop K start | @loop K end
      @loop K iter | @return K | @before_item | @after_item
        ...text copied verbatim to that site...

Text is only ever *inserted* at those ordinal sites; item text is copied verbatim and
changed only by the rewrite rules.
"""
import hashlib
import json
import os
import re
import subprocess
import time

import rsx

REPO = os.environ.get("VERIF_REPO", "/repo")
VERIF = os.path.dirname(os.path.dirname(os.path.abspath(__file__)))


class Undecided(Exception):
    """anything that prevents a verdict: lost anchor, unsupported construct, tool failure"""


# --------------------------------------------------------------------------- sidecar

class ItemSpec:
    def __init__(self, src, path):
        self.src, self.path = src, path
        self.keep_attrs = False
        self.fns = {}          # fn name (or "" for a plain fn item) -> FnSpec
        self.before = []
        self.after = []
        self.order = []
        self.region = None
        self.d4 = []          # [("subst", a, b) | ("delete", text)]
        self.contract_of = None   # use_contract: name of the unit where this fn's contract is proved


class FnSpec:
    def __init__(self):
        self.result = None
        self.selfmut = False
        self.literals = False
        self.strlits = False
        self.loopkinds = None   # expected kinds of the fn's loops (for / while / loop), in order, on the tree the proof was written for
        self.refpats = []
        self.sites = {}        # site key -> [lines]


def parse_sidecar(path):
    spec = {"unit": None, "rules": [], "preamble": [], "postamble": [], "items": [], "path": path, "crate_attrs": [], "rlimit": None}
    cur_item = None
    cur_fn = None
    cur_site = None
    for ln, raw in enumerate(open(path).read().split("\n"), 1):
        line = raw.rstrip()
        s = line.strip()
        is_directive = (s.startswith("@") or s.startswith("item ") or s.startswith("use_item ") or s.startswith("use_contract ") or s.startswith("region ")
                        or s in ("keep_attrs", "selfmut", "literals", "strlits") or s.startswith("subst ") or s.startswith("delete ") or s.startswith("replace ") or s == "loopkinds" or s.startswith("loopkinds ")
                        or re.match(r"(fn|result|refpat) \w+$", s) is not None)
        if cur_site is not None and not is_directive:
            # the text of a site is indented; a line in column 0 is sidecar-level: `#` starts a comment, anything else is a
            # mistake (it would be injected into the code -- a `//` line swallowing the statement after it)
            if raw[:1] not in (" ", "\t", ""):
                if s.startswith("#"):
                    continue
                raise Undecided("%s:%d: unindented text inside a site (sidecar comments start with `#`): %r" % (path, ln, s[:80]))
            cur_site.append(raw)
            continue
        if not s or s.startswith("#"):
            continue
        if s.startswith("unit "):
            spec["unit"] = s[5:].strip()
        elif s.startswith("regex "):
            lit, _, repl = s[6:].rpartition(" => ")
            spec.setdefault("regex_map", {})[lit.strip()] = repl.strip()
        elif s.startswith("rlimit "):
            spec["rlimit"] = float(s.split()[1])
        elif s.startswith("assert_stmt ") or s.startswith("assert_count "):
            # syntactic side conditions of an assumed contract, checked on the working tree every run:
            #   assert_stmt  SRC :: ITEM :: K :: TOKENS     statement K of the fn body is exactly TOKENS
            #   assert_count SRC :: ITEM :: TOKENS :: N     TOKENS occurs exactly N times in the item
            spec.setdefault("syntactic", []).append(s)
        elif s.startswith("io_unwrap "):
            spec.setdefault("io_unwrap", []).extend(s.split()[1:])
        elif s.startswith("crate_attr "):
            spec["crate_attrs"].append(s[11:].strip())
        elif s == "rules" or s.startswith("rules "):
            spec["rules"] = s.split()[1:]
        elif s.startswith("preamble "):
            spec["preamble"].append(s.split(None, 1)[1])
        elif s.startswith("postamble "):
            spec["postamble"].append(s.split(None, 1)[1])
        elif s.startswith("use_item "):
            # reuse an item (with its contracts and hints) from another sidecar: the function is
            # re-verified here against the same contract text, so the two units cannot drift apart
            other, _, ipath = s[9:].partition("::")
            osp = parse_sidecar(os.path.join(os.path.dirname(path), other.strip()))
            hits = [it for it in osp["items"] if it.path == ipath.strip()]
            if len(hits) != 1:
                raise Undecided("%s:%d: use_item: %d matches" % (path, ln, len(hits)))
            spec["items"].append(hits[0])
            cur_item = cur_fn = cur_site = None
        elif s.startswith("use_contract "):
            # modular reuse: the fn's signature and contract (@attr is dropped, @sig / result kept) from another
            # sidecar, body replaced by unimplemented!() under external_body -- the body is proved against exactly
            # this contract text in that other unit (bin/check makes sure that unit runs for the same property)
            import copy as _copy
            other, _, ipath = s[13:].partition("::")
            osp = parse_sidecar(os.path.join(os.path.dirname(path), other.strip()))
            hits = [it for it in osp["items"] if it.path == ipath.strip()]
            if len(hits) != 1:
                raise Undecided("%s:%d: use_contract: %d matches" % (path, ln, len(hits)))
            it_ = _copy.deepcopy(hits[0])
            it_.contract_of = osp["unit"]
            spec["items"].append(it_)
            spec.setdefault("contract_units", []).append(osp["unit"])
            cur_item = cur_fn = cur_site = None
        elif s.startswith("region "):
            # region SRC :: ITEM :: first_with "LIT" :: N  -- N consecutive top-level statements of the fn,
            # starting at the first one that contains the literal token; wrapped in the @open / @close text
            f = [x.strip() for x in s[7:].split(" :: ")]
            cur_item = ItemSpec(f[0], f[1])
            kind_, arg_ = f[2].split(None, 1)
            # kinds: first_with "LIT" | first_call NAME | loop_body K (the statements of the body of the fn's K-th loop,
            # wherever it is nested -- e.g. inside a closure; N may be `all`)
            pre_ = {"first_with": "", "first_call": "call:", "loop_body": "loop:"}[kind_]
            cur_item.region = (pre_ + arg_.strip(), (-1 if f[3] == "all" else int(f[3])))
            spec["items"].append(cur_item)
            cur_fn = cur_item.fns.setdefault("", FnSpec())
            cur_site = None
        elif s.startswith("item "):
            src, _, p = s[5:].partition("::")
            cur_item = ItemSpec(src.strip(), p.strip())
            spec["items"].append(cur_item)
            cur_fn = None
            cur_site = None
            if " / fn " in p or p.strip().startswith("fn "):
                cur_fn = cur_item.fns.setdefault("", FnSpec())
        elif s.startswith("subst ") and cur_item is not None and " => " in s:
            a_, _, b_ = s[6:].partition(" => ")
            cur_item.d4.append(("subst", a_.strip(), b_.strip()))
            cur_site = None
        elif s.startswith("replace ") and cur_item is not None and " =>> " in s:
            # S1: the exact token sequence A (must occur exactly once in the item) is replaced by B, a call of a
            # stand-in with an assumed contract; keyed to the exact tokens, so any edit of A leaves no stand-in (undecided)
            a_, _, b_ = s[8:].partition(" =>> ")
            cur_item.d4.append(("replace", a_.strip(), b_.strip()))
            cur_site = None
        elif s.startswith("delete ") and cur_item is not None:
            cur_item.d4.append(("delete", s[7:].strip()))
            cur_site = None
        elif s == "keep_attrs":
            cur_item.keep_attrs = True
            cur_site = None
        elif s.startswith("fn "):
            cur_fn = cur_item.fns.setdefault(s[3:].strip(), FnSpec())
            cur_site = None
        elif s.startswith("result "):
            cur_fn.result = s[7:].strip()
            cur_site = None
        elif s == "selfmut":
            cur_fn.selfmut = True
            cur_site = None
        elif s == "literals":
            cur_fn.literals = True
            cur_site = None
        elif s == "strlits":
            cur_fn.strlits = True
            cur_site = None
        elif s == "loopkinds" or s.startswith("loopkinds "):
            cur_fn.loopkinds = s.split()[1:]
            cur_site = None
        elif s.startswith("refpat "):
            cur_fn.refpats.append(s[7:].strip())
            cur_site = None
        elif s.startswith("@"):
            key = " ".join(s[1:].split())
            if key in ("before_item", "after_item"):
                cur_site = cur_item.before if key == "before_item" else cur_item.after
            else:
                if cur_fn is None:
                    raise Undecided("%s:%d: site outside a fn" % (path, ln))
                cur_site = cur_fn.sites.setdefault(key, [])
        else:
            raise Undecided("%s:%d: cannot parse %r" % (path, ln, s))
    return spec


# --------------------------------------------------------------------------- generation

def _strip_blank(lines):
    while lines and not lines[-1].strip():
        lines = lines[:-1]
    return "\n".join(lines)


def instrument_fn(ftext, fspec, ed, base, rules, label, contract_of=None):
    """record the injections for one fn (text `ftext` located at offset `base` of the item)"""
    an = rsx.FnAnatomy(ftext)
    st = an.st
    sites = dict(fspec.sites)
    used = set()
    if contract_of is not None:
        # signature + contract only; the body is cut (kept in the marker) and proved in unit `contract_of`
        if an.body_open is None:
            raise Undecided("%s: use_contract on a fn without body" % label)
        ed.insert(base, "#[verifier::external_body] /* contract proved in unit %s */\n" % contract_of)
        if fspec.result:
            ed.insert(base + st[an.ret_start].start, "(" + fspec.result + ": ")
            ed.insert(base + st[an.ret_end - 1].end, ")")
        if "sig" in sites:
            ed.insert(base + an.sig_end_off, "\n" + _strip_blank(sites["sig"]) + "\n")
        ed.replace(base + st[an.body_open].start, base + st[an.body_close].end, "UC", "{ unimplemented!() }")
        return an

    def take(key):
        used.add(key)
        return _strip_blank(sites[key]) if key in sites else None

    t = take("attr")
    if t:
        ed.insert(base, t + "\n")
    if fspec.result:
        if an.ret_start is None:
            raise Undecided("%s: result name given but fn has no return type" % label)
        ed.insert(base + st[an.ret_start].start, "(" + fspec.result + ": ")
        ed.insert(base + st[an.ret_end - 1].end, ")")
    t = take("sig")
    if t:
        ed.insert(base + an.sig_end_off, "\n" + t + "\n")
    if an.body_open is None:
        if set(sites) - used:
            raise Undecided("%s: sites %s on a fn without body" % (label, sorted(set(sites) - used)))
        return an
    body_start_txt = take("body_start") or ""
    if fspec.literals:
        # Verus gives byte-string literals no interpretation: state what each literal token of this
        # fn denotes, generated from the token itself (so the axiom cannot drift from the code).
        seen = []
        for q in range(an.body_open + 1, an.body_close):
            tk = st[q]
            if tk.kind == "str" and tk.text.startswith("b") and tk.text not in seen:
                seen.append(tk.text)
        ax = []
        for lit in seen:
            if lit.startswith("br"):
                inner = lit[lit.index('"') + 1:lit.rindex('"')]
                bs = inner.encode()
            else:
                import ast
                bs = ast.literal_eval(lit)
            ax.append("assume(%s@ == seq![%s]);" % (lit, ", ".join("%du8" % b for b in bs)))
        if ax:
            body_start_txt = "proof { // literal axioms generated from the literal tokens\n" + "\n".join(ax) + "\n}\n" + body_start_txt
    strlit_txt = ""
    if fspec.strlits:
        # string literals get their meaning from Verus' reveal_strlit, generated from the literal tokens of this fn;
        # loops are verified in isolation, so the reveal is repeated at the start of every loop body
        seen = []
        for q in range(an.body_open + 1, an.body_close):
            tk = st[q]
            if tk.kind == "str" and tk.text.startswith('"') and tk.text not in seen:
                seen.append(tk.text)
        if seen:
            strlit_txt = "proof { " + " ".join("reveal_strlit(%s);" % l_ for l_ in seen) + " }\n"
            body_start_txt = strlit_txt + body_start_txt
    if fspec.selfmut:
        # R4: `mut self` receiver -> `self` + `let mut self_ = self;` + self -> self_ in the body
        p = an.params_open + 1
        if not (rsx.is_id(st[p], "mut") and rsx.is_id(st[p + 1], "self")):
            raise Undecided("%s: selfmut but receiver is not `mut self`" % label)
        ed.replace(base + st[p].start, base + st[p + 1].end, "R4", "self")
        for q in range(an.body_open + 1, an.body_close):
            if rsx.is_id(st[q], "self"):
                ed.replace(base + st[q].start, base + st[q].end, "R4", "self_")
        body_start_txt = "let mut self_ = self;\n" + body_start_txt
    if body_start_txt:
        ed.insert(base + st[an.body_open].end, "\n" + body_start_txt + "\n")
    t = take("body_end")
    if t:
        stmts = an.statements(an.body_open, an.body_close)
        if stmts and not stmts[-1][2]:
            # tail expression: insert before it
            ed.insert(base + st[stmts[-1][0]].start, t + "\n")
        else:
            ed.insert(base + st[an.body_close].start, t + "\n")
    loops = an.loops()
    if fspec.loopkinds is not None and [k_ for (_a, _b, _c, k_) in loops] != fspec.loopkinds:
        # the loop invariants of the sidecar were written for another loop skeleton (e.g. `while c {..}` became
        # `loop { if !c { break; } .. }`): they no longer say anything about this text -- no verdict, never an alarm
        raise Undecided("%s: loop structure changed (%s, the proof was written for %s): the loop contracts do not apply"
                        % (label, " ".join(k_ for (_a, _b, _c, k_) in loops) or "no loops", " ".join(fspec.loopkinds) or "no loops"))
    if strlit_txt:
        for (_kw, bo_, _bc, _kind) in loops:
            if ("loop %d start" % loops.index((_kw, bo_, _bc, _kind))) not in sites:
                ed.insert(base + st[bo_].end, "\n" + strlit_txt)
    for key in list(sites):
        m = re.match(r"loop (\d+) before$", key)
        if m:
            # just before the K-th loop statement (anchored on the loop, not on a statement ordinal)
            k = int(m.group(1))
            if k >= len(loops):
                raise Undecided("%s: loop %d not found (fn has %d loops)" % (label, k, len(loops)))
            ed.insert(base + st[loops[k][0]].start, take(key) + "\n")
            continue
        m = re.match(r"loop (\d+) (header|start|end|iter)$", key)
        if m:
            k = int(m.group(1))
            if k >= len(loops):
                raise Undecided("%s: loop %d not found (fn has %d loops)" % (label, k, len(loops)))
            kw, bo, bc, kind = loops[k]
            txt = take(key)
            if m.group(2) == "header":
                ed.insert(base + st[bo].start, "\n" + txt + "\n")
            elif m.group(2) == "start":
                ed.insert(base + st[bo].end, "\n" + strlit_txt + txt + "\n")
            elif m.group(2) == "end":
                ed.insert(base + st[bc].start, txt + "\n")
            else:
                # `for x in EXPR` -> `for x in NAME: EXPR`
                if kind != "for":
                    raise Undecided("%s: loop %d is not a for loop" % (label, k))
                q = kw
                while not rsx.is_id(st[q], "in"):
                    q += 1
                ed.insert(base + st[q].end, " " + txt.strip() + ": ")
            continue
        m = re.match(r"(?:loop (\d+) )?stmt (-?\d+)$", key)
        if m:
            if m.group(1) is None:
                bo, bc = an.body_open, an.body_close
            else:
                k = int(m.group(1))
                if k >= len(loops):
                    raise Undecided("%s: loop %d not found (fn has %d loops)" % (label, k, len(loops)))
                bo, bc = loops[k][1], loops[k][2]
            stmts = an.statements(bo, bc)
            n = int(m.group(2))
            if not (-len(stmts) <= n < len(stmts)):
                raise Undecided("%s: statement %d not found (%d statements)" % (label, n, len(stmts)))
            ed.insert(base + st[stmts[n][0]].start, take(key) + "\n")
            continue
        m = re.match(r"(before|after)_stmt_starting (.+)$", key)
        if m:
            # before / after the top-level statement of the fn body whose first tokens are TOKENS (exactly one)
            want_ = [t_.text for t_ in rsx.sig_tokens(rsx.lex(m.group(2)))]
            stmts = an.statements(an.body_open, an.body_close)
            hits_ = [(a_, b_) for (a_, b_, _t) in stmts if [t_.text for t_ in st[a_:a_ + len(want_)]] == want_]
            if len(hits_) != 1:
                raise Undecided("%s: lost anchor: %d top-level statements start with `%s`" % (label, len(hits_), m.group(2)))
            a_, b_ = hits_[0]
            if m.group(1) == "before":
                ed.insert(base + st[a_].start, take(key) + "\n")
            else:
                ed.insert(base + st[b_].end, "\n" + take(key) + "\n")
            continue
        m = re.match(r"(before|after)_stmt_with (\".*\")$", key)
        if m:
            # before / after the top-level statement of the fn body that contains the string-literal token LIT
            # (must be exactly one statement): anchored on the literal, not on a statement ordinal
            stmts = an.statements(an.body_open, an.body_close)
            hits_ = [(a_, b_) for (a_, b_, _t) in stmts if any(st[q].kind == "str" and st[q].text == m.group(2) for q in range(a_, b_ + 1))]
            if len(hits_) != 1:
                raise Undecided("%s: lost anchor: %d top-level statements contain the literal %s" % (label, len(hits_), m.group(2)))
            a_, b_ = hits_[0]
            if m.group(1) == "before":
                ed.insert(base + st[a_].start, take(key) + "\n")
            else:
                ed.insert(base + st[b_].end, "\n" + take(key) + "\n")
            continue
        m = re.match(r"inner_before_call (\w+)(?: (\d+))?$", key)
        if m:
            # before the innermost statement (in the innermost block) containing the n-th call of NAME
            want_n = int(m.group(2) or 0)
            calls_ = [q for q in range(an.body_open + 1, an.body_close - 1)
                      if rsx.is_id(st[q], m.group(1)) and rsx.is_p(st[q + 1], "(")]
            if want_n >= len(calls_):
                raise Undecided("%s: lost anchor: call %s #%d not found (fn has %d)" % (label, m.group(1), want_n, len(calls_)))
            qc = calls_[want_n]
            # innermost enclosing block; if the call sits in a match-arm expression (`PAT => EXPR,`: a top-level `=>`
            # between the start of the containing "statement" and the call), the arm expression is wrapped in braces
            # with the inserted text first -- `PAT => { TEXT EXPR },` -- an insertion-only edit
            blk_open = max(q0 for q0 in range(an.body_open, qc) if rsx.is_p(st[q0], "{") and rsx.match_close(st, q0) > qc)
            blk_close = rsx.match_close(st, blk_open)
            cand = None
            for (s0, s1, _t) in an.statements(blk_open, blk_close):
                if s0 <= qc <= s1:
                    cand = s0
            if cand is None:
                raise Undecided("%s: lost anchor: statement of call %s #%d" % (label, m.group(1), want_n))
            depth_ = 0
            arrow = None
            for q1 in range(cand, qc):
                if st[q1].kind == "punct" and st[q1].text in rsx.OPEN:
                    depth_ += 1
                elif st[q1].kind == "punct" and st[q1].text in rsx.CLOSE:
                    depth_ -= 1
                elif depth_ == 0 and rsx.is_p(st[q1], "=") and rsx.is_p(st[q1 + 1], ">") and st[q1 + 1].start == st[q1].end:
                    arrow = q1
            if arrow is None:
                ed.insert(base + st[cand].start, take(key) + "\n")
                continue
            e0 = arrow + 2
            depth_ = 0
            e1 = None
            for q1 in range(e0, blk_close + 1):
                if st[q1].kind == "punct" and st[q1].text in rsx.OPEN:
                    depth_ += 1
                elif st[q1].kind == "punct" and st[q1].text in rsx.CLOSE:
                    if depth_ == 0:
                        e1 = q1
                        break
                    depth_ -= 1
                elif depth_ == 0 and rsx.is_p(st[q1], ","):
                    e1 = q1
                    break
            if e1 is None or e1 <= qc:
                raise Undecided("%s: lost anchor: arm expression of call %s #%d" % (label, m.group(1), want_n))
            ed.insert(base + st[e0].start, "{ " + take(key) + "\n")
            ed.insert(base + st[e1].start, " }")
            continue
        m = re.match(r"(?:loop (\d+) )?after_call (\w+)(?: (\d+))?$", key)
        if m:
            # after the top-level statement (of the fn body / of loop K's body) that contains the n-th call of NAME
            if m.group(1) is None:
                bo, bc = an.body_open, an.body_close
            else:
                k = int(m.group(1))
                if k >= len(loops):
                    raise Undecided("%s: loop %d not found (fn has %d loops)" % (label, k, len(loops)))
                bo, bc = loops[k][1], loops[k][2]
            want_n = int(m.group(3) or 0)
            hit = None
            cnt = 0
            for (s0, s1, _t) in an.statements(bo, bc):
                for q in range(s0, s1 + 1):
                    if rsx.is_id(st[q], m.group(2)) and q + 1 < len(st) and rsx.is_p(st[q + 1], "("):
                        if cnt == want_n and hit is None:
                            hit = s1
                        cnt += 1
            if hit is None:
                raise Undecided("%s: lost anchor: call %s #%d not found in block" % (label, m.group(2), want_n))
            ed.insert(base + st[hit].end, "\n" + take(key) + "\n")
            continue
        m = re.match(r"(?:loop (\d+) )?before_call (\w+)(?: (\d+))?$", key)
        if m:
            # before the top-level statement (of the fn body / of loop K's body) that contains the
            # n-th call of NAME; anchored on the callee identifier only, never on statement text
            if m.group(1) is None:
                bo, bc = an.body_open, an.body_close
            else:
                k = int(m.group(1))
                if k >= len(loops):
                    raise Undecided("%s: loop %d not found (fn has %d loops)" % (label, k, len(loops)))
                bo, bc = loops[k][1], loops[k][2]
            want_n = int(m.group(3) or 0)
            hit = None
            cnt = 0
            for (s0, s1, _t) in an.statements(bo, bc):
                for q in range(s0, s1 + 1):
                    if rsx.is_id(st[q], m.group(2)) and q + 1 < len(st) and rsx.is_p(st[q + 1], "("):
                        if cnt == want_n and hit is None:
                            hit = s0
                        cnt += 1
            if hit is None:
                raise Undecided("%s: lost anchor: call %s #%d not found in block" % (label, m.group(2), want_n))
            ed.insert(base + st[hit].start, take(key) + "\n")
            continue
        m = re.match(r"closure (\d+)( \?)?$", key)
        if m:
            # k-th closure of the fn: `|params| BODY` -> `|params| SPEC { BODY }` (two pure insertions)
            k = int(m.group(1))
            cl = []
            q = an.body_open + 1
            while q < an.body_close:
                tq = st[q]
                if rsx.is_p(tq, "|") and (rsx.is_id(st[q - 1], "move") or rsx.is_id(st[q - 1], "return")
                                          or (st[q - 1].kind == "punct" and st[q - 1].text in "(,={;")):
                    if rsx.is_p(st[q + 1], "|"):
                        pe = q + 1
                    else:
                        pe = q + 1
                        while not rsx.is_p(st[pe], "|"):
                            if st[pe].kind == "punct" and st[pe].text in rsx.OPEN:
                                pe = rsx.match_close(st, pe)
                            pe += 1
                    b0 = pe + 1
                    if rsx.is_p(st[b0], "{"):
                        b1 = rsx.match_close(st, b0)
                    else:
                        b1 = b0
                        while True:
                            tb = st[b1]
                            if tb.kind == "punct" and tb.text in rsx.OPEN:
                                b1 = rsx.match_close(st, b1) + 1
                                continue
                            if rsx.is_p(tb, ",") or rsx.is_p(tb, ";") or (tb.kind == "punct" and tb.text in rsx.CLOSE):
                                break
                            b1 += 1
                        b1 -= 1
                    cl.append((b0, b1))
                    q = pe + 1
                    continue
                q += 1
            if k >= len(cl):
                if m.group(2):
                    take(key)   # optional site: the closure it would specify is not there
                    continue
                raise Undecided("%s: closure %d not found (fn has %d)" % (label, k, len(cl)))
            b0, b1 = cl[k]
            ed.insert(base + st[b0].start, take(key).strip() + " { ")
            ed.insert(base + st[b1].end, " }")
            continue
        m = re.match(r"(return|break) (-?\d+)$", key)
        if m:
            k = int(m.group(2))     # negative: counted from the last one
            rets = an.returns() if m.group(1) == "return" else [i for i in range(an.body_open + 1, an.body_close) if rsx.is_id(st[i], "break")]
            if k < 0:
                k += len(rets)
            if k < 0 or k >= len(rets):
                raise Undecided("%s: %s %d not found (fn has %d)" % (label, m.group(1), k, len(rets)))
            r = rets[k]
            txt = take(key)
            prev = st[r - 1]
            if rsx.is_p(prev, ">") and rsx.is_p(st[r - 2], "="):
                # match arm without block: wrap `return E` in braces
                q = r
                while True:
                    tq = st[q]
                    if tq.kind == "punct" and tq.text in rsx.OPEN:
                        q = rsx.match_close(st, q) + 1
                        continue
                    if rsx.is_p(tq, ",") or (tq.kind == "punct" and tq.text in rsx.CLOSE):
                        break
                    q += 1
                ed.insert(base + st[r].start, "{ " + txt + " ")
                ed.insert(base + st[q - 1].end, " }")
            else:
                ed.insert(base + st[r].start, txt + " ")
            continue
    left = set(sites) - used
    if left:
        raise Undecided("%s: unknown sites %s" % (label, sorted(left)))
    # R1: reference patterns named in the sidecar by the bound identifier
    for name in fspec.refpats:
        hits = 0
        for q in range(an.body_open + 1, an.body_close - 1):
            if rsx.is_p(st[q], "&") and rsx.is_id(st[q + 1], name) and rsx.is_p(st[q - 1], "(") and rsx.is_p(st[q + 2], ")"):
                # `Some(&x) = e {`  ->  `Some(x) = e { let x = *x;`
                ed.replace(base + st[q].start, base + st[q].end, "R1", "")
                z = q
                while not rsx.is_p(st[z], "{"):
                    if st[z].kind == "punct" and st[z].text in "([":
                        z = rsx.match_close(st, z)
                    z += 1
                ed.replace(base + st[z].start, base + st[z].end, "R1", "{ let %s = *%s;" % (name, name))
                hits += 1
        if not hits:
            raise Undecided("%s: refpat %s not found" % (label, name))
    return an


class Generated:
    def __init__(self):
        self.text = ""
        self.items = []        # dicts: path, src, src_start_line, src_end_line, sha256, gen_start, gen_end, rule_counts
        self.rule_counts = {}
        self.dropped = []
        self.trusted = []


_BUILD_LOCK = __import__("threading").Lock()


def build_unit(spec, repo=REPO):
    # (rule R9 collects its literal pieces in a module-level table: one build at a time)
    with _BUILD_LOCK:
        return _build_unit(spec, repo)


def _build_unit(spec, repo=REPO):
    g = Generated()
    rsx.FMT_LITS.clear()
    rsx.FMT_LITSC.clear()
    rsx.IO_UNWRAP.clear()
    rsx.IO_UNWRAP.update(spec.get("io_unwrap", []))
    cdir = os.path.join(VERIF, "contracts")
    parts = ["".join(a + "\n" for a in spec["crate_attrs"]) + "use vstd::prelude::*;\nverus! {\n"]
    for p in spec["preamble"]:
        parts.append("// ---- preamble %s\n" % p)
        parts.append(open(os.path.join(cdir, p)).read())
        parts.append("\n")
    off = sum(len(x) for x in parts)
    srcs = {}
    for it in spec["items"]:
        fpath = os.path.join(repo, it.src)
        if it.src not in srcs:
            if not os.path.exists(fpath):
                raise Undecided("source file %s missing" % it.src)
            text = open(fpath).read()
            try:
                srcs[it.src] = (text, rsx.scan_file(text))
            except rsx.LexError as e:
                raise Undecided("cannot scan %s: %s" % (it.src, e))
        text, items = srcs[it.src]
        try:
            item = rsx.find_item(items, it.path)
        except KeyError as e:
            raise Undecided("lost anchor: %s" % e)
        if it.region:
            # a let-region: consecutive statements of a fn copied verbatim into a wrapper fn whose
            # signature, contract and tail are the only added text
            lit, nst = it.region
            ftext = text[item.start:item.end]
            try:
                an = rsx.FnAnatomy(ftext)
                stmts = an.statements(an.body_open, an.body_close)
            except (rsx.LexError, AssertionError, IndexError) as e:
                raise Undecided("%s :: %s: cannot analyse: %s" % (it.src, it.path, e))
            # the innermost block that has a statement containing the literal
            first = None
            best = None
            if lit.startswith("loop:"):
                lps_ = an.loops()
                if int(lit[5:]) >= len(lps_):
                    raise Undecided("lost anchor: %s :: %s: loop %s not found (fn has %d loops)" % (it.src, it.path, lit[5:], len(lps_)))
                stmts = an.statements(lps_[int(lit[5:])][1], lps_[int(lit[5:])][2])
                first = 0
                if nst < 0:
                    nst = len(stmts)
            for q0 in ([] if lit.startswith("loop:") else range(an.body_open, an.body_close)):
                if not rsx.is_p(an.st[q0], "{"):
                    continue
                try:
                    blk = an.statements(q0, rsx.match_close(an.st, q0))
                except (rsx.LexError, IndexError):
                    continue
                for si, (a, b, _t) in enumerate(blk):
                    if lit.startswith("call:"):
                        hit_ = any(rsx.is_id(an.st[q], lit[5:]) and q + 1 <= b and rsx.is_p(an.st[q + 1], "(") for q in range(a, b + 1))
                    else:
                        hit_ = any(an.st[q].kind == "str" and an.st[q].text == lit for q in range(a, b + 1))
                    if hit_:
                        # a literal anchors the innermost statement that contains it; a callee name anchors
                        # the outermost one (a top-level statement of the fn body)
                        if best is None or ((b - a) < best and not lit.startswith("call:")):
                            best, first, stmts = (b - a), si, blk
                        break
            if first is None or first + nst > len(stmts):
                raise Undecided("lost anchor: %s :: %s: no statement with %s (+%d)" % (it.src, it.path, lit, nst))
            r0 = an.st[stmts[first][0]].start
            r1 = an.st[stmts[first + nst - 1][1]].end
            rtext = ftext[r0:r1]
            ed = rsx.Edits(rtext)
            label = "%s :: %s :: region %s+%d" % (it.src, it.path, lit, nst)
            try:
                rsx.apply_rules(rtext, spec["rules"], ed, regex_map=spec.get("regex_map"))
            except rsx.LexError as e:
                raise Undecided("%s: %s" % (label, e))
            # rule S1 inside a region: the exact token sequence (exactly once in the region) -> a stand-in call
            if it.d4:
                rtoks_ = rsx.sig_tokens(rsx.lex(rtext))
                for d in it.d4:
                    if d[0] != "replace":
                        raise Undecided("%s: only `replace` is supported inside a region" % label)
                    want_ = [t_.text for t_ in rsx.sig_tokens(rsx.lex(d[1]))]
                    hits_ = [i_ for i_ in range(len(rtoks_) - len(want_) + 1) if [t_.text for t_ in rtoks_[i_:i_ + len(want_)]] == want_]
                    if len(hits_) != 1:
                        raise Undecided("%s: S1 replace `%s`: found %d times (the statement changed? no stand-in for the new text)" % (label, d[1], len(hits_)))
                    ed.replace(rtoks_[hits_[0]].start, rtoks_[hits_[0] + len(want_) - 1].end, "S1", d[2])
            fs = it.fns.get("")
            # sites inside a region (loop headers, call-anchored hints): the statements are analysed as the body of a
            # pseudo fn, the insertions land in the region's own text
            inner_sites_ = {k_: v_ for k_, v_ in fs.sites.items() if k_ not in ("open", "close")}
            if inner_sites_ or fs.loopkinds is not None:
                pre_ = "fn region_() {\n"
                fs2_ = FnSpec()
                fs2_.sites = inner_sites_
                fs2_.loopkinds = fs.loopkinds
                try:
                    instrument_fn(pre_ + rtext + "\n}", fs2_, ed, -len(pre_), spec["rules"], label)
                except (rsx.LexError, AssertionError, IndexError) as e:
                    raise Undecided("%s: cannot analyse: %s" % (label, e))
            gen = ed.apply()
            open_t = _strip_blank(fs.sites.get("open", []))
            close_t = _strip_blank(fs.sites.get("close", []))
            l0 = text.count("\n", 0, item.start + r0) + 1
            l1 = text.count("\n", 0, item.start + r1) + 1
            pre = "// ---- %s (lines %d-%d)\n" % (label, l0, l1) + rsx.INJ(open_t + "\n")
            post = "\n" + rsx.INJ(close_t) + "\n\n"
            gstart = off + len(pre)
            parts.append(pre + gen + post)
            off += len(pre) + len(gen) + len(post)
            for r, c in ed.rule_counts.items():
                g.rule_counts[r] = g.rule_counts.get(r, 0) + c
            g.items.append({"path": it.path + " :: region " + lit, "src": it.src, "src_lines": [l0, l1], "src_start_off": item.start + r0,
                            "sha256": hashlib.sha256(rtext.encode()).hexdigest(), "gen_start": gstart, "gen_end": gstart + len(gen),
                            "gen_text": gen, "src_text": rtext, "kind": "region", "name": lit,
                            "outer_start": gstart - len(pre), "outer_end": gstart + len(gen) + len(post)})
            g.dropped.append("%s: only statements %d..%d of the fn body are copied (a let-region)" % (label, first, first + nst - 1))
            continue
        start = item.attr_start if it.keep_attrs else item.start
        itext = text[start:item.end]
        if item.attr_start != item.start and not it.keep_attrs:
            g.dropped.append("%s :: %s: outer attributes / doc comments (%d bytes)" % (it.src, it.path, item.start - item.attr_start))
        ed = rsx.Edits(itext)
        label = "%s :: %s" % (it.src, it.path)
        try:
            if it.contract_of is not None and item.kind == "impl":
                pass      # a trait impl taken by contract: every listed fn body is cut, nothing else is rewritten
            elif it.contract_of is not None:
                # rewrite rules only up to the fn body: the body is cut
                if item.kind != "fn":
                    raise Undecided("%s: use_contract supports fn items, single methods and trait impls only" % label)
                an0_ = rsx.FnAnatomy(itext)
                cut_ = an0_.st[an0_.body_open].start
                rsx.apply_rules(itext[:cut_], [r_ for r_ in spec["rules"] if r_ in ("D1",)], ed, regex_map=spec.get("regex_map"))
            else:
                rsx.apply_rules(itext, spec["rules"], ed, regex_map=spec.get("regex_map"))
        except rsx.LexError as e:
            raise Undecided("%s: %s" % (label, e))
        # D4 (future = its output): identifier substitutions and deletions named in the sidecar for this item
        if it.d4:
            toks_ = rsx.sig_tokens(rsx.lex(itext))
            gone_ = []
            for d in sorted([d_ for d_ in it.d4 if not (it.contract_of is not None and d_[0] == "replace")], key=lambda d_: d_[0] == "subst"):
                if d[0] == "subst":
                    hits_ = [t_ for t_ in toks_ if rsx.is_id(t_, d[1]) and not any(a_ <= t_.start < b_ for a_, b_ in gone_)]
                    if not hits_:
                        raise Undecided("%s: D4 subst %s: identifier not found" % (label, d[1]))
                    for t_ in hits_:
                        ed.replace(t_.start, t_.end, "D4", d[2])
                elif d[0] == "replace":
                    want_ = [t_.text for t_ in rsx.sig_tokens(rsx.lex(d[1]))]
                    hits_ = [i_ for i_ in range(len(toks_) - len(want_) + 1) if [t_.text for t_ in toks_[i_:i_ + len(want_)]] == want_]
                    if len(hits_) != 1:
                        raise Undecided("%s: S1 replace `%s`: found %d times (the statement changed? no stand-in for the new text)" % (label, d[1], len(hits_)))
                    i_ = hits_[0]
                    ed.replace(toks_[i_].start, toks_[i_ + len(want_) - 1].end, "S1", d[2])
                    gone_.append((toks_[i_].start, toks_[i_ + len(want_) - 1].end))
                else:
                    want_ = [t_.text for t_ in rsx.sig_tokens(rsx.lex(d[1]))]
                    found_ = False
                    for i_ in range(len(toks_) - len(want_) + 1):
                        if [t_.text for t_ in toks_[i_:i_ + len(want_)]] == want_:
                            ed.replace(toks_[i_].start, toks_[i_ + len(want_) - 1].end, "D4", "")
                            gone_.append((toks_[i_].start, toks_[i_ + len(want_) - 1].end))
                            found_ = True
                            break
                    if not found_:
                        raise Undecided("%s: D4 delete `%s`: tokens not found" % (label, d[1]))
        try:
            if item.kind == "fn":
                fs = it.fns.get("") or FnSpec()
                instrument_fn(itext, fs, ed, 0, spec["rules"], label, contract_of=it.contract_of)
            elif item.kind == "impl":
                for fname, fs in it.fns.items():
                    subs = [c for c in item.children if c.kind == "fn" and c.name == fname]
                    if len(subs) != 1:
                        raise Undecided("lost anchor: %s / fn %s" % (label, fname))
                    sub = subs[0]
                    instrument_fn(text[sub.start:sub.end], fs, ed, sub.start - start, spec["rules"], label + " / fn " + fname, contract_of=it.contract_of)
            elif it.fns and any(f.sites or f.result for f in it.fns.values()):
                raise Undecided("%s: fn sites on a %s item" % (label, item.kind))
        except (rsx.LexError, AssertionError, IndexError) as e:
            raise Undecided("%s: cannot analyse: %s" % (label, e))
        gen = ed.apply()
        if not rsx.same_tokens(rsx.strip_markers(gen), itext):
            raise Undecided("%s: round-trip mismatch" % label)
        # a method of an inherent impl is wrapped in its own copy of the impl header
        wrapper_open = wrapper_close = ""
        if item.kind == "fn" and item.parent is not None and item.parent.kind == "impl":
            par = item.parent
            wrapper_open = text[par.start:par.body_open + 1] + "\n"
            wrapper_close = "\n}"
        before = _strip_blank(it.before)
        after = _strip_blank(it.after)
        l0 = text.count("\n", 0, start) + 1
        l1 = text.count("\n", 0, item.end) + 1
        hdr = "// ---- item %s (lines %d-%d)\n" % (label, l0, l1)
        pre = hdr + (rsx.INJ(before) + "\n" if before else "") + wrapper_open
        post = wrapper_close + ("\n" + rsx.INJ(after) if after else "") + "\n\n"
        gstart = off + len(pre)
        parts.append(pre + gen + post)
        off += len(pre) + len(gen) + len(post)
        for r, c in ed.rule_counts.items():
            g.rule_counts[r] = g.rule_counts.get(r, 0) + c
        g.items.append({
            "path": it.path, "src": it.src, "src_lines": [l0, l1], "src_start_off": start,
            "sha256": hashlib.sha256(itext.encode()).hexdigest(),
            "gen_start": gstart, "gen_end": gstart + len(gen), "gen_text": gen, "src_text": itext,
            "kind": item.kind, "name": item.name,
        })
    # constants: a top-level `const NAME: T = EXPR;` of the same source file that an extracted item mentions is copied
    # verbatim as well (a named constant is part of the code that runs; without it the unit would not compile)
    have_ = "".join(parts)
    for src_, (text_, _items) in list(srcs.items()):
        consts_ = rsx.top_consts(text_)
        if not consts_:
            continue
        used_ = set()
        for rec in g.items:
            if rec["src"] == src_:
                used_ |= {t_.text for t_ in rsx.sig_tokens(rsx.lex(rec["src_text"])) if t_.kind == "ident"}
        todo_ = [n_ for n_ in consts_ if n_ in used_]
        done_ = set()
        while todo_:
            n_ = todo_.pop()
            if n_ in done_ or re.search(r"\bconst\s+%s\b" % re.escape(n_), have_):
                continue
            done_.add(n_)
            a_, b_ = consts_[n_]
            ctext = text_[a_:b_]
            for t_ in rsx.sig_tokens(rsx.lex(ctext)):
                if t_.kind == "ident" and t_.text in consts_ and t_.text not in done_:
                    todo_.append(t_.text)
            l0 = text_.count("\n", 0, a_) + 1
            hdr = "// ---- const %s :: %s (line %d; copied because an extracted item mentions it)\n" % (src_, n_, l0)
            gstart = off + len(hdr) + len("pub ")
            parts.append(hdr + "pub " + ctext + "\n\n")
            off += len(hdr) + len("pub ") + len(ctext) + 2
            g.items.append({"path": "const " + n_, "src": src_, "src_lines": [l0, l0], "src_start_off": a_,
                            "sha256": hashlib.sha256(ctext.encode()).hexdigest(), "gen_start": gstart, "gen_end": gstart + len(ctext),
                            "gen_text": ctext, "src_text": ctext, "kind": "const", "name": n_})
    for chk in spec.get("syntactic", []):
        kind, rest = chk.split(" ", 1)
        f = [x.strip() for x in rest.split(" :: ")]
        fpath = os.path.join(repo, f[0])
        if f[0] not in srcs:
            if not os.path.exists(fpath):
                raise Undecided("source file %s missing" % f[0])
            t_ = open(fpath).read()
            srcs[f[0]] = (t_, rsx.scan_file(t_))
        text, items = srcs[f[0]]
        try:
            item = rsx.find_item(items, f[1])
        except KeyError as e:
            raise Undecided("lost anchor: %s" % e)
        itext = text[item.start:item.end]
        toks = [t.text for t in rsx.sig_tokens(rsx.lex(itext))]
        if kind == "assert_stmt":
            an = rsx.FnAnatomy(itext)
            st_ = an.statements(an.body_open, an.body_close)
            k = int(f[2])
            want = [t.text for t in rsx.sig_tokens(rsx.lex(f[3]))]
            got = [t.text for t in an.st[st_[k][0]:st_[k][1] + 1]] if -len(st_) <= k < len(st_) else None
            if got != want:
                raise Undecided("syntactic side condition of an assumed contract no longer holds: %s (statement is `%s`)"
                                % (chk, " ".join(got or [])))
        else:
            want = [t.text for t in rsx.sig_tokens(rsx.lex(f[2]))]
            n = sum(1 for i in range(len(toks) - len(want) + 1) if toks[i:i + len(want)] == want)
            if n != int(f[3]):
                raise Undecided("syntactic side condition of an assumed contract no longer holds: %s (found %d)" % (chk, n))
        g.dropped.append("checked: " + chk)
    # a byte constant the specification names (vlit_<hex>() in a preamble, a contract or a postamble) is defined from its name even when
    # no literal token of the code produces it any more: a changed format literal then fails the postcondition that names the
    # old bytes instead of leaving the unit without a verdict
    import re as _re2
    _named = set(_re2.findall(r"\bvlit_([0-9a-f]+)\(\)", "".join(parts) + "".join(open(os.path.join(cdir, p_)).read() for p_ in spec["postamble"])))
    for hx_ in _named:
        if len(hx_) % 2 == 0 and hx_ not in rsx.FMT_LITS:
            rsx.FMT_LITS[hx_] = bytes.fromhex(hx_)
    if rsx.FMT_LITS:
        # rule R9: the literal pieces of format strings as opaque named constants (generated from the literal tokens)
        have_ = "".join(parts)
        defs_ = []
        for hx, bs in sorted(rsx.FMT_LITS.items()):
            if ("fn vlit_%s()" % hx) not in have_:
                defs_.append("#[verifier::opaque] pub open spec fn vlit_%s() -> Seq<u8> { seq![%s] }   // %r" % (hx, ", ".join("%du8" % b for b in bs), bs))
        parts.append("// ---- generated: format-string literal pieces (rule R9)\n" + "\n".join(defs_) + "\n\n")
    if rsx.FMT_LITSC:
        defs_ = []
        for hx, bs in sorted(rsx.FMT_LITSC.items()):
            defs_.append("pub open spec fn vlitc_%s() -> Seq<char> { seq![%s] }   // %r" % (hx, ", ".join("%du8 as char" % b for b in bs), bs))
        parts.append("// ---- generated: format-string literal pieces as characters (rule R12)\n" + "\n".join(defs_) + "\n\n")
    for p in spec["postamble"]:
        parts.append("// ---- postamble %s\n" % p)
        parts.append(open(os.path.join(cdir, p)).read())
        parts.append("\n")
    parts.append("} // verus!\nfn main() {}\n")
    g.text = "".join(parts)
    # whole-file round trip: every item, with markers undone, must equal its source tokens
    for rec in g.items:
        seg = g.text[rec["gen_start"]:rec["gen_end"]]
        if not rsx.same_tokens(rsx.strip_markers(seg), rec["src_text"]):
            raise Undecided("%s: round-trip mismatch in generated file" % rec["path"])
    g.trusted = scan_trusted(g.text)
    return g


_TRUST_RE = re.compile(r"(assume_specification|external_body|external_type_specification|external_trait_specification"
                       r"|#\[verifier::external\b|\badmit\s*\(|\bassume\s*\(|#\[verifier::axiom\]|uninterp\s+spec)")


def scan_trusted(gen_text):
    """mechanical scan of the generated file for everything that is assumed rather than proved"""
    out = []
    lines = gen_text.split("\n")
    for i, l in enumerate(lines):
        code = l.split("//")[0]
        m = _TRUST_RE.search(code)
        if m:
            # describe by the next line that names something
            ctx = code.strip()
            j = i
            while j + 1 < len(lines) and not re.search(r"\b(fn|struct|enum|trait|type)\b", ctx) and j - i < 4:
                j += 1
                ctx += " " + lines[j].split("//")[0].strip()
            out.append(re.sub(r"\s+", " ", ctx)[:200])
    return out


def locate(g, byte_off):
    """map a byte offset of the generated file to its origin"""
    for rec in g.items:
        if rec["gen_start"] <= byte_off < rec["gen_end"]:
            rel = byte_off - rec["gen_start"]
            gen = rec["gen_text"]
            # walk markers to find whether rel is inside an injection and the source offset
            pos = 0
            src_off = 0
            for m in rsx._marker_re.finditer(gen):
                if rel < m.start():
                    break
                src_off += m.start() - pos
                if rel < m.end():
                    if m.group(0).startswith("/*+*/"):
                        return {"item": rec["path"], "src": rec["src"], "where": "contract",
                                "line": rec["src_lines"][0] + rec["src_text"].count("\n", 0, src_off)}
                    return {"item": rec["path"], "src": rec["src"], "where": "source(rewritten %s)" % m.group(1),
                            "line": rec["src_lines"][0] + rec["src_text"].count("\n", 0, src_off)}
                if not m.group(0).startswith("/*+*/"):
                    src_off += len(rsx.unhexs(m.group(2)))
                pos = m.end()
            src_off += rel - pos
            return {"item": rec["path"], "src": rec["src"], "where": "source",
                    "line": rec["src_lines"][0] + rec["src_text"].count("\n", 0, src_off)}
    for rec in g.items:
        if rec.get("outer_start") is not None and rec["outer_start"] <= byte_off < rec["outer_end"]:
            return {"item": rec["path"], "src": rec["src"], "where": "contract", "line": rec["src_lines"][0]}
    return {"item": None, "src": None, "where": "preamble/postamble", "line": None}


# --------------------------------------------------------------------------- verus

def run_verus(gen_path, rlimit=None, seed=None, timeout=900, extra=()):
    cmd = ["verus", gen_path, "--output-json", "--time", "--error-format=json", "--multiple-errors", "5"]
    if rlimit:
        cmd += ["--rlimit", str(rlimit)]
    if seed is not None:
        cmd += ["--smt-option", "smt.random_seed=%d" % seed]
    cmd += list(extra)
    t0 = time.time()
    try:
        p = subprocess.run(cmd, capture_output=True, text=True, timeout=timeout, cwd=os.path.dirname(gen_path))
    except subprocess.TimeoutExpired:
        raise Undecided("verus timeout after %ds" % timeout)
    wall = time.time() - t0
    try:
        out = json.loads(p.stdout)
    except Exception:
        out = None
    diags = []
    for l in p.stderr.split("\n"):
        l = l.strip()
        if l.startswith("{"):
            try:
                d = json.loads(l)
            except Exception:
                continue
            if d.get("level") in ("error", "warning") and d.get("spans") is not None:
                diags.append(d)
    return {"gen_path": gen_path, "cmd": " ".join(cmd), "rc": p.returncode, "json": out, "diags": diags, "stderr": p.stderr, "wall": wall}


VERIF_MSGS = ("postcondition not satisfied", "precondition not satisfied", "assertion failed",
              "invariant not satisfied", "possible arithmetic", "possible division by zero",
              "decreases not satisfied", "possible bit shift", "unreachable", "recommendation not met",
              "loop invariant", "index", "failed", "panic", "termination", "not satisfied", "rlimit",
              "could not prove", "resource limit", "unable to prove post-condition", "may fail to meet its declared type invariant")


def classify(res, g):
    """-> (verified:int, failures:[...], compile_errors:[...], fn_times)"""
    j = res["json"]
    fails = []
    cerrs = []
    for d in res["diags"]:
        if d["level"] != "error":
            continue
        msg = d["message"]
        if msg.startswith("aborting due to"):
            continue
        spans = d["spans"]
        if not spans:
            cerrs.append(msg)
            continue
        if "Resource limit (rlimit) exceeded" in msg or "rlimit" in msg.lower() and "exceeded" in msg.lower():
            # the solver gave up: no verdict on this function (never an alarm)
            cerrs.append("RLIMIT: " + msg + " :: " + " ".join(g.text[s_["byte_start"]:s_["byte_end"]][:80] for s_ in spans[:1]))
            continue
        is_verif = d.get("code") is None and any(k in msg for k in VERIF_MSGS)
        if not is_verif:
            cerrs.append(d.get("rendered") or msg)
            continue
        prim = [s for s in spans if s.get("is_primary")] or spans
        rec = {"message": msg, "spans": []}
        for s in spans:
            if os.path.basename(s.get("file_name", "")) != os.path.basename(res.get("gen_path", s.get("file_name", ""))):
                txt = " ".join(x.get("text", "") for x in s.get("text", []))
                rec["spans"].append({"label": s.get("label"), "text": txt[:400], "gen_line": None, "primary": bool(s.get("is_primary")),
                                     "origin": {"item": None, "src": s.get("file_name"), "where": "library", "line": s.get("line_start")}})
                continue
            loc = locate(g, s["byte_start"])
            rec["spans"].append({"label": s.get("label"), "text": g.text[s["byte_start"]:s["byte_end"]][:400],
                                 "gen_line": s["line_start"], "origin": loc, "primary": bool(s.get("is_primary"))})
        # function = item containing any span, preferring non-contract (call site) spans
        item = None
        for s in rec["spans"]:
            if s["origin"]["item"]:
                item = s["origin"]["item"]
                if s["origin"]["where"].startswith("source"):
                    break
        rec["item"] = item
        rec["amble_fn"] = None
        if item is None:
            # a lemma / theorem of a preamble or postamble: name it by the enclosing fn
            offs = [s_["byte_start"] for s_ in spans if s_.get("is_primary") and "byte_start" in s_] or [s_["byte_start"] for s_ in spans if "byte_start" in s_]
            if offs:
                ms_ = list(re.finditer(r"\bfn\s+(\w+)", g.text[:offs[0]]))
                if ms_:
                    rec["amble_fn"] = ms_[-1].group(1)
        rec["rendered"] = d.get("rendered", "")
        fails.append(rec)
    verified = errors = None
    fn_times = []
    if j:
        vr = j.get("verification-results", {})
        verified, errors = vr.get("verified"), vr.get("errors")
        try:
            for mt in j["times-ms"]["smt"]["smt-run-module-times"]:
                for fb in mt.get("function-breakdown", []):
                    fn_times.append({"function": fb["function"], "mode": fb.get("mode:"), "ms": fb["time"],
                                     "rlimit": fb.get("rlimit"), "success": fb["success"]})
        except Exception:
            pass
    return verified, errors, fails, cerrs, fn_times


def obligation_id(f):
    """stable name of a failed obligation: item + message + text of the contract clause (or source line)"""
    prim = [s for s in f["spans"] if s["primary"]] or f["spans"]
    clause = re.sub(r"\s+", " ", prim[0]["text"]).strip() if prim else ""
    label = f["item"] if f["item"] else ("lemma %s" % f["amble_fn"] if f.get("amble_fn") else None)
    return "%s | %s | %s" % (label, f["message"], clause[:160])


def is_hint_failure(f):
    """A failed `assert` that the sidecar / a preamble injected and that carries no property tag cNN(..) is a proof
    *hint*: its failure says the proof script no longer fits the code (undecided), not that a property is violated.
    Deciding internal obligations are written assert(cNN(..)); asserts of the source itself are obligations."""
    if f["message"] not in ("assertion failed", "precondition not satisfied"):
        return False
    prim = [s_ for s_ in f["spans"] if s_["primary"]] or f["spans"]
    if not prim:
        return False
    where = (prim[0].get("origin") or {}).get("where") or ""
    if where.startswith("source"):
        return False
    if f["message"] == "precondition not satisfied":
        # the call is in injected proof text (a lemma invoked by the sidecar / a preamble): the lemma's hypothesis no
        # longer fits this tree -- a proof-script failure, unless the clause it failed carries a property tag
        if not (where.startswith("contract") or where.startswith("preamble")):
            return False
        return not any(re.search(r"\bc\d\d\(", s_["text"] or "") for s_ in f["spans"])
    return re.search(r"\bc\d\d\(", prim[0]["text"]) is None


def split_canaries(name, errors, fails, fn_times):
    """Vacuity canaries: functions named canary_* (postamble) end in `assert(false)` after exercising the
    assumed contracts; each MUST fail.  Returns (errors, fails, fn_times, n_canaries) without them;
    raises Undecided if a canary verified (contradictory assumptions)."""
    canaries = [t for t in fn_times if "canary_" in t["function"]]
    bad = [t["function"] for t in canaries if t["success"]]
    if bad:
        raise Undecided("unit %s: vacuity canary %s verified -- assumed contracts are inconsistent" % (name, bad))
    real = []
    for f in fails:
        prim = [x for x in f["spans"] if x["primary"]] or f["spans"]
        if f["item"] is None and f["message"] == "assertion failed" and prim and prim[0]["text"].strip() == "false":
            continue
        real.append(f)
    if len(fails) - len(real) != len(canaries):
        raise Undecided("unit %s: %d canaries but %d canary failures" % (name, len(canaries), len(fails) - len(real)))
    return (errors or 0) - len(canaries), real, [t for t in fn_times if "canary_" not in t["function"]], len(canaries)
