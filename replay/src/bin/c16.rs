//! C16 witness search / replay: the real `DateTime` against an independent days-from-civil.
use servlin::internal::DateTime;
use std::time::Duration;

/// days since 1970-01-01 of a proleptic Gregorian civil date (Howard Hinnant's algorithm)
fn days_from_civil(y: i64, m: i64, d: i64) -> i64 {
    let y = if m <= 2 { y - 1 } else { y };
    let era = if y >= 0 { y } else { y - 399 } / 400;
    let yoe = y - era * 400;
    let mp = (m + 9) % 12;
    let doy = (153 * mp + 2) / 5 + d - 1;
    let doe = yoe * 365 + yoe / 4 - yoe / 100 + doy;
    era * 146_097 + doe - 719_468
}
fn civil_from_days(z: i64) -> (i64, i64, i64) {
    let z = z + 719_468;
    let era = if z >= 0 { z } else { z - 146_096 } / 146_097;
    let doe = z - era * 146_097;
    let yoe = (doe - doe / 1460 + doe / 36524 - doe / 146_096) / 365;
    let y = yoe + era * 400;
    let doy = doe - (365 * yoe + yoe / 4 - yoe / 100);
    let mp = (5 * doy + 2) / 153;
    let d = doy - (153 * mp + 2) / 5 + 1;
    let m = if mp < 10 { mp + 3 } else { mp - 9 };
    (if m <= 2 { y + 1 } else { y }, m, d)
}
fn fields(s: i64) -> [i64; 6] {
    let (y, m, d) = civil_from_days(s.div_euclid(86400));
    let r = s.rem_euclid(86400);
    [y, m, d, r / 3600, r / 60 % 60, r % 60]
}
fn got(dt: &DateTime) -> [i64; 6] {
    [dt.year, dt.month, dt.day, dt.hour, dt.min, dt.sec]
}
fn mlen(y: i64, m: i64) -> i64 {
    days_from_civil(if m == 12 { y + 1 } else { y }, if m == 12 { 1 } else { m + 1 }, 1) - days_from_civil(y, m, 1)
}

fn check_new(s: i64) -> Option<String> {
    let r = std::panic::catch_unwind(|| got(&DateTime::new(s)));
    match r {
        Ok(g) if g == fields(s) => None,
        Ok(g) => Some(format!("new secs={s} expected={:?} actual={:?}", fields(s), g)),
        Err(_) => Some(format!("new secs={s} expected={:?} actual=panic", fields(s))),
    }
}
fn check_add(start: [i64; 6], d: u64) -> Option<String> {
    let s0 = days_from_civil(start[0], start[1], start[2]) * 86400 + start[3] * 3600 + start[4] * 60 + start[5];
    let want = fields(s0 + d as i64);
    let r = std::panic::catch_unwind(|| {
        let dt = DateTime { year: start[0], month: start[1], day: start[2], hour: start[3], min: start[4], sec: start[5] };
        got(&(dt + Duration::from_secs(d)))
    });
    match r {
        Ok(g) if g == want => None,
        Ok(g) => Some(format!("add start={start:?} dur_secs={d} expected={want:?} actual={g:?}")),
        Err(_) => Some(format!("add start={start:?} dur_secs={d} expected={want:?} actual=panic")),
    }
}

fn main() {
    std::panic::set_hook(Box::new(|_| {}));
    let args: Vec<String> = std::env::args().collect();
    if args.len() >= 3 && args[1] == "replay" {
        // replay "new secs=.." or "add start=[..] dur_secs=.."
        let w = args[2..].join(" ");
        let nums: Vec<i64> = w
            .split(|c: char| !(c.is_ascii_digit() || c == '-'))
            .filter(|s| !s.is_empty())
            .filter_map(|s| s.parse().ok())
            .collect();
        let r = if w.starts_with("new") { check_new(nums[0]) } else {
            check_add([nums[0], nums[1], nums[2], nums[3], nums[4], nums[5]], nums[6] as u64)
        };
        match r {
            Some(m) => { println!("WITNESS {m}"); std::process::exit(1) }
            None => { println!("OK witness no longer fails"); std::process::exit(0) }
        }
    }
    let thorough = args.iter().any(|a| a == "--thorough");
    let mut n = 0u64;
    let mut found: Vec<String> = Vec::new();
    // DateTime::new on a boundary grid
    let day_step = if thorough { 1 } else { 97 };
    let mut day = 0i64;
    let last = days_from_civil(9999, 12, 31);
    while day <= last {
        for sod in [0, 1, 59, 60, 3599, 3600, 86399] {
            n += 1;
            if let Some(m) = check_new(day * 86400 + sod) { if found.len() < 5 { found.push(m) } }
        }
        day += day_step;
    }
    // addition: start dates x durations
    let durs: [u64; 9] = [0, 1, 1, 365, 366, 367, 1461, 36524, 146_097];
    for y in 1970..=2405 {
        for m in 1..=12 {
            for d in [1, mlen(y, m)] {
                for (i, du) in durs.iter().enumerate() {
                    let secs = if i < 2 { *du } else { du * 86400 };
                    for tod in [[0, 0, 0], [23, 59, 59]] {
                        n += 1;
                        if let Some(msg) = check_add([y, m, d, tod[0], tod[1], tod[2]], secs) { if found.len() < 5 { found.push(msg) } }
                    }
                }
            }
        }
    }
    println!("EVALUATED {n}");
    for f in &found { println!("WITNESS {f}"); }
    std::process::exit(if found.is_empty() { 0 } else { 1 });
}
