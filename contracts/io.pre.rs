// ---- Assumed contracts on the async I/O dependencies (futures-io / futures-lite), written
// from their documentation.  Reader and writer carry ghost state; the nondeterminism these
// contracts allow *is* the quantification over read partitions and short writes.
//
//  * a reader's ghost state is the sequence of events its `read` calls produced (`hist`);
//    `end_hist` is the prophecy of that sequence at the moment the handle is given up (resolved);
//  * `read` returns Ok(n) with 1 <= n <= buf.len() and records Data(buf[..n]),
//    or Ok(0) and records Eof, or Err and records Fail (nothing consumed in either case);
//  * `limit` bounds the total number of bytes the stream will ever deliver (streams are
//    finite -- this is what makes the copy loops terminate);
//  * a writer's ghost state is the byte string accepted so far (`cur`); `end` its prophecy;
//    `write_all` either appends the whole slice, or fails having appended a prefix of it.
#[verifier::external_type_specification]
#[verifier::external_body]
pub struct ExIoError(std::io::Error);
use std::io::ErrorKind;
// (transparent: the variants can be named and compared, e.g. `e.kind() == ErrorKind::Interrupted`)
#[verifier::external_type_specification]
pub struct ExErrorKind(std::io::ErrorKind);
pub assume_specification[ std::io::Error::kind ](e: &std::io::Error) -> std::io::ErrorKind;

pub trait Unpin {}
impl<T> Unpin for T {}

pub open spec fn cat(ps: Seq<Seq<u8>>) -> Seq<u8> decreases ps.len() {
    if ps.len() == 0 { Seq::empty() } else { cat(ps.drop_last()) + ps.last() }
}
pub proof fn lemma_cat_push(ps: Seq<Seq<u8>>, p: Seq<u8>)
    ensures cat(ps.push(p)) == cat(ps) + p
{
    assert(ps.push(p).drop_last() =~= ps);
}
// One event per call of `read`: a non-empty piece of data, end of stream (Ok(0)), or an error.
pub enum Ev { Data(Seq<u8>), Eof, Fail }
// the data pieces among the events, in order
pub open spec fn pieces(evs: Seq<Ev>) -> Seq<Seq<u8>> decreases evs.len() {
    if evs.len() == 0 { Seq::empty() }
    else if let Ev::Data(d) = evs.last() { pieces(evs.drop_last()).push(d) }
    else { pieces(evs.drop_last()) }
}
pub open spec fn bytes_of(evs: Seq<Ev>) -> Seq<u8> { cat(pieces(evs)) }
pub open spec fn data_only(evs: Seq<Ev>) -> bool {
    forall|i: int| 0 <= i < evs.len() ==> (#[trigger] evs[i]) is Data
}
pub proof fn lemma_pieces_push(evs: Seq<Ev>, e: Ev)
    ensures pieces(evs.push(e)) == (if let Ev::Data(d) = e { pieces(evs).push(d) } else { pieces(evs) }),
            bytes_of(evs.push(e)) == (if let Ev::Data(d) = e { bytes_of(evs) + d } else { bytes_of(evs) }),
{
    assert(evs.push(e).drop_last() =~= evs);
    if let Ev::Data(d) = e { lemma_cat_push(pieces(evs), d); }
}
// Automatic (broadcast) forms of the sequence facts above, so that exits of a function need no
// positional hints: a changed exit is then judged by the contract, not by a misplaced hint.
pub broadcast proof fn b_skip_push<A>(s: Seq<A>, e: A, n: int)
    requires 0 <= n <= s.len()
    ensures #[trigger] s.push(e).skip(n) == s.skip(n).push(e)
{
    assert(s.push(e).skip(n) =~= s.skip(n).push(e));
}
pub broadcast proof fn b_push_drop_last<A>(s: Seq<A>, e: A)
    ensures #[trigger] s.push(e).drop_last() == s
{
    assert(s.push(e).drop_last() =~= s);
}
pub broadcast proof fn b_pieces_push(evs: Seq<Ev>, e: Ev)
    ensures #[trigger] pieces(evs.push(e)) == (if let Ev::Data(d) = e { pieces(evs).push(d) } else { pieces(evs) })
{
    lemma_pieces_push(evs, e);
}
pub broadcast proof fn b_cat_push(ps: Seq<Seq<u8>>, p: Seq<u8>)
    ensures #[trigger] cat(ps.push(p)) == cat(ps) + p
{
    lemma_cat_push(ps, p);
}
pub broadcast proof fn b_skip0<A>(s: Seq<A>)
    ensures #[trigger] s.skip(0) == s
{
    assert(s.skip(0) =~= s);
}
pub broadcast group seq_events {
    b_skip_push, b_push_drop_last, b_pieces_push, b_cat_push, b_skip0,
}

pub trait AsyncRead: Sized {
    spec fn hist(&self) -> Seq<Ev>;
    #[verifier::prophetic]
    spec fn end_hist(&self) -> Seq<Ev>;
    spec fn limit(&self) -> nat;
    // ghost identity of the underlying object: never changed by any operation.  Immutable
    // attributes of wrapper readers (e.g. the byte budget of `Take`) are functions of it.
    spec fn rid(&self) -> int;
    #[verifier::prophetic]
    spec fn end_rid(&self) -> int;
    // frame: the part of the object's state that reading never changes (for a duplex stream:
    // the bytes written to it so far; empty for plain readers)
    spec fn aux(&self) -> Seq<u8>;
    #[verifier::prophetic]
    spec fn end_aux(&self) -> Seq<u8>;
    proof fn resolved(&self)
        requires has_resolved(*self)
        ensures self.hist() == self.end_hist(), self.rid() == self.end_rid(), self.aux() == self.end_aux();
    proof fn within_limit(&self)
        ensures bytes_of(self.hist()).len() <= self.limit();
    fn read(&mut self, buf: &mut [u8]) -> (r: Result<usize, std::io::Error>)
        ensures
            final(buf)@.len() == old(buf)@.len(),
            (*final(self)).end_hist() == (*old(self)).end_hist(),
            (*final(self)).limit() == (*old(self)).limit(),
            (*final(self)).rid() == (*old(self)).rid(), (*final(self)).end_rid() == (*old(self)).end_rid(),
            (*final(self)).aux() == (*old(self)).aux(), (*final(self)).end_aux() == (*old(self)).end_aux(),
            bytes_of((*final(self)).hist()).len() <= (*final(self)).limit(),
            r is Ok ==> bytes_of((*final(self)).hist()).len() == bytes_of((*old(self)).hist()).len() + r->Ok_0,
            match r {
                Ok(n) => n <= old(buf)@.len() && (if n == 0 { (*final(self)).hist() == (*old(self)).hist().push(Ev::Eof) }
                         else { (*final(self)).hist() == (*old(self)).hist().push(Ev::Data(final(buf)@.subrange(0, n as int))) }),
                Err(_) => (*final(self)).hist() == (*old(self)).hist().push(Ev::Fail),
            };
    // futures-lite AsyncReadExt::read_to_end: reads until Ok(0) or an error, appending to `buf`
    fn read_to_end(&mut self, buf: &mut Vec<u8>) -> (r: Result<usize, std::io::Error>)
        ensures
            (*final(self)).end_hist() == (*old(self)).end_hist(),
            (*final(self)).limit() == (*old(self)).limit(),
            (*final(self)).rid() == (*old(self)).rid(), (*final(self)).end_rid() == (*old(self)).end_rid(),
            (*final(self)).aux() == (*old(self)).aux(), (*final(self)).end_aux() == (*old(self)).end_aux(),
            (*old(self)).hist().is_prefix_of((*final(self)).hist()),
            read_to_end_post((*final(self)).hist().skip((*old(self)).hist().len() as int), old(buf)@, final(buf)@, r);
}
pub open spec fn read_to_end_post(evs: Seq<Ev>, b0: Seq<u8>, b1: Seq<u8>, r: Result<usize, std::io::Error>) -> bool {
    &&& evs.len() >= 1
    &&& data_only(evs.drop_last())
    &&& match r {
        Ok(n) => evs.last() is Eof && b1 == b0 + bytes_of(evs) && n == bytes_of(evs).len(),
        Err(_) => evs.last() is Fail && b0.is_prefix_of(b1) && b1.is_prefix_of(b0 + bytes_of(evs)),
    }
}
// `&mut R` is a reader too (futures-io: `impl<T: AsyncRead + Unpin> AsyncRead for &mut T`): its
// events are the events of the referent, and giving up the handle gives back the referent.
impl<T: AsyncRead> AsyncRead for &mut T {
    open spec fn hist(&self) -> Seq<Ev> { (**self).hist() }
    #[verifier::prophetic]
    open spec fn end_hist(&self) -> Seq<Ev> { mut_ref_future(*self).hist() }
    open spec fn limit(&self) -> nat { (**self).limit() }
    open spec fn rid(&self) -> int { (**self).rid() }
    #[verifier::prophetic]
    open spec fn end_rid(&self) -> int { mut_ref_future(*self).rid() }
    open spec fn aux(&self) -> Seq<u8> { (**self).aux() }
    #[verifier::prophetic]
    open spec fn end_aux(&self) -> Seq<u8> { mut_ref_future(*self).aux() }
    proof fn resolved(&self) {}
    proof fn within_limit(&self) { (**self).within_limit(); }
    fn read(&mut self, buf: &mut [u8]) -> (r: Result<usize, std::io::Error>) { (**self).read(buf) }
    fn read_to_end(&mut self, buf: &mut Vec<u8>) -> (r: Result<usize, std::io::Error>) { (**self).read_to_end(buf) }
}
pub broadcast proof fn reader_resolved<R: AsyncRead>(r: R)
    requires #[trigger] has_resolved(r)
    ensures r.hist() == r.end_hist(), r.rid() == r.end_rid(), r.aux() == r.end_aux()
{ r.resolved(); }
// a reader handle is given up as the same object, with its non-read state untouched
#[verifier::prophetic]
pub open spec fn kept<R: AsyncRead>(r: R) -> bool {
    r.end_rid() == r.rid() && r.end_aux() == r.aux() && r.hist().is_prefix_of(r.end_hist())
}

// Frame through nested handles.  For a handle `&mut T` it records the referent's own frame values and prophecies
// (deep / end_deep / end_accepted and, recursively, its frames); Nil for objects that are not handles.  A generic
// callee that was lent `&mut W` can then promise, through w_kept, that W's own prophecies are what they were.
pub enum Fr { Nil, Node { deep: Seq<u8>, end_deep: Seq<u8>, end_acc: nat, fr: Box<Fr>, end_fr: Box<Fr> } }
pub trait AsyncWrite: Sized {
    spec fn cur(&self) -> Seq<u8>;
    #[verifier::prophetic]
    spec fn end(&self) -> Seq<u8>;
    // number of bytes this object has accepted since it was made (for a counting wrapper: its counter)
    spec fn accepted(&self) -> nat;
    #[verifier::prophetic]
    spec fn end_accepted(&self) -> nat;
    // frame: for a handle `&mut T`, the referent's own prophecy `end()` (no operation changes it; this
    // is what rules out a callee re-seating a reference held inside a wrapper it was lent)
    #[verifier::prophetic]
    spec fn deep(&self) -> Seq<u8>;
    #[verifier::prophetic]
    spec fn end_deep(&self) -> Seq<u8>;
    #[verifier::prophetic]
    spec fn fr(&self) -> Fr;
    #[verifier::prophetic]
    spec fn end_fr(&self) -> Fr;
    proof fn resolved(&self)
        requires has_resolved(*self)
        ensures self.cur() == self.end(), self.accepted() == self.end_accepted(), self.deep() == self.end_deep(), self.fr() == self.end_fr();
    fn write_all(&mut self, buf: &[u8]) -> (r: Result<(), std::io::Error>)
        ensures
            (*final(self)).end() == (*old(self)).end(),
            (*final(self)).end_accepted() == (*old(self)).end_accepted(),
            (*final(self)).deep() == (*old(self)).deep(), (*final(self)).end_deep() == (*old(self)).end_deep(), (*final(self)).fr() == (*old(self)).fr(), (*final(self)).end_fr() == (*old(self)).end_fr(),
            (*final(self)).accepted() - (*old(self)).accepted() == (*final(self)).cur().len() - (*old(self)).cur().len(),
            match r {
                Ok(()) => (*final(self)).cur() == (*old(self)).cur() + buf@,
                Err(_) => (*old(self)).cur().is_prefix_of((*final(self)).cur())
                          && (*final(self)).cur().is_prefix_of((*old(self)).cur() + buf@),
            };
    // futures-lite AsyncWriteExt::write: one attempt; may accept only part of the slice
    fn write(&mut self, buf: &[u8]) -> (r: Result<usize, std::io::Error>)
        ensures
            (*final(self)).end() == (*old(self)).end(),
            (*final(self)).end_accepted() == (*old(self)).end_accepted(),
            (*final(self)).deep() == (*old(self)).deep(), (*final(self)).end_deep() == (*old(self)).end_deep(), (*final(self)).fr() == (*old(self)).fr(), (*final(self)).end_fr() == (*old(self)).end_fr(),
            (*final(self)).accepted() - (*old(self)).accepted() == (*final(self)).cur().len() - (*old(self)).cur().len(),
            match r {
                Ok(n) => n <= buf@.len() && (*final(self)).cur() == (*old(self)).cur() + buf@.subrange(0, n as int),
                Err(_) => (*final(self)).cur() == (*old(self)).cur(),
            };
    fn flush(&mut self) -> (r: Result<(), std::io::Error>)
        ensures (*final(self)).end() == (*old(self)).end(), (*final(self)).cur() == (*old(self)).cur(),
            (*final(self)).end_accepted() == (*old(self)).end_accepted(), (*final(self)).accepted() == (*old(self)).accepted(),
            (*final(self)).deep() == (*old(self)).deep(), (*final(self)).end_deep() == (*old(self)).end_deep(), (*final(self)).fr() == (*old(self)).fr(), (*final(self)).end_fr() == (*old(self)).end_fr();
    fn close(&mut self) -> (r: Result<(), std::io::Error>)
        ensures (*final(self)).end() == (*old(self)).end(), (*final(self)).cur() == (*old(self)).cur(),
            (*final(self)).end_accepted() == (*old(self)).end_accepted(), (*final(self)).accepted() == (*old(self)).accepted(),
            (*final(self)).deep() == (*old(self)).deep(), (*final(self)).end_deep() == (*old(self)).end_deep(), (*final(self)).fr() == (*old(self)).fr(), (*final(self)).end_fr() == (*old(self)).end_fr();
}
impl<T: AsyncWrite> AsyncWrite for &mut T {
    open spec fn cur(&self) -> Seq<u8> { (**self).cur() }
    #[verifier::prophetic]
    open spec fn end(&self) -> Seq<u8> { mut_ref_future(*self).cur() }
    open spec fn accepted(&self) -> nat { (**self).accepted() }
    #[verifier::prophetic]
    open spec fn end_accepted(&self) -> nat { mut_ref_future(*self).accepted() }
    #[verifier::prophetic]
    open spec fn deep(&self) -> Seq<u8> { (**self).end() }
    #[verifier::prophetic]
    open spec fn end_deep(&self) -> Seq<u8> { mut_ref_future(*self).end() }
    #[verifier::prophetic]
    open spec fn fr(&self) -> Fr {
        Fr::Node { deep: (**self).deep(), end_deep: (**self).end_deep(), end_acc: (**self).end_accepted(), fr: Box::new((**self).fr()), end_fr: Box::new((**self).end_fr()) }
    }
    #[verifier::prophetic]
    open spec fn end_fr(&self) -> Fr {
        Fr::Node { deep: mut_ref_future(*self).deep(), end_deep: mut_ref_future(*self).end_deep(), end_acc: mut_ref_future(*self).end_accepted(),
                   fr: Box::new(mut_ref_future(*self).fr()), end_fr: Box::new(mut_ref_future(*self).end_fr()) }
    }
    proof fn resolved(&self) {}
    fn write_all(&mut self, buf: &[u8]) -> (r: Result<(), std::io::Error>) { (**self).write_all(buf) }
    fn write(&mut self, buf: &[u8]) -> (r: Result<usize, std::io::Error>) { (**self).write(buf) }
    fn flush(&mut self) -> (r: Result<(), std::io::Error>) { (**self).flush() }
    fn close(&mut self) -> (r: Result<(), std::io::Error>) { (**self).close() }
}
pub broadcast proof fn writer_resolved<W: AsyncWrite>(w: W)
    requires #[trigger] has_resolved(w)
    ensures w.cur() == w.end(), w.accepted() == w.end_accepted(), w.deep() == w.end_deep(), w.fr() == w.end_fr()
{ w.resolved(); }
// a writer handle is given up as the same object: only appended to, its counter in step with what
// was appended, a wrapped reference not re-seated
#[verifier::prophetic]
pub open spec fn w_kept<W: AsyncWrite>(w: W) -> bool {
    w.cur().is_prefix_of(w.end()) && w.end_deep() == w.deep() && w.end_fr() == w.fr()
    && w.end_accepted() - w.accepted() == w.end().len() - w.cur().len()
}

pub proof fn lemma_prefix_trans(a: Seq<u8>, b: Seq<u8>, c: Seq<u8>)
    requires a.is_prefix_of(b), b.is_prefix_of(c)
    ensures a.is_prefix_of(c)
{}
pub proof fn lemma_prefix_app(a: Seq<u8>, b: Seq<u8>, c: Seq<u8>)
    requires b.is_prefix_of(c)
    ensures (a + b).is_prefix_of(a + c), a.is_prefix_of(a + b)
{}
