use std::sync::Mutex;
use vstd::std_specs::iter::IteratorSpec;
#[verifier::external_type_specification]
#[verifier::external_body]
#[verifier::reject_recursive_types(T)]
pub struct ExMutex<T: ?Sized>(Mutex<T>);

// ---- rule R9: format!(LIT, args..) / write!(VEC, LIT, args..).unwrap() are expanded piece by piece into these
// calls.  Assumed meaning of std's formatting machinery for `{}` placeholders: the literal pieces and the Display
// output of the arguments, concatenated in order.  The byte string of each literal piece is generated from the
// literal token (Ghost argument), so it cannot drift from the code.
pub trait VDisp {
    spec fn disp(&self) -> Seq<u8>;
}
impl VDisp for u16 { open spec fn disp(&self) -> Seq<u8> { dec(*self as nat) } }
impl VDisp for u64 { open spec fn disp(&self) -> Seq<u8> { dec(*self as nat) } }
impl<'a> VDisp for &'a str { open spec fn disp(&self) -> Seq<u8> { encode_utf8(self@) } }
impl VDisp for AsciiString { open spec fn disp(&self) -> Seq<u8> { encode_utf8(self.inner()@) } }
#[verifier::external_body]
pub fn vf_new() -> (r: String) ensures r@.len() == 0, encode_utf8(r@).len() == 0 { unimplemented!() }
#[verifier::external_body]
pub fn vf_lit(s: &mut String, lit: &str, Ghost(b): Ghost<Seq<u8>>)
    ensures encode_utf8(final(s)@) == encode_utf8(old(s)@) + b
{ unimplemented!() }
#[verifier::external_body]
pub fn vf_arg<T: VDisp>(s: &mut String, x: &T)
    ensures encode_utf8(final(s)@) == encode_utf8(old(s)@) + x.disp()
{ unimplemented!() }
#[verifier::external_body]
pub fn vw_lit(v: &mut Vec<u8>, lit: &str, Ghost(b): Ghost<Seq<u8>>)
    ensures final(v)@ == old(v)@ + b
{ unimplemented!() }
#[verifier::external_body]
pub fn vw_arg<T: VDisp>(v: &mut Vec<u8>, x: &T)
    ensures final(v)@ == old(v)@ + x.disp()
{ unimplemented!() }
pub assume_specification [std::string::String::into_bytes] (s: std::string::String) -> (r: std::vec::Vec<u8>)
    ensures r@ == encode_utf8(s@);
pub assume_specification<T> [std::mem::drop] (_0: T);

// rule S1 stand-in for `head_bytes.extend(header.value.chars().map(|c| u8::try_from(c).unwrap_or(255)))` (spec: latin1, ser.pre.rs)
#[verifier::external_body]
pub fn extend_latin1(v: &mut Vec<u8>, value: &AsciiString)
    ensures final(v)@ == old(v)@ + latin1(value.inner()@)
{ unimplemented!() }

// ---- the body source (src/response_body.rs BodyAsyncReader), assumed: what a body source delivers when read
// to the end is a function of the body value -- a file does not change while it is being sent, an in-memory
// body delivers its bytes and then end of stream.  Reading may stop early, so a reader's final history is a
// prefix of that event sequence.
#[verifier::external_body]
pub struct BodyAsyncReader<'a> { _p: core::marker::PhantomData<&'a ()> }
pub uninterp spec fn src_events(bid: int) -> Seq<Ev>;     // keyed by the reader's ghost identity, which no operation changes
impl<'a> BodyAsyncReader<'a> {
    pub uninterp spec fn bhist(&self) -> Seq<Ev>;
    pub uninterp spec fn bid(&self) -> int;
    pub uninterp spec fn blimit(&self) -> nat;
}
// what a body reader has delivered so far is a prefix of what its source delivers
#[verifier::external_body]
pub broadcast proof fn b_body_fate<'a>(r: BodyAsyncReader<'a>)
    ensures (#[trigger] r.bhist()).is_prefix_of(src_events(r.bid()))
{}
impl<'a> AsyncRead for BodyAsyncReader<'a> {
    open spec fn hist(&self) -> Seq<Ev> { self.bhist() }
    #[verifier::prophetic]
    uninterp spec fn end_hist(&self) -> Seq<Ev>;
    open spec fn limit(&self) -> nat { self.blimit() }
    open spec fn rid(&self) -> int { self.bid() }
    #[verifier::prophetic]
    uninterp spec fn end_rid(&self) -> int;
    open spec fn aux(&self) -> Seq<u8> { Seq::empty() }
    #[verifier::prophetic]
    uninterp spec fn end_aux(&self) -> Seq<u8>;
    #[verifier::external_body]
    proof fn resolved(&self) {}
    #[verifier::external_body]
    proof fn within_limit(&self) {}
    #[verifier::external_body]
    fn read(&mut self, buf: &mut [u8]) -> (r: Result<usize, std::io::Error>) { unimplemented!() }
    #[verifier::external_body]
    fn read_to_end(&mut self, buf: &mut Vec<u8>) -> (r: Result<usize, std::io::Error>) { unimplemented!() }
}
impl ResponseBody {
    #[verifier::external_body]
    pub fn async_reader(&self) -> (r: Result<BodyAsyncReader<'_>, std::io::Error>)
        ensures r is Ok ==> {
            &&& r->Ok_0.hist().len() == 0
            &&& r->Ok_0.end_hist().is_prefix_of(body_events(*self))
            &&& src_events(r->Ok_0.rid()) == body_events(*self)
            &&& r->Ok_0.limit() + 3 <= u64::MAX        // streams are finite and shorter than 2^64 - 3 bytes
        }
    { unimplemented!() }
}
// ---- lemmas
pub proof fn lemma_fields_push(resp: Response, close: bool, hs: Seq<Header>, h: Header)
    ensures h_fields(resp, close, hs.push(h)) == h_fields(resp, close, hs) + encode_utf8(h.name.inner()@) + l_sep() + latin1(h.value.inner()@) + l_crlf()
{
    assert(hs.push(h).drop_last() =~= hs);
}
// a prefix of the events delivers a prefix of the pieces, of the bytes and of the chunked encoding
pub proof fn lemma_prefix_events(a: Seq<Ev>, b: Seq<Ev>)
    requires a.is_prefix_of(b)
    ensures pieces(a).is_prefix_of(pieces(b)), bytes_of(a).is_prefix_of(bytes_of(b)), enc(pieces(a)).is_prefix_of(enc(pieces(b)))
    decreases b.len() - a.len()
{
    if a.len() == b.len() {
        assert(a =~= b);
    } else {
        let bd = b.drop_last();
        lemma_prefix_events(a, bd);
        assert(bd.push(b.last()) =~= b);
        lemma_pieces_push(bd, b.last());
        if let Ev::Data(d) = b.last() {
            lemma_cat_push(pieces(bd), d);
            lemma_enc_push(pieces(bd), d);
            assert(pieces(bd).is_prefix_of(pieces(bd).push(d)));
            assert(cat(pieces(bd)).is_prefix_of(cat(pieces(bd)) + d));
            assert(enc(pieces(bd)).is_prefix_of(enc(pieces(bd)) + chunk(d)));
        }
    }
}
pub broadcast proof fn b_prefix_events(a: Seq<Ev>, b: Seq<Ev>)
    requires #[trigger] a.is_prefix_of(b)
    ensures bytes_of(a).is_prefix_of(bytes_of(b)), enc(pieces(a)).is_prefix_of(enc(pieces(b)))
{ lemma_prefix_events(a, b); }
// a well-formed event sequence ends at its first Eof / Fail: a prefix that ends in one is the whole
pub proof fn lemma_prefix_ended(a: Seq<Ev>, b: Seq<Ev>)
    requires a.is_prefix_of(b), events_wf(b), a.len() >= 1, a.last() is Eof || a.last() is Fail
    ensures a == b
{
    let k = a.len() - 1;
    assert(a[k] == b[k]);
    if k < b.len() - 1 {
        assert(b.drop_last()[k] == b[k]);
    }
    assert(a =~= b);
}
// known length: whatever part x of the body was sent (at most n bytes of it) is a prefix of the framed body
pub proof fn lemma_known_body(bb: Seq<u8>, n: int, x: Seq<u8>)
    requires x.is_prefix_of(bb), x.len() <= n, n >= 0
    ensures x.is_prefix_of(if bb.len() >= n { bb.take(n) } else { bb }),
        x.len() == n ==> bb.len() >= n && bb.take(n) == x,
{
    if bb.len() >= n {
        assert(x.is_prefix_of(bb.take(n)));
        if x.len() == n { assert(bb.take(n) =~= x); }
    }
}
// the body copy of a known-length body: the outcome of copy_async over events E that are a prefix (as bytes)
// of what the source delivers, at most n bytes of it
pub proof fn lemma_copy_known(evs: Seq<Ev>, w1: Seq<u8>, wend: Seq<u8>, res: CopyResult, b: ResponseBody)
    requires copy_post(evs, w1, wend, res), bytes_of(evs).is_prefix_of(bytes_of(body_events(b))),
        blen(b) is Some, blen(b)->Some_0 > 0, bytes_of(evs).len() <= blen(b)->Some_0,
    ensures w1.is_prefix_of(wend), wend.is_prefix_of(w1 + body_wire(b)),
        (res is Ok && res->Ok_0 == blen(b)->Some_0) ==> wend == w1 + body_wire(b) && body_wire(b).len() == res->Ok_0,
{
    let n = blen(b)->Some_0 as int;
    let bb = bytes_of(body_events(b));
    lemma_known_body(bb, n, bytes_of(evs));
    lemma_prefix_app(w1, bytes_of(evs), body_wire(b));
    match res {
        CopyResult::WriterErr(_) => { lemma_prefix_trans(wend, w1 + bytes_of(evs), w1 + body_wire(b)); }
        _ => {}
    }
}
// the body copy of an unknown-length body (chunked)
pub proof fn lemma_copy_chunked(evs: Seq<Ev>, w1: Seq<u8>, wend: Seq<u8>, res: CopyResult, b: ResponseBody)
    requires chunked_post(evs, w1, wend, res), evs.is_prefix_of(body_events(b)), events_wf(body_events(b)), blen(b) is None,
    ensures w1.is_prefix_of(wend), wend.is_prefix_of(w1 + body_wire(b)),
        res is Ok ==> wend == w1 + body_wire(b),
{
    let be = body_events(b);
    lemma_prefix_events(evs, be);
    if evs.last() is Eof || evs.last() is Fail {
        lemma_prefix_ended(evs, be);
    }
    match res {
        CopyResult::Ok(_) => { assert(w1 + enc(pieces(evs)) + term() =~= w1 + (enc(pieces(evs)) + term())); }
        CopyResult::ReaderErr(_) => { assert(w1 + enc(pieces(evs)) =~= w1 + (enc(pieces(evs)) + Seq::<u8>::empty())); }
        CopyResult::WriterErr(_) => {
            if evs.last() is Eof {
                assert(w1 + enc(pieces(evs)) + term() =~= w1 + (enc(pieces(evs)) + term()));
            } else {
                let tail = if be.last() is Eof { term() } else { Seq::<u8>::empty() };
                assert(enc(pieces(evs)).is_prefix_of(enc(pieces(be)) + tail));
                lemma_prefix_app(w1, enc(pieces(evs)), enc(pieces(be)) + tail);
                assert(w1 + enc(pieces(evs)) + Seq::<u8>::empty() =~= w1 + enc(pieces(evs)));
                lemma_prefix_trans(wend, w1 + enc(pieces(evs)), w1 + body_wire(b));
            }
        }
    }
}
impl ContentType {
    // src/content_type.rs: a match from variant to a static text (Str / String variants: their payload)
    #[verifier::external_body]
    pub fn as_str(&self) -> (r: &str) ensures encode_utf8(r@) == ct_text(*self) { unimplemented!() }
}
// src/response.rs: a match from status code to a static text
#[verifier::external_body]
pub fn reason_phrase(code: u16) -> (r: &'static str) ensures encode_utf8(r@) == reason_text(code) { unimplemented!() }
// rule S1 stand-in for the constructor `ErrorKind::UnexpectedEof` (std::io::ErrorKind is opaque to Verus)
#[verifier::external_body]
pub fn ek_unexpected_eof() -> std::io::ErrorKind { unimplemented!() }
