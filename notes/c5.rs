use vstd::prelude::*;
verus! {
pub struct IoError;
pub trait Unpin {}
pub trait AsyncRead {
    spec fn consumed(&self) -> Seq<u8>;
    fn read(&mut self, buf: &mut [u8]) -> (r: Result<usize, IoError>)
        ensures final(buf)@.len() == old(buf)@.len();
}
pub trait AsyncWrite {
    spec fn written(&self) -> Seq<u8>;
    fn write_all(&mut self, buf: &[u8]) -> (r: Result<(), IoError>)
        ensures r is Ok ==> final(self).written() == old(self).written() + buf@;
}
// blanket impls as in futures-io
impl<T: AsyncWrite> AsyncWrite for &mut T {
    open spec fn written(&self) -> Seq<u8> { (**self).written() }
    fn write_all(&mut self, buf: &[u8]) -> (r: Result<(), IoError>) { (**self).write_all(buf) }
}
pub struct TcpStream { pub ghost w: Seq<u8> }
impl AsyncWrite for TcpStream {
    open spec fn written(&self) -> Seq<u8> { self.w }
    #[verifier::external_body]
    fn write_all(&mut self, buf: &[u8]) -> (r: Result<(), IoError>) { unimplemented!() }
}
pub struct AsyncWriteCounter<W>(W, u64);
impl<W> AsyncWriteCounter<W> {
    pub closed spec fn inner(&self) -> W { self.0 }
    pub closed spec fn count(&self) -> u64 { self.1 }
}
impl<W: AsyncWrite + Unpin> AsyncWriteCounter<W> {
    pub fn new(writer: W) -> (r: Self) ensures r.inner() == writer, r.count() == 0 {
        Self(writer, 0)
    }

    pub fn num_bytes_written(&self) -> (r: u64) ensures r == self.count() {
        self.1
    }
}
#[derive(PartialEq, Eq)]
pub enum WriteState { None, Response, Shutdown }
pub enum HttpError { ResponseAlreadySent, Disconnected }
pub struct Response { pub code: u16 }
impl Response { pub fn is_1xx(&self) -> (r: bool) ensures r == (self.code / 100 == 1) { self.code / 100 == 1 } }
impl Unpin for &mut TcpStream {}

#[verifier::external_body]
pub fn write_http_response<W: AsyncWrite + Unpin>(writer: &mut AsyncWriteCounter<W>, response: &Response, close: bool) -> (r: Result<(), HttpError>)
  ensures r is Ok ==> final(writer).inner().written() == old(writer).inner().written() + ser(*response, close),
          r is Ok ==> final(writer).count() == old(writer).count() + ser(*response, close).len(),
          r is Err ==> exists|k: int| 0 <= k <= ser(*response, close).len() && #[trigger] final(writer).inner().written() == old(writer).inner().written() + ser(*response, close).subrange(0, k) && final(writer).count() == old(writer).count() + k,
{ unimplemented!() }
pub uninterp spec fn ser(r: Response, close: bool) -> Seq<u8>;
pub struct HttpConn {
    pub stream: TcpStream,
    pub write_state: WriteState,
}
impl HttpConn {
    pub fn shutdown_write(&mut self) ensures final(self).write_state == WriteState::Shutdown, final(self).stream == old(self).stream {
        self.write_state = WriteState::Shutdown;
    }
    pub fn write_response(&mut self, response: &Response) -> (r: Result<(), HttpError>)
      ensures
        old(self).write_state != WriteState::Response ==> r is Err && final(self).stream.w == old(self).stream.w && final(self).write_state == old(self).write_state,
        (old(self).write_state == WriteState::Response && r is Ok) ==> final(self).stream.w == old(self).stream.w + ser(*response, 500 <= response.code <= 599),
        (old(self).write_state == WriteState::Response && r is Ok && 500 <= response.code <= 599) ==> final(self).write_state == WriteState::Shutdown,
        (old(self).write_state == WriteState::Response && r is Ok && !(500 <= response.code <= 599) && response.code / 100 != 1) ==> final(self).write_state == WriteState::None,
        (old(self).write_state == WriteState::Response && r is Err && final(self).stream.w != old(self).stream.w) ==> final(self).write_state == WriteState::Shutdown,
        (old(self).write_state == WriteState::Response && r is Err && final(self).stream.w == old(self).stream.w) ==> final(self).write_state == WriteState::Response,
    {
        match self.write_state {
            WriteState::None => return Err(HttpError::ResponseAlreadySent),
            WriteState::Response => {}
            WriteState::Shutdown => return Err(HttpError::Disconnected),
        }
        let mut write_counter = AsyncWriteCounter::new(&mut self.stream);
        let close = (500..=599).contains(&response.code);
        let result = write_http_response(&mut write_counter, response, close);
        if result.is_ok() {
            if !response.is_1xx() {
                self.write_state = WriteState::None;
            }
            if close {
                self.shutdown_write();
            }
        } else if write_counter.num_bytes_written() > 0 {
            self.shutdown_write();
        }
        result
    }
}
} // verus!
fn main() {}
