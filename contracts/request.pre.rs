// ---- unit request: the whole of read_http_request on its real text (the pieces proved as regions in units head, framing
// and cookiereq are proved again here in place, so that the data flow between them is checked too)
use std::net::SocketAddr;
#[verifier::external_type_specification]
#[verifier::external_body]
pub struct ExSocketAddr(SocketAddr);
#[verifier::external_body]
pub fn next_insecure_rand_u64() -> u64 { unimplemented!() }
// what the request handed to the handler must be, as a function of the head that was read (taken from the properties C03 /
// C15; the staging follows the fields being consumed one after the other)
pub open spec fn hs1(h: Head) -> Seq<Header> { rest(h.headers.0@, lit_content_type()) }
pub open spec fn hs2(h: Head) -> Seq<Header> { rest(hs1(h), lit_expect()) }
pub open spec fn hs3(h: Head) -> Seq<Header> { rest(hs2(h), lit_transfer_encoding()) }
pub open spec fn ct_of(h: Head) -> ContentType {
    let m = matching(h.headers.0@, lit_content_type());
    if m.len() == 1 { ct_parse(m[0].inner()@) } else { ContentType::None }
}
pub open spec fn expect_of(h: Head) -> bool {
    let m = matching(hs1(h), lit_expect());
    m.len() == 1 && m[0].inner()@ == "100-continue"@
}
pub open spec fn request_of(h: Head, r: Result<Request, HttpError>) -> bool {
    let te = matching(hs2(h), lit_transfer_encoding());
    let ck = apply_fields(Map::<Seq<char>, Seq<char>>::empty(), matching(hs3(h), lit_cookie()));
    let cl = matching(hs3(h), lit_content_length());
    match r {
        Ok(q) => {
            &&& q.method == h.method && q.url == h.url && q.headers.0@ == hs3(h)
            &&& q.content_type == ct_of(h) && q.expect_continue == expect_of(h)
            &&& te_result(te, Ok::<(bool, bool), HttpError>((q.gzip, q.chunked)))
            &&& ck == Some(q.cookies@)
            &&& cl_result(cl, Ok::<Option<u64>, HttpError>(q.content_length))
            &&& q.body == body_class(q.chunked, q.content_length, h.method@, q.expect_continue, q.gzip)
        },
        // refused: exactly for one of the documented reasons, the first that applies
        Err(e) => {
            ||| te_result(te, Err::<(bool, bool), HttpError>(e))
            ||| (exists|g: bool, c: bool| te_result(te, Ok::<(bool, bool), HttpError>((g, c)))) && ck is None && e is MalformedCookieHeader
            ||| (exists|g: bool, c: bool| te_result(te, Ok::<(bool, bool), HttpError>((g, c)))) && ck is Some && cl_result(cl, Err::<Option<u64>, HttpError>(e))
        },
    }
}
