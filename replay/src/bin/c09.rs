//! C09 witness search / replay: the real body readers at limit boundaries.
use servlin::internal::{read_http_body_to_file, read_http_body_to_vec, read_http_unsized_body_to_file, HttpError};
use servlin::RequestBody;
use verif_replay::{block_on, ScriptReader, Step};

fn data(n: usize) -> Vec<u8> { (0..n).map(|i| (i * 7 + 3) as u8).collect() }

/// unsized body of `l` bytes, limit `m`
fn unsized_file(l: usize, m: u64) -> Option<String> {
    let dir = std::env::temp_dir();
    let src = data(l);
    let desc = format!("unsized_to_file len={l} max_len={m}");
    let r = std::panic::catch_unwind(|| {
        let rd = ScriptReader::new(vec![Step::Data(src.clone()), Step::Eof]);
        block_on(read_http_unsized_body_to_file(rd, &dir, m))
    });
    let want_ok = (l as u64) <= m;
    match r {
        Err(_) => Some(format!("{desc} expected={} actual=panic", if want_ok { "Ok" } else { "BodyTooLong" })),
        Ok(Ok(RequestBody::TempFile(tf, n))) => {
            let on_disk = std::fs::read(tf.path()).unwrap_or_default();
            if !want_ok { return Some(format!("{desc} expected=BodyTooLong actual=Ok(len={n})")); }
            if n != l as u64 || on_disk != src { return Some(format!("{desc} expected=Ok(len={l},intact) actual=Ok(len={n},file_len={})", on_disk.len())); }
            None
        }
        Ok(Ok(_)) => Some(format!("{desc} expected=TempFile actual=other-variant")),
        Ok(Err(HttpError::BodyTooLong)) => if want_ok { Some(format!("{desc} expected=Ok actual=BodyTooLong")) } else { None },
        Ok(Err(e)) => Some(format!("{desc} expected={} actual={e:?}", if want_ok { "Ok" } else { "BodyTooLong" })),
    }
}
/// sized body: stream holds `avail` bytes, declared `l`
fn sized(l: usize, avail: usize, to_file: bool) -> Option<String> {
    let dir = std::env::temp_dir();
    let src = data(avail);
    let desc = format!("sized to_file={to_file} declared={l} available={avail}");
    let r = std::panic::catch_unwind(|| {
        let mut rd = ScriptReader::new(vec![Step::Data(src.clone()), Step::Eof]);
        let res = if to_file { block_on(read_http_body_to_file(&mut rd, l as u64, &dir)) } else { block_on(read_http_body_to_vec(&mut rd, l)) };
        (res, rd.delivered.len())
    });
    match r {
        Err(_) => Some(format!("{desc} expected=no-panic actual=panic")),
        Ok((res, consumed)) => {
            if consumed > l { return Some(format!("{desc} expected=consumed<={l} actual=consumed={consumed}")); }
            match res {
                Ok(b) => {
                    if avail < l { return Some(format!("{desc} expected=Truncated actual=Ok")); }
                    let got: Vec<u8> = match &b { RequestBody::Vec(v) => v.clone(), RequestBody::TempFile(tf, _) => std::fs::read(tf.path()).unwrap_or_default(), _ => vec![] };
                    if got != src[..l] { return Some(format!("{desc} expected=body-intact actual=differs(len={})", got.len())); }
                    if b.len() != Some(l as u64) { return Some(format!("{desc} expected=len={l} actual={:?}", b.len())); }
                    None
                }
                Err(HttpError::Truncated) => if avail < l { None } else { Some(format!("{desc} expected=Ok actual=Truncated")) },
                Err(e) => Some(format!("{desc} expected=Ok-or-Truncated actual={e:?}")),
            }
        }
    }
}

/// the disk refuses to take the body: the process runs under a file-size limit of 512 bytes (`ulimit -f 1`, SIGXFSZ
/// ignored), so every write past that fails.  An upload must then be refused -- never accepted with a file that does not
/// hold the bytes sent.  This function re-executes the binary under `sh` and relays the child's verdict.
fn disk_full(kind: &str, l: usize) -> Option<String> {
    let me = std::env::current_exe().unwrap();
    let out = std::process::Command::new("sh").arg("-c").arg(format!("trap '' XFSZ; ulimit -f 1; exec '{}' fsize-child {kind} {l}", me.display())).output();
    match out {
        Err(e) => Some(format!("diskfull kind={kind} len={l} expected=child-runs actual={e}")),
        Ok(o) => { let t = String::from_utf8_lossy(&o.stdout).to_string(); t.lines().find(|x| x.starts_with("CHILD ")).map(|x| x[6..].to_string()).filter(|x| x != "ok") }
    }
}
fn disk_full_child(kind: &str, l: usize) {
    let dir = std::env::temp_dir();
    let src = data(l);
    let desc = format!("diskfull kind={kind} len={l}");
    // the limit must be in effect, else the scenario says nothing
    let probe = dir.join(format!("verif-c09-probe-{}", std::process::id()));
    let limited = std::fs::write(&probe, vec![0u8; 4096]).is_err();
    let _ = std::fs::remove_file(&probe);
    if !limited { println!("CHILD ok"); return; }
    let rd = ScriptReader::new(vec![Step::Data(src.clone()), Step::Eof]);
    let res = if kind == "sized" { block_on(read_http_body_to_file(rd, l as u64, &dir)) } else { block_on(read_http_unsized_body_to_file(rd, &dir, 1 << 30)) };
    match res {
        Ok(RequestBody::TempFile(tf, n)) => {
            let on_disk = std::fs::read(tf.path()).unwrap_or_default();
            if on_disk == src && n == l as u64 { println!("CHILD ok") } else { println!("CHILD {desc} expected=refused-or-intact actual=accepted(len={n},file_len={})", on_disk.len()) }
        }
        Ok(_) => println!("CHILD {desc} expected=refused-or-intact actual=other-variant"),
        Err(_) => println!("CHILD ok"),
    }
}
fn main() {
    std::panic::set_hook(Box::new(|_| {}));
    let args: Vec<String> = std::env::args().collect();
    if args.len() >= 4 && args[1] == "fsize-child" { disk_full_child(&args[2], args[3].parse().unwrap()); return; }
    let nums = |w: &str| -> Vec<u64> { w.split(|c: char| !c.is_ascii_digit()).filter(|s| !s.is_empty()).filter_map(|s| s.parse().ok()).collect() };
    if args.len() >= 3 && args[1] == "replay" {
        let w = args[2..].join(" ");
        let n = nums(&w);
        let r = if w.starts_with("diskfull") { disk_full(if w.contains("kind=sized") { "sized" } else { "unsized" }, n[0] as usize) } else if w.starts_with("unsized") { unsized_file(n[0] as usize, n[1]) } else { sized(n[0] as usize, n[1] as usize, w.contains("to_file=true")) };
        match r {
            Some(m) => { println!("WITNESS {m}"); std::process::exit(1) }
            None => { println!("OK witness no longer fails"); std::process::exit(0) }
        }
    }
    let mut found = Vec::new();
    let mut n = 0u64;
    for l in [0usize, 1, 2, 100, 65535, 65536, 65537, 70000] {
        for m in [0u64, 1, 99, 100, 101, 65536, 70000, 1 << 63, u64::MAX - 1, u64::MAX] {
            n += 1;
            if let Some(w) = unsized_file(l, m) { if found.len() < 5 { found.push(w) } }
        }
        for avail in [0usize, 1, l.saturating_sub(1), l, l + 1, l + 70000] {
            for to_file in [false, true] {
                n += 1;
                if let Some(w) = sized(l, avail, to_file) { if found.len() < 5 { found.push(w) } }
            }
        }
    }
    for kind in ["sized", "unsized"] { for l in [513usize, 3000, 70000] {
        n += 1;
        if let Some(w) = disk_full(kind, l) { if found.len() < 5 { found.push(w) } }
    }}
    println!("EVALUATED {n}");
    for f in &found { println!("WITNESS {f}"); }
    std::process::exit(if found.is_empty() { 0 } else { 1 });
}
