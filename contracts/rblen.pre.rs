// what RequestBody::len answers: None for a body of unknown length, the length otherwise
pub open spec fn rblen(b: RequestBody) -> Option<u64> {
    match b {
        RequestBody::PendingUnknown => None,
        RequestBody::PendingKnown(n) => Some(n),
        RequestBody::StaticBytes(x) => Some(x@.len() as u64),
        RequestBody::StaticStr(s) => Some(s.len() as u64),
        RequestBody::Vec(v) => Some(v@.len() as u64),
        RequestBody::File(_, n) => Some(n),
        RequestBody::TempFile(_, n) => Some(n),
    }
}
