// ---- spec of "first occurrence of needle in haystack"
pub open spec fn occurs_at<T>(needle: Seq<T>, hay: Seq<T>, n: int) -> bool {
    0 <= n && n + needle.len() <= hay.len() && hay.subrange(n, n + needle.len()) =~= needle
}
pub open spec fn first_occ<T>(needle: Seq<T>, hay: Seq<T>, n: int) -> bool {
    occurs_at(needle, hay, n) && forall|m: int| 0 <= m < n ==> !occurs_at(needle, hay, m)
}
pub open spec fn no_occ<T>(needle: Seq<T>, hay: Seq<T>) -> bool {
    forall|m: int| !occurs_at(needle, hay, m)
}
// `==` on slices of T is element-wise equality (true for u8, the only instantiation in the crate)
pub open spec fn slice_eq_is_seq_eq<T: std::cmp::PartialEq>() -> bool {
    <[T] as vstd::std_specs::cmp::PartialEqSpec<[T]>>::obeys_eq_spec()
    && forall|a: &[T], b: &[T]| #[trigger] <[T] as vstd::std_specs::cmp::PartialEqSpec<[T]>>::eq_spec(a, b) == (a@ =~= b@)
}
pub open spec fn delim() -> Seq<u8> { seq![13u8, 10u8, 13u8, 10u8] }


// ---- the head delimiter CRLFCRLF
pub open spec fn has_delim(s: Seq<u8>) -> bool { exists|p: int| occurs_at(delim(), s, p) }
// position of the first delimiter (meaningful when has_delim)
pub open spec fn fd(s: Seq<u8>) -> int { choose|p: int| first_occ(delim(), s, p) }
pub proof fn lemma_first_unique(s: Seq<u8>, a: int)
    requires first_occ(delim(), s, a)
    ensures has_delim(s), fd(s) == a
{
    let b = fd(s);
    assert(first_occ(delim(), s, b));
    if a < b { assert(!occurs_at(delim(), s, a)); }
    if b < a { assert(!occurs_at(delim(), s, b)); }
}
pub proof fn lemma_no_delim(s: Seq<u8>)
    requires no_occ(delim(), s)
    ensures !has_delim(s)
{}
// a delimiter found in a prefix is the first delimiter of every extension (partition independence)
pub proof fn lemma_fd_prefix(s: Seq<u8>, t: Seq<u8>)
    requires has_delim(s), s.is_prefix_of(t)
    ensures has_delim(t), fd(t) == fd(s)
{
    let p = choose|p: int| occurs_at(delim(), s, p);
    // least occurrence exists
    lemma_least(s, p);
    let a = fd(s);
    assert(first_occ(delim(), s, a));
    assert(t.subrange(a, a + 4) =~= s.subrange(a, a + 4));
    assert forall|m: int| 0 <= m < a implies !occurs_at(delim(), t, m) by {
        if occurs_at(delim(), t, m) {
            assert(s.subrange(m, m + 4) =~= t.subrange(m, m + 4));
            assert(occurs_at(delim(), s, m));
        }
    }
    lemma_first_unique(t, a);
}
pub proof fn lemma_fd_is_first(s: Seq<u8>)
    requires has_delim(s)
    ensures first_occ(delim(), s, fd(s)), 0 <= fd(s), fd(s) + 4 <= s.len()
{
    lemma_least(s, choose|q: int| occurs_at(delim(), s, q));
}
pub proof fn lemma_least(s: Seq<u8>, p: int)
    requires occurs_at(delim(), s, p)
    ensures exists|a: int| first_occ(delim(), s, a)
    decreases p
{
    if exists|m: int| 0 <= m < p && occurs_at(delim(), s, m) {
        let m = choose|m: int| 0 <= m < p && occurs_at(delim(), s, m);
        lemma_least(s, m);
    } else {
        assert(first_occ(delim(), s, p));
    }
}

// ---- Head::try_read, assumed at this level: it is `let head = Self::read_head_bytes(buf)?;`
// (checked syntactically on every run; read_head_bytes itself is under contract below) followed by
// parsing of the head bytes with regex! / iterator chains (outside Verus), abstracted as the
// uninterpreted total function parse_head.  The parsers never produce HeadError::Truncated
// (checked syntactically: the constructor occurs once in `impl Head`, in read_head_bytes).
pub uninterp spec fn parse_head(bytes: Seq<u8>) -> Result<Head, HeadError>;
pub open spec fn buf_unchanged<const N: usize>(a: FixedBuf<N>, b: FixedBuf<N>) -> bool {
    a.ri() == b.ri() && a.wi() == b.wi() && a.mem() == b.mem()
}
// exactly the head and its delimiter are consumed; everything after stays readable
pub open spec fn consumed_head<const N: usize>(pre: FixedBuf<N>, post: FixedBuf<N>) -> bool {
    has_delim(pre.rd()) && post.wf() && post.mem() == pre.mem()
    && post.rd() == pre.rd().subrange(fd(pre.rd()) + 4, pre.rd().len() as int)
}
// ---- the contract of read_http_head, from the property statement: the outcome is a function of the
// bytes available (buffered ++ delivered), independent of how they were split into reads
pub open spec fn head_post<const N: usize>(pre: FixedBuf<N>, post: FixedBuf<N>, evs: Seq<Ev>, r: Result<Head, HttpError>) -> bool {
    let all = pre.rd() + bytes_of(evs);
    match r {
        Ok(h) => data_only(evs) && has_delim(all) && parse_head(all.subrange(0, fd(all))) == Ok::<Head, HeadError>(h)
                 && post.rd() == all.subrange(fd(all) + 4, all.len() as int),
        Err(e) =>
            if e is HeadTooLong { data_only(evs) && !has_delim(all) && post.wi() == N && post.rd() == all && post.ri() == pre.ri() }
            // end of stream / read error arrived while there was still room in the buffer
            else if e is Disconnected { evs.len() > 0 && !(evs.last() is Data) && data_only(evs.drop_last()) && all.len() == 0
                                        && post.rd() == all && post.wi() < N }
            else if e is Truncated { evs.len() > 0 && !(evs.last() is Data) && data_only(evs.drop_last()) && all.len() > 0 && !has_delim(all)
                                     && post.rd() == all && post.wi() < N }
            else { data_only(evs) && has_delim(all) && parse_head(all.subrange(0, fd(all))) is Err
                   && e == http_error_of(parse_head(all.subrange(0, fd(all)))->Err_0)
                   && post.rd() == all.subrange(fd(all) + 4, all.len() as int) },
    }
}
pub open spec fn http_error_of(e: HeadError) -> HttpError {
    match e {
        HeadError::Truncated => HttpError::Truncated,
        HeadError::MissingRequestLine => HttpError::MissingRequestLine,
        HeadError::MalformedRequestLine => HttpError::MalformedRequestLine,
        HeadError::MalformedPath => HttpError::MalformedPath,
        HeadError::UnsupportedProtocol => HttpError::UnsupportedProtocol,
        HeadError::MalformedHeader => HttpError::MalformedHeaderLine,
    }
}

// read_http_request starts with `buf.shift(); read_http_head(buf, reader)`: the head gets the whole
// buffer, so HeadTooLong means BUF_SIZE bytes without a delimiter, wherever the previous message ended
pub open spec fn request_head_post<const N: usize>(pre: FixedBuf<N>, post: FixedBuf<N>, evs: Seq<Ev>, r: Result<Head, HttpError>) -> bool {
    let all = pre.rd() + bytes_of(evs);
    &&& exists|mid: FixedBuf<N>| #[trigger] mid.wf() && mid.ri() == 0 && mid.rd() == pre.rd() && head_post(mid, post, evs, r)
    &&& (r is Err && r->Err_0 is HeadTooLong) ==> all.len() == N
}
