// ---- unit timefmt: the rendering of the proven fields (C16's "zero-padded and fixed-width")
// the instant as whole seconds since the epoch (assumed: instants before 1970 and beyond 2^48 s are excluded -- rule S1
// stand-in for `self.duration_since(SystemTime::UNIX_EPOCH)`, whose unwrap panics for earlier instants)
pub uninterp spec fn epoch_secs(t: SystemTime) -> int;
#[verifier::external_body]
pub fn duration_since_epoch(t: &SystemTime) -> (r: Result<Duration, std::time::SystemTimeError>)
    ensures r is Ok, dur_secs(r->Ok_0) == epoch_secs(*t), 0 <= epoch_secs(*t) <= 0x1_0000_0000_0000
{ unimplemented!() }
#[verifier::external_type_specification]
#[verifier::external_body]
pub struct ExSystemTimeError(std::time::SystemTimeError);
pub trait ToDateTime { fn to_datetime(&self) -> DateTime; }
pub trait FormatTime { fn iso8601_utc(&self) -> String; }
// the rendered text (taken from the property: YYYY-MM-DDTHH:MM:SSZ, every field zero-padded to its width)
pub open spec fn iso_spec(dt: DateTime) -> Seq<char> {
    Seq::<char>::empty() + pad_int(dt.year as int, 4) + seq!['-'] + pad_int(dt.month as int, 2) + seq!['-'] + pad_int(dt.day as int, 2) + seq!['T']
        + pad_int(dt.hour as int, 2) + seq![':'] + pad_int(dt.min as int, 2) + seq![':'] + pad_int(dt.sec as int, 2) + seq!['Z']
}

// ---- log file names (LogFile::create): `.YYYYMMDDTHHMMSSZ-n` after the prefix.  OsText stands for the OsString being built
// (rule S1 stand-in for `path_str.push(..)`: assumed to append the text)
#[verifier::external_body]
pub struct OsText { _p: () }
impl OsText { pub uninterp spec fn text(&self) -> Seq<char>; }
#[verifier::external_body]
pub fn os_push(p: &mut OsText, s: String)
    ensures final(p).text() == old(p).text() + s@
{ unimplemented!() }
pub open spec fn log_suffix(dt: DateTime, n: u64) -> Seq<char> {
    Seq::<char>::empty() + seq!['.'] + pad_int(dt.year as int, 4) + pad_int(dt.month as int, 2) + pad_int(dt.day as int, 2) + seq!['T']
        + pad_int(dt.hour as int, 2) + pad_int(dt.min as int, 2) + pad_int(dt.sec as int, 2) + seq!['Z', '-'] + dec_int(n as int)
}
