    // status-class helpers agree with the numeric class, for every u16 code
    // @harness class=complete
    #[kani::proof]
    fn c20_status_classes() {
        let code: u16 = kani::any();
        let r = Response::new(code);
        assert!(r.is_normal());
        assert!(r.is_1xx() == (100..=199).contains(&code));
        assert!(r.is_2xx() == (200..=299).contains(&code));
        assert!(r.is_3xx() == (300..=399).contains(&code));
        assert!(r.is_4xx() == (400..=499).contains(&code));
        assert!(r.is_5xx() == (500..=599).contains(&code));
    }
