//! C18 bounded stand-in / witness replay: the logging front end on one thread (plus one helper thread for tag isolation)
//! with a capturing logger installed through set_global_logger.  Every captured event is rendered with the real
//! write_jsonl and read back; the oracle is the property statement: exactly one event per call, to the installed logger,
//! carrying the call's tags plus this thread's own tags (and nobody else's), msg / http_method / path / request_body_len /
//! request_body / response_body_len first in that order and the rest in the order given; the request / response wrapper
//! returns the handler's response (or the error's, or a bare 500), logs its code at info / error, starts from a clean
//! per-thread tag set, and a stopped logger is an Err, not a panic.
use servlin::log::internal::LogEvent;
use servlin::log::{add_thread_local_log_tag, clear_thread_local_log_tags, log_request_and_response, log_response, set_global_logger, tag};
use servlin::{Error, Request, RequestBody, Response};
use std::sync::mpsc::{sync_channel, Receiver};

fn members(ev: &LogEvent) -> Vec<(String, String)> {
    // keys and raw value texts of the line, in order (a small reader for the flat objects the logger writes)
    let mut b = Vec::new();
    ev.write_jsonl(&mut b).unwrap();
    let s = String::from_utf8(b).unwrap();
    let s = s.trim_end_matches('\n');
    let inner = &s[1..s.len() - 1];
    let mut out = Vec::new();
    let cs: Vec<char> = inner.chars().collect();
    let mut i = 0;
    while i < cs.len() {
        // key
        assert_eq!(cs[i], '"'); i += 1; let mut k = String::new();
        while cs[i] != '"' { if cs[i] == '\\' { k.push(cs[i]); i += 1; } k.push(cs[i]); i += 1; }
        i += 1; assert_eq!(cs[i], ':'); i += 1;
        let mut v = String::new();
        if cs[i] == '"' { v.push('"'); i += 1; while cs[i] != '"' { if cs[i] == '\\' { v.push(cs[i]); i += 1; } v.push(cs[i]); i += 1; } v.push('"'); i += 1; }
        else { while i < cs.len() && cs[i] != ',' { v.push(cs[i]); i += 1; } }
        out.push((k, v));
        if i < cs.len() { assert_eq!(cs[i], ','); i += 1; }
    }
    out
}
fn drain(rx: &Receiver<LogEvent>) -> Vec<Vec<(String, String)>> { let mut v = Vec::new(); while let Ok(e) = rx.try_recv() { v.push(members(&e)); } v }
/// the tag members in their order (the fixed members time / level / time_ns may stand anywhere: C17 fixes their presence only)
fn keys(m: &[(String, String)]) -> Vec<String> {
    let mut v: Vec<String> = m.iter().map(|x| x.0.clone()).filter(|k| k != "time" && k != "time_ns" && k != "level").collect();
    if m.iter().filter(|x| x.0 == "level").count() == 1 { v.insert(0, "level".to_string()); }
    v
}
fn get<'a>(m: &'a [(String, String)], k: &str) -> Option<&'a str> { m.iter().find(|x| x.0 == k).map(|x| x.1.as_str()) }
fn request(method: &str, path: &str, body: RequestBody) -> Request {
    Request { id: 7, remote_addr: "127.0.0.1:9".parse().unwrap(), method: method.to_string(), url: url_of(path), headers: servlin::HeaderList::new(),
        cookies: Default::default(), content_type: servlin::ContentType::None, expect_continue: false, chunked: false, gzip: false, content_length: None, body }
}
fn url_of(path: &str) -> url::Url { url::Url::parse(&format!("http://h{path}")).unwrap() }

fn scenario(name: &str) -> Option<String> {
    let (tx, rx) = sync_channel::<LogEvent>(100);
    let guard = match set_global_logger(tx) { Ok(g) => g, Err(_) => return Some(format!("log scenario={name} expected=logger installed actual=already set")) };
    clear_thread_local_log_tags();
    let fail = |m: String| Some(format!("log scenario={name} {m}"));
    let r = (|| -> Option<String> {
        match name {
            "order" => {
                // known keys first in their fixed order, the rest in the order given, thread tags after the call's tags
                add_thread_local_log_tag("tl1", 1u8);
                add_thread_local_log_tag("path", "/p");
                servlin::log::info("m", (tag("z", 1u8), tag("response_body_len", 5u64), tag("a", "x"), tag("http_method", "GET"), tag("request_body_len", 3u64))).ok()?;
                let evs = drain(&rx);
                if evs.len() != 1 { return fail(format!("expected=1 event actual={}", evs.len())); }
                let want = ["level", "msg", "http_method", "path", "request_body_len", "response_body_len", "z", "a", "tl1"];
                if keys(&evs[0]) != want { return fail(format!("expected=keys {want:?} actual={:?}", keys(&evs[0]))); }
                if get(&evs[0], "level") != Some("\"info\"") || get(&evs[0], "msg") != Some("\"m\"") || get(&evs[0], "z") != Some("1") { return fail(format!("expected=values kept actual={:?}", evs[0])); }
                None
            }
            "msgtag" => {
                // the caller passes a tag that is itself named `msg` (and the thread has one too): the message comes first, then the
                // caller's, then the thread's -- for each of the three front functions
                add_thread_local_log_tag("msg", "of the thread");
                for which in 0..3 {
                    let tags = (tag("a", 1u8), tag("msg", "the cause"), tag("path", "/p"));
                    let r = match which { 0 => servlin::log::error("the message", tags), 1 => servlin::log::info("the message", tags), _ => servlin::log::debug("the message", tags) };
                    r.ok()?;
                    let evs = drain(&rx);
                    if evs.len() != 1 { return fail(format!("expected=1 event actual={}", evs.len())); }
                    let msgs: Vec<&str> = evs[0].iter().filter(|x| x.0 == "msg").map(|x| x.1.as_str()).collect();
                    if msgs != ["\"the message\"", "\"the cause\"", "\"of the thread\""] { return fail(format!("expected=msg members [the message, the cause, of the thread] actual={msgs:?}")); }
                    let want = ["level", "msg", "msg", "msg", "path", "a"];
                    if keys(&evs[0]) != want { return fail(format!("expected=keys {want:?} actual={:?}", keys(&evs[0]))); }
                }
                None
            }
            "collision" => {
                // a tag passed to the call and a tag of the thread share a name (and the thread has one name twice): the
                // event carries all of them, none is dropped or merged
                add_thread_local_log_tag("user", "alice");
                add_thread_local_log_tag("shard", 3u8);
                add_thread_local_log_tag("shard", 4u8);
                add_thread_local_log_tag("path", "/upload");
                servlin::log::info("m", (tag("user", "bob"), tag("item", 6u8), tag("path", "/var/f1"))).ok()?;
                let evs = drain(&rx);
                if evs.len() != 1 { return fail(format!("expected=1 event actual={}", evs.len())); }
                let want = ["level", "msg", "path", "path", "user", "item", "user", "shard", "shard"];
                if keys(&evs[0]) != want { return fail(format!("expected=keys {want:?} (every tag given and every tag of the thread) actual={:?}", keys(&evs[0]))); }
                let vals: Vec<&str> = evs[0].iter().filter(|x| x.0 == "user" || x.0 == "path" || x.0 == "shard").map(|x| x.1.as_str()).collect();
                if vals != ["\"/var/f1\"", "\"/upload\"", "\"bob\"", "\"alice\"", "3", "4"] { return fail(format!("expected=the call's value before the thread's for a shared name actual={vals:?}")); }
                None
            }
            "many" => {
                // many tags: those without a fixed place keep the order given (the error's own tags, then the rest), whatever their number
                for k in 0..5u8 { add_thread_local_log_tag(["t0", "t1", "t2", "t3", "t4"][k as usize], k); }
                add_thread_local_log_tag("http_method", "GET");
                let names: [&'static str; 40] = ["a00","a01","a02","a03","a04","a05","a06","a07","a08","a09","a10","a11","a12","a13","a14","a15","a16","a17","a18","a19",
                    "a20","a21","a22","a23","a24","a25","a26","a27","a28","a29","a30","a31","a32","a33","a34","a35","a36","a37","a38","a39"];
                let mut e = Error::client_error(Response::text(404, "nope")).with_msg("why");
                for nm in names { e = e.with_tag(nm, 1u8); }
                let _ = log_response(Err(e));
                let evs = drain(&rx);
                if evs.len() != 1 { return fail(format!("expected=1 event actual={}", evs.len())); }
                let mut want: Vec<String> = vec!["level".into(), "msg".into(), "http_method".into(), "response_body_len".into()];
                want.extend(names.iter().map(|s| s.to_string()));
                want.push("code".into());
                want.extend(["t0", "t1", "t2", "t3", "t4"].iter().map(|s| s.to_string()));
                if keys(&evs[0]) != want { return fail(format!("expected=48 tags in the order given actual={:?}", keys(&evs[0]))); }
                None
            }
            "levels" => {
                let _ = servlin::log::error("e", ()); let _ = servlin::log::info("i", ()); let _ = servlin::log::debug("d", tag("k", true));
                let evs = drain(&rx);
                let got: Vec<(Option<&str>, Option<&str>)> = evs.iter().map(|m| (get(m, "level"), get(m, "msg"))).collect();
                if got != vec![(Some("\"error\""), Some("\"e\"")), (Some("\"info\""), Some("\"i\"")), (Some("\"debug\""), Some("\"d\""))] { return fail(format!("expected=error/e info/i debug/d actual={got:?}")); }
                if keys(&evs[2]) != ["level", "msg", "k"] { return fail(format!("expected=level msg k actual={:?}", keys(&evs[2]))); }
                None
            }
            "isolation" => {
                // a tag attached by another thread never shows up here; a tag of this thread does, on every event, until cleared
                std::thread::spawn(|| { add_thread_local_log_tag("foreign", 1u8); }).join().unwrap();
                add_thread_local_log_tag("mine", 2u8);
                let _ = servlin::log::info("a", ()); let _ = servlin::log::info("b", ());
                clear_thread_local_log_tags();
                let _ = servlin::log::info("c", ());
                let evs = drain(&rx);
                let ks: Vec<Vec<String>> = evs.iter().map(|m| keys(m)).collect();
                if ks != vec![vec!["level", "msg", "mine"], vec!["level", "msg", "mine"], vec!["level", "msg"]] { return fail(format!("expected=mine,mine,- actual={ks:?}")); }
                None
            }
            "response-ok" => {
                for (code, body) in [(200u16, "hello"), (404, ""), (500, "x")] {
                    let r = log_response(Ok(Response::text(code, body)));
                    let evs = drain(&rx);
                    let resp = match r { Ok(x) => x, Err(_) => return fail(format!("expected=Ok actual=LoggerStopped")) };
                    if resp.code != code || resp.body.len() != Some(body.len() as u64) { return fail(format!("expected=the handler's own {code} response actual={}", resp.code)); }
                    if evs.len() != 1 || get(&evs[0], "level") != Some("\"info\"") || get(&evs[0], "code") != Some(&code.to_string()) || get(&evs[0], "response_body_len") != Some(&body.len().to_string()) {
                        return fail(format!("expected=one info event with code={code} response_body_len={} actual={evs:?}", body.len())); }
                }
                None
            }
            "response-err" => {
                // the error's own response; a bare 500 when it has none; level error; the error's tags and message are logged
                let e1 = Error::client_error(Response::text(422, "bad")).with_tag("who", "me").with_msg("why");
                let r1 = log_response(Err(e1)); let ev1 = drain(&rx);
                let e2 = Error::new().with_msg("boom");
                let r2 = log_response(Err(e2)); let ev2 = drain(&rx);
                match (r1, r2) {
                    (Ok(a), Ok(b)) => {
                        if a.code != 422 || a.body.len() != Some(3) { return fail(format!("expected=the error's 422 response actual={}", a.code)); }
                        if b.code != 500 || b.body.len() != Response::internal_server_error_500().body.len() { return fail(format!("expected=a bare 500 actual={}", b.code)); }
                    }
                    _ => return fail("expected=Ok actual=LoggerStopped".into()),
                }
                if ev1.len() != 1 || get(&ev1[0], "level") != Some("\"error\"") || get(&ev1[0], "code") != Some("422") || get(&ev1[0], "who") != Some("\"me\"") || get(&ev1[0], "msg") != Some("\"why\"") {
                    return fail(format!("expected=one error event code=422 who=me msg=why actual={ev1:?}")); }
                if ev2.len() != 1 || get(&ev2[0], "level") != Some("\"error\"") || get(&ev2[0], "code") != Some("500") || get(&ev2[0], "msg") != Some("\"boom\"") {
                    return fail(format!("expected=one error event code=500 msg=boom actual={ev2:?}")); }
                // the error's own response whatever its status (an early-return redirect, a 2xx carried by an Err): returned as it is,
                // its code logged at error level
                for code in [200u16, 204, 303, 399, 400, 404, 499, 500, 503, 599, 600] {
                    let e: Error = Response::text(code, "abc").into();
                    let r = log_response(Err(e)); let ev = drain(&rx);
                    match r { Ok(a) => { if a.code != code || a.body.len() != Some(3) { return fail(format!("expected=the error's own {code} response actual={} with body length {:?}", a.code, a.body.len())); } }
                              Err(_) => return fail("expected=Ok actual=LoggerStopped".into()) }
                    let cs = code.to_string();
                    if ev.len() != 1 || get(&ev[0], "level") != Some("\"error\"") || get(&ev[0], "code") != Some(cs.as_str()) { return fail(format!("expected=one error event code={code} actual={ev:?}")); }
                }
                None
            }
            "wrapper" => {
                // starts from a clean per-thread tag set, carries the request's tags, returns the handler's response
                add_thread_local_log_tag("stale", 1u8);
                let r = log_request_and_response(request("PUT", "/up", RequestBody::Vec(vec![1, 2, 3])), |req| { let _ = servlin::log::info("inside", tag("n", req.body.len().unwrap_or(0))); Ok(Response::text(201, "made")) });
                let evs = drain(&rx);
                let resp = match r { Ok(x) => x, Err(_) => return fail("expected=Ok actual=LoggerStopped".into()) };
                if resp.code != 201 || resp.body.len() != Some(4) { return fail(format!("expected=the handler's 201 response actual={}", resp.code)); }
                if evs.len() != 2 { return fail(format!("expected=2 events actual={}", evs.len())); }
                for m in &evs { if get(m, "stale").is_some() { return fail(format!("expected=clean tag set at the start actual={:?}", keys(m))); } }
                let k0 = keys(&evs[0]);
                if k0 != ["level", "msg", "http_method", "path", "request_body_len", "n", "request_id"] { return fail(format!("expected=level msg http_method path request_body_len n request_id actual={k0:?}")); }
                if get(&evs[0], "http_method") != Some("\"PUT\"") || get(&evs[0], "path") != Some("\"/up\"") || get(&evs[0], "request_body_len") != Some("3") || get(&evs[0], "request_id") != Some("7") { return fail(format!("expected=request tags actual={:?}", evs[0])); }
                let k1 = keys(&evs[1]);
                if k1 != ["level", "http_method", "path", "request_body_len", "response_body_len", "code", "request_id", "duration_ms"] { return fail(format!("expected=level http_method path request_body_len response_body_len code request_id duration_ms actual={k1:?}")); }
                if get(&evs[1], "level") != Some("\"info\"") || get(&evs[1], "code") != Some("201") { return fail(format!("expected=info code=201 actual={:?}", evs[1])); }
                // pending body: request_body = "pending"
                let r2 = log_request_and_response(request("POST", "/big", RequestBody::PendingUnknown), |_req| Err(Error::client_error(Response::text(413, "no"))));
                let evs2 = drain(&rx);
                if r2.as_ref().map(|x| x.code).ok() != Some(413) { return fail("expected=the error's 413 actual=other".into()); }
                if evs2.len() != 1 || get(&evs2[0], "request_body") != Some("\"pending\"") || get(&evs2[0], "level") != Some("\"error\"") || get(&evs2[0], "request_body_len").is_some() { return fail(format!("expected=error event with request_body=pending actual={evs2:?}")); }
                None
            }
            _ => None,
        }
    })();
    drop(guard);
    r
}
fn stopped() -> Option<String> {
    // a logger whose receiving end is gone: Err(LoggerStoppedError), never a panic
    let (tx, rx) = sync_channel::<LogEvent>(1);
    drop(rx);
    let guard = match set_global_logger(tx) { Ok(g) => g, Err(_) => return Some("log scenario=stopped expected=logger installed actual=already set".into()) };
    let r = std::panic::catch_unwind(|| (servlin::log::info("x", ()).is_err(), log_response(Ok(Response::new(200))).is_err(),
        log_request_and_response(request("GET", "/", RequestBody::empty()), |_r| Ok(Response::new(200))).is_err()));
    // the stopped logger stays the installed one: every later call is told so too, a second logger cannot be installed
    // next to it, and releasing it is an ordinary release
    let again = std::panic::catch_unwind(|| (0..3).map(|_| servlin::log::info("y", ()).is_err()).collect::<Vec<bool>>());
    let (tx2, _rx2) = sync_channel::<LogEvent>(1);
    let second = set_global_logger(tx2).is_err();
    let released = std::panic::catch_unwind(move || drop(guard)).is_ok();
    match r { Ok((true, true, true)) => (), Ok(other) => return Some(format!("log scenario=stopped expected=Err from info / log_response / wrapper actual={other:?}")), Err(_) => return Some("log scenario=stopped expected=Err actual=panic".into()) }
    match again { Ok(v) if v == [true; 3] => (), Ok(v) => return Some(format!("log scenario=stopped expected=Err from every later call as well (the stopped logger is still the installed one) actual={v:?}")), Err(_) => return Some("log scenario=stopped expected=Err from later calls actual=panic".into()) }
    if !second { return Some("log scenario=stopped expected=a second logger refused while the first is installed actual=installed".into()); }
    if !released { return Some("log scenario=stopped expected=the guard released without a panic actual=panic".into()); }
    None
}
fn lifecycle() -> Option<String> {
    // each call goes to the logger installed at that moment: A while A is installed (B is refused meanwhile), B after A
    // was released and B installed; neither sees the other's events
    let (txa, rxa) = sync_channel::<LogEvent>(8);
    let (txb, rxb) = sync_channel::<LogEvent>(8);
    // with no logger installed a call goes to the stdout default (started on demand); a logger installed afterwards replaces it
    let r0 = servlin::log::info("to the stdout default", ()).is_ok();
    if !r0 { return Some("log scenario=lifecycle expected=Ok from a call with no logger installed (stdout default) actual=Err".into()); }
    let ga = match set_global_logger(txa) { Ok(g) => g, Err(_) => return Some("log scenario=lifecycle expected=logger installed over the stdout default actual=already set".into()) };
    let r1 = servlin::log::info("one", ()).is_ok();
    let refused = set_global_logger(txb.clone()).is_err();
    let r2 = servlin::log::info("two", ()).is_ok();
    if std::panic::catch_unwind(move || drop(ga)).is_err() { return Some("log scenario=lifecycle expected=guard released actual=panic".into()); }
    let gb = match set_global_logger(txb) { Ok(g) => g, Err(_) => return Some("log scenario=lifecycle expected=B installed after A was released actual=already set".into()) };
    let r3 = servlin::log::info("three", ()).is_ok();
    if std::panic::catch_unwind(move || drop(gb)).is_err() { return Some("log scenario=lifecycle expected=guard released actual=panic".into()); }
    let a: Vec<String> = drain(&rxa).iter().map(|m| get(m, "msg").unwrap_or("").to_string()).collect();
    let b: Vec<String> = drain(&rxb).iter().map(|m| get(m, "msg").unwrap_or("").to_string()).collect();
    if !(r1 && r2 && r3) || !refused { return Some(format!("log scenario=lifecycle expected=Ok,Ok,Ok and B refused while A is installed actual={r1},{r2},{r3} refused={refused}")); }
    if a != ["\"one\"", "\"two\""] || b != ["\"three\""] { return Some(format!("log scenario=lifecycle expected=A:[one,two] B:[three] actual=A:{a:?} B:{b:?}")); }
    None
}
fn behind() -> Option<String> {
    // a running logger that is momentarily behind (queue of 1, the consumer starts late): every call still delivers
    // its event, once, and none reports the logger as stopped
    let (tx, rx) = sync_channel::<LogEvent>(1);
    let guard = match set_global_logger(tx) { Ok(g) => g, Err(_) => return Some("log scenario=behind expected=logger installed actual=already set".into()) };
    let consumer = std::thread::spawn(move || { std::thread::sleep(std::time::Duration::from_millis(150)); let mut v = Vec::new(); while let Ok(e) = rx.recv() { v.push(members(&e)); } v });
    let oks: Vec<bool> = ["first", "second", "third", "fourth"].iter().map(|m| servlin::log::info(*m, ()).is_ok()).collect();
    drop(guard);
    let got = consumer.join().unwrap();
    let msgs: Vec<String> = got.iter().map(|m| get(m, "msg").unwrap_or("").to_string()).collect();
    if oks != [true; 4] { return Some(format!("log scenario=behind expected=Ok from every call (the logger is running) actual={oks:?}")); }
    if msgs != ["\"first\"", "\"second\"", "\"third\"", "\"fourth\""] && msgs != ["first", "second", "third", "fourth"] { return Some(format!("log scenario=behind expected=four events in order, once each actual={msgs:?}")); }
    None
}
fn main() {
    std::panic::set_hook(Box::new(|_| {}));
    let args: Vec<String> = std::env::args().collect();
    let all = ["order", "msgtag", "collision", "many", "levels", "isolation", "response-ok", "response-err", "wrapper"];
    let run = |n: &str| -> Option<String> { if n == "stopped" { stopped() } else if n == "lifecycle" { lifecycle() } else if n == "behind" { behind() } else { match std::panic::catch_unwind(|| scenario(n)) { Ok(v) => v, Err(_) => Some(format!("log scenario={n} expected=no-panic actual=panic")) } } };
    if args.len() >= 3 && args[1] == "replay" {
        let w = args[2..].join(" ");
        let n = w.split("scenario=").nth(1).unwrap().split(' ').next().unwrap().to_string();
        match run(&n) { Some(m) => { println!("WITNESS {m}"); std::process::exit(1) } None => { println!("OK witness no longer fails"); std::process::exit(0) } }
    }
    let mut n = 0u64; let mut found = Vec::new();
    for s in all.iter().chain(["stopped", "lifecycle", "behind"].iter()) { n += 1; if let Some(m) = run(s) { found.push(m) } }
    println!("EVALUATED {n}");
    for f in &found { println!("WITNESS {f}"); }
    std::process::exit(if found.is_empty() { 0 } else { 1 });
}
