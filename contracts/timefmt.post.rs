// fixed width: through year 9999 the text has exactly 20 characters with the separators at their places
pub proof fn thm_iso_fixed_width(dt: DateTime)
    requires valid(dt), dt.year <= 9999
    ensures c16(iso_spec(dt).len() == 20), c16(iso_spec(dt)[4] == '-' && iso_spec(dt)[7] == '-' && iso_spec(dt)[10] == 'T' && iso_spec(dt)[13] == ':' && iso_spec(dt)[16] == ':' && iso_spec(dt)[19] == 'Z')
{
    axiom_pad_width(dt.year as int, 4); axiom_pad_width(dt.month as int, 2); axiom_pad_width(dt.day as int, 2);
    axiom_pad_width(dt.hour as int, 2); axiom_pad_width(dt.min as int, 2); axiom_pad_width(dt.sec as int, 2);
}
// the timestamp part of a log file name is fixed-width through year 9999: `.YYYYMMDDTHHMMSSZ-` is 18 characters, so names
// of one prefix sort by time up to the attempt number
pub proof fn thm_log_name_fixed_width(dt: DateTime, n: u64)
    requires valid(dt), dt.year <= 9999
    ensures c16(log_suffix(dt, n).len() == 18 + dec_int(n as int).len()), c16(log_suffix(dt, n)[0] == '.' && log_suffix(dt, n)[9] == 'T' && log_suffix(dt, n)[16] == 'Z' && log_suffix(dt, n)[17] == '-')
{
    axiom_pad_width(dt.year as int, 4); axiom_pad_width(dt.month as int, 2); axiom_pad_width(dt.day as int, 2);
    axiom_pad_width(dt.hour as int, 2); axiom_pad_width(dt.min as int, 2); axiom_pad_width(dt.sec as int, 2);
}
// vacuity canary -- must FAIL
fn canary_timefmt(t: &SystemTime)
{
    let s = t.iso8601_utc();
    let d = t.to_datetime();
    proof { axiom_pad_width(7, 2); }
    assert(false);
}
