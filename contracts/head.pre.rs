// ---- spec of "first occurrence of needle in haystack"
pub open spec fn occurs_at<T>(needle: Seq<T>, hay: Seq<T>, n: int) -> bool {
    0 <= n && n + needle.len() <= hay.len() && hay.subrange(n, n + needle.len()) =~= needle
}
pub open spec fn first_occ<T>(needle: Seq<T>, hay: Seq<T>, n: int) -> bool {
    occurs_at(needle, hay, n) && forall|m: int| 0 <= m < n ==> !occurs_at(needle, hay, m)
}
pub open spec fn no_occ<T>(needle: Seq<T>, hay: Seq<T>) -> bool {
    forall|m: int| !occurs_at(needle, hay, m)
}
// `==` on slices of T is element-wise equality (true for u8, the only instantiation in the crate)
pub open spec fn slice_eq_is_seq_eq<T: std::cmp::PartialEq>() -> bool {
    <[T] as vstd::std_specs::cmp::PartialEqSpec<[T]>>::obeys_eq_spec()
    && forall|a: &[T], b: &[T]| #[trigger] <[T] as vstd::std_specs::cmp::PartialEqSpec<[T]>>::eq_spec(a, b) == (a@ =~= b@)
}
pub open spec fn delim() -> Seq<u8> { seq![13u8, 10u8, 13u8, 10u8] }

// (vstd specifies <[T]>::first / last / split_first); assumed contract of <[T]>::split_last:
pub assume_specification<T>[ <[T]>::split_last ](s: &[T]) -> (r: Option<(&T, &[T])>)
    ensures s@.len() == 0 ==> r is None,
        s@.len() > 0 ==> r is Some && *r->Some_0.0 == s@[s@.len() - 1] && r->Some_0.1@ == s@.subrange(0, s@.len() - 1);

pub open spec fn is_ws(b: u8) -> bool { b == 32 || b == 9 || b == 13 || b == 10 }

// trimming optional whitespace (SP / HTAB / CR / LF) from both ends, front first -- the definition
pub open spec fn trim_ws(s: Seq<u8>) -> Seq<u8> decreases s.len() {
    if s.len() > 0 && is_ws(s[0]) { trim_ws(s.subrange(1, s.len() as int)) }
    else if s.len() > 0 && is_ws(s[s.len() - 1]) { trim_ws(s.subrange(0, s.len() - 1)) }
    else { s }
}
// ... and what it means: no whitespace is left at either end, and a value without surrounding
// whitespace is returned unchanged
pub proof fn lemma_trim_ws(s: Seq<u8>)
    ensures
        trim_ws(s).len() > 0 ==> !is_ws(trim_ws(s)[0]) && !is_ws(trim_ws(s)[trim_ws(s).len() - 1]),
        (s.len() == 0 || (!is_ws(s[0]) && !is_ws(s[s.len() - 1]))) ==> trim_ws(s) == s,
        trim_ws(s).len() <= s.len(),
    decreases s.len()
{
    if s.len() > 0 && is_ws(s[0]) {
        lemma_trim_ws(s.subrange(1, s.len() as int));
    } else if s.len() > 0 && is_ws(s[s.len() - 1]) {
        lemma_trim_ws(s.subrange(0, s.len() - 1));
    }
}
