// the header names the regions look up (string literals are `&str`; AsRef<str> for str is the identity,
// which the uninterpreted asref_spec leaves open -- so the contracts talk about asref_spec of the literal)
pub open spec fn lit_content_length() -> Seq<char> { asref_spec::<&str, str>(&"content-length")@ }
pub open spec fn lit_transfer_encoding() -> Seq<char> { asref_spec::<&str, str>(&"transfer-encoding")@ }

// ---- reading the Content-Length value (rule S1 stand-ins for `s.bytes().all(|b| b.is_ascii_digit())` and `s.parse()`;
// assumed, from std: u64::from_str accepts an optional '+' and then 1*DIGIT -- for digit-only text exactly the non-empty
// texts whose decimal value fits in 64 bits, with that value)
pub open spec fn is_digit_c(c: char) -> bool { 48 <= c as u32 <= 57 }
pub open spec fn digits_only(s: Seq<char>) -> bool { forall|i: int| 0 <= i < s.len() ==> is_digit_c(#[trigger] s[i]) }
pub open spec fn dec_value(s: Seq<char>) -> nat decreases s.len() {
    if s.len() == 0 { 0 } else { dec_value(s.drop_last()) * 10 + ((s.last() as u32 - 48) as nat) }
}
#[verifier::external_body]
pub fn all_ascii_digits(s: &str) -> (r: bool)
    ensures r == digits_only(s@)
{ unimplemented!() }
#[verifier::external_type_specification]
#[verifier::external_body]
pub struct ExParseIntError(std::num::ParseIntError);
#[verifier::external_body]
pub fn parse_u64(s: &str) -> (r: Result<u64, std::num::ParseIntError>)
    ensures digits_only(s@) ==> (r is Ok <==> (s@.len() > 0 && dec_value(s@) <= u64::MAX)),
        digits_only(s@) && r is Ok ==> r->Ok_0 == dec_value(s@),
{ unimplemented!() }
// what the region must answer for the Content-Length fields `vs` (in order)
pub open spec fn cl_result(vs: Seq<AsciiString>, r: Result<Option<u64>, HttpError>) -> bool {
    if vs.len() == 0 { r == Ok::<Option<u64>, HttpError>(None) }
    else if vs.len() >= 2 { r is Err && r->Err_0 is InvalidContentLength }
    else {
        let t = vs[0].inner()@;
        if digits_only(t) && t.len() > 0 && dec_value(t) <= u64::MAX { r == Ok::<Option<u64>, HttpError>(Some(dec_value(t) as u64)) }
        else { r is Err && r->Err_0 is InvalidContentLength }
    }
}

// ---- reading the Transfer-Encoding value.  Rule S1 stand-in for the iterator chain
// `opt.as_ref().map(AsciiString::as_str).unwrap_or_default().split(',').map(str::trim).filter(|s| !s.is_empty())`
// (assumed; compared with the real chain by the stand-in c03): the items of the comma-separated list, trimmed, empty ones dropped
pub uninterp spec fn te_list(v: Seq<char>) -> Seq<Seq<char>>;
#[verifier::external_body]
pub fn te_items<'a>(opt: &'a Option<AsciiString>) -> (r: Vec<&'a str>)
    ensures r@.len() == (match *opt { Some(a) => te_list(a.inner()@).len(), None => 0 }),
        forall|i: int| 0 <= i < r@.len() ==> (#[trigger] r@[i])@ == te_list(opt->Some_0.inner()@)[i],
{ unimplemented!() }
// two `&str` with the same characters are the same string (assumed; Verus compares a string-literal pattern as a value)
#[verifier::external_body]
pub broadcast proof fn axiom_str_ext(a: &str, b: &str)
    requires #[trigger] a@ == #[trigger] b@
    ensures a == b
{}
pub open spec fn codings_of(items: Seq<Seq<char>>) -> Option<(bool, bool)> {
    if items.len() == 0 { Some((false, false)) }
    else if items.len() == 1 && items[0] == "gzip"@ { Some((true, false)) }
    else if items.len() == 1 && items[0] == "chunked"@ { Some((false, true)) }
    else if items.len() == 2 && items[0] == "gzip"@ && items[1] == "chunked"@ { Some((true, true)) }
    else { None }
}
// what the region must answer for the Transfer-Encoding fields `vs`: (gzip, chunked), or the refusal
pub open spec fn te_result(vs: Seq<AsciiString>, r: Result<(bool, bool), HttpError>) -> bool {
    if vs.len() >= 2 { r is Err && r->Err_0 is UnsupportedTransferEncoding }
    else {
        let items = if vs.len() == 0 { Seq::<Seq<char>>::empty() } else { te_list(vs[0].inner()@) };
        match codings_of(items) { Some(c) => r == Ok::<(bool, bool), HttpError>(c), None => r is Err && r->Err_0 is UnsupportedTransferEncoding }
    }
}
pub open spec fn lit_expect() -> Seq<char> { asref_spec::<&str, str>(&"expect")@ }
// Option::map_or (assumed, from its definition): the default for None, f applied to the value for Some
pub assume_specification<T, U, F> [std::option::Option::<T>::map_or] (o: std::option::Option<T>, d: U, f: F) -> (r: U)
    where F: std::ops::FnOnce(T,) -> U + core::marker::Destruct, U: core::marker::Destruct,
    requires o matches Some(v) ==> f.requires((v,)),
    ensures match o { Some(v) => f.ensures((v,), r), None => r == d };
