// Contract of copy_async over the read events `evs` of the call (from the property statements
// of C06/C09: every byte once, in order, count returned; writer error => prefix).
pub open spec fn copy_post(evs: Seq<Ev>, w0: Seq<u8>, wend: Seq<u8>, res: CopyResult) -> bool {
    &&& evs.len() >= 1
    &&& data_only(evs.drop_last())
    &&& match res {
        CopyResult::Ok(n) => evs.last() is Eof && wend == w0 + bytes_of(evs) && n == bytes_of(evs).len(),
        CopyResult::ReaderErr(_) => evs.last() is Fail && wend == w0 + bytes_of(evs),
        CopyResult::WriterErr(_) => evs.last() is Data && w0.is_prefix_of(wend) && wend.is_prefix_of(w0 + bytes_of(evs)),
    }
}
