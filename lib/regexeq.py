"""regexeq -- decide language equivalence of two byte regular expressions (the subset of
safe_regex syntax used in src/head.rs: literals, escapes \\t \\r \\n \\\\, `.`, classes `[..]` /
`[^..]` with ranges, groups `(..)`, postfix `*` `+` `?`, concatenation; full match).

Thompson NFA -> subset construction over the 256-byte alphabet -> product walk.  Complete: the
answer is for all byte strings.  On inequivalence a shortest distinguishing string is returned.
"""


class ParseError(Exception):
    pass


def _unescape(c):
    return {"t": 9, "r": 13, "n": 10, "\\": 92, "0": 0}.get(c, ord(c))


def parse(rx):
    """-> AST: ('cat', [..]) | ('set', frozenset(bytes)) | ('star', a) | ('plus', a) | ('opt', a) | ('grp', a)"""
    pos = [0]
    b = rx

    def peek():
        return b[pos[0]] if pos[0] < len(b) else None

    def take():
        c = b[pos[0]]
        pos[0] += 1
        return c

    def atom():
        c = take()
        if c == "(":
            a = alt()
            if take() != ")":
                raise ParseError("expected )")
            return ("grp", a)
        if c == "[":
            neg = False
            if peek() == "^":
                take()
                neg = True
            items = set()
            first = True
            while True:
                c = take()
                if c == "]" and not first:
                    break
                first = False
                lo = _unescape(take()) if c == "\\" else ord(c)
                if peek() == "-" and pos[0] + 1 < len(b) and b[pos[0] + 1] != "]":
                    take()
                    c2 = take()
                    hi = _unescape(take()) if c2 == "\\" else ord(c2)
                    items.update(range(lo, hi + 1))
                else:
                    items.add(lo)
            s = frozenset(set(range(256)) - items) if neg else frozenset(items)
            return ("set", s)
        if c == ".":
            return ("set", frozenset(range(256)))
        if c == "\\":
            return ("set", frozenset([_unescape(take())]))
        if c in ")*+?|":
            raise ParseError("unexpected %r" % c)
        return ("set", frozenset([ord(c)]))

    def postfix():
        a = atom()
        while peek() in ("*", "+", "?"):
            c = take()
            a = ({"*": "star", "+": "plus", "?": "opt"}[c], a)
        return a

    def cat():
        xs = []
        while peek() is not None and peek() not in ")|":
            xs.append(postfix())
        return ("cat", xs)

    def alt():
        xs = [cat()]
        while peek() == "|":
            take()
            xs.append(cat())
        return xs[0] if len(xs) == 1 else ("alt", xs)

    a = alt()
    if pos[0] != len(b):
        raise ParseError("trailing input at %d" % pos[0])
    return a


def groups(ast):
    if ast[0] == "grp":
        return 1 + groups(ast[1])
    if ast[0] in ("cat", "alt"):
        return sum(groups(x) for x in ast[1])
    if ast[0] in ("star", "plus", "opt"):
        return groups(ast[1])
    return 0


def nfa(ast):
    """-> (start, accept, eps: {s: [t]}, trans: {s: [(set, t)]})"""
    eps, trans = {}, {}
    n = [0]

    def new():
        n[0] += 1
        return n[0]

    def build(a):
        k = a[0]
        if k == "set":
            s, t = new(), new()
            trans.setdefault(s, []).append((a[1], t))
            return s, t
        if k == "grp":
            return build(a[1])
        if k == "cat":
            s = t = new()
            for x in a[1]:
                xs, xt = build(x)
                eps.setdefault(t, []).append(xs)
                t = xt
            return s, t
        if k == "alt":
            s, t = new(), new()
            for x in a[1]:
                xs, xt = build(x)
                eps.setdefault(s, []).append(xs)
                eps.setdefault(xt, []).append(t)
            return s, t
        xs, xt = build(a[1])
        s, t = new(), new()
        eps.setdefault(s, []).append(xs)
        eps.setdefault(xt, []).append(t)
        if k in ("star", "plus"):
            eps.setdefault(xt, []).append(xs)
        if k in ("star", "opt"):
            eps.setdefault(s, []).append(t)
        return s, t

    s, t = build(ast)
    return s, t, eps, trans


def _closure(states, eps):
    st = list(states)
    seen = set(states)
    while st:
        x = st.pop()
        for y in eps.get(x, ()):
            if y not in seen:
                seen.add(y)
                st.append(y)
    return frozenset(seen)


def _step(S, byte, eps, trans):
    out = set()
    for x in S:
        for cs, t in trans.get(x, ()):
            if byte in cs:
                out.add(t)
    return _closure(out, eps)


def equivalent(rx_a, rx_b):
    """-> (True, None, stats) or (False, distinguishing bytes, stats)"""
    A = nfa(parse(rx_a))
    B = nfa(parse(rx_b))
    sa = _closure([A[0]], A[2])
    sb = _closure([B[0]], B[2])
    start = (sa, sb)
    seen = {start: None}
    queue = [start]
    edges = 0
    # byte classes: bytes that behave identically in every set of both regexes
    sets = [cs for tr in (A[3], B[3]) for lst in tr.values() for cs, _ in lst]
    sig = {}
    for byte in range(256):
        sig.setdefault(tuple(byte in cs for cs in sets), []).append(byte)
    reps = [v[0] for v in sig.values()]
    i = 0
    while i < len(queue):
        cur = queue[i]
        i += 1
        a_acc = A[1] in cur[0]
        b_acc = B[1] in cur[1]
        if a_acc != b_acc:
            w = []
            x = cur
            while seen[x] is not None:
                x, byte = seen[x]
                w.append(byte)
            return False, bytes(reversed(w)), {"product_states": len(seen), "edges": edges, "byte_classes": len(reps)}
        for byte in reps:
            nxt = (_step(cur[0], byte, A[2], A[3]), _step(cur[1], byte, B[2], B[3]))
            edges += 1
            if nxt not in seen:
                seen[nxt] = (cur, byte)
                queue.append(nxt)
    return True, None, {"product_states": len(seen), "edges": edges, "byte_classes": len(reps)}


if __name__ == "__main__":
    import sys
    print(equivalent(sys.argv[1], sys.argv[2]))
