use std::cmp::Ordering;
use std::path::{Path, PathBuf};
use std::time::{Duration, SystemTime};
use vstd::std_specs::cmp::{PartialOrdSpec, OrdSpec, PartialEqSpec};
use vstd::std_specs::ops::SubSpec;
#[verifier::external_type_specification]
#[verifier::external_body]
pub struct ExPath(Path);
#[verifier::external_type_specification]
#[verifier::external_body]
pub struct ExPathBuf(PathBuf);
#[verifier::external_type_specification]
#[verifier::external_body]
pub struct ExSystemTime(SystemTime);
#[verifier::external_type_specification]
#[verifier::external_body]
pub struct ExIoError(std::io::Error);

// R5: format!(..) -> opaque text (error messages only)
#[verifier::external_body]
pub fn verif_fmt() -> String { unimplemented!() }

// ---- std::time (assumed): instants are totally ordered by an integer timestamp; `t - d` is
// defined when the result is representable
pub uninterp spec fn time_of(t: SystemTime) -> int;
pub uninterp spec fn dur_of(d: Duration) -> int;
pub uninterp spec fn time_min() -> int;
pub open spec fn cmp_int(a: int, b: int) -> Ordering {
    if a < b { Ordering::Less } else if a == b { Ordering::Equal } else { Ordering::Greater }
}
#[verifier::external_body]
pub proof fn axiom_system_time()
    ensures
        <SystemTime as PartialOrdSpec<SystemTime>>::obeys_partial_cmp_spec(),
        <SystemTime as OrdSpec>::obeys_cmp_spec(),
        <SystemTime as PartialEqSpec<SystemTime>>::obeys_eq_spec(),
        forall|a: SystemTime, b: SystemTime| #[trigger] <SystemTime as PartialOrdSpec<SystemTime>>::partial_cmp_spec(&a, &b) == Some(cmp_int(time_of(a), time_of(b))),
        forall|a: SystemTime, b: SystemTime| #[trigger] <SystemTime as OrdSpec>::cmp_spec(&a, &b) == cmp_int(time_of(a), time_of(b)),
        forall|a: SystemTime, b: SystemTime| #[trigger] <SystemTime as PartialEqSpec<SystemTime>>::eq_spec(&a, &b) == (time_of(a) == time_of(b)),
        <SystemTime as SubSpec<Duration>>::obeys_sub_spec(),
        forall|a: SystemTime, d: Duration| #[trigger] <SystemTime as SubSpec<Duration>>::sub_req(a, d) == (time_of(a) - dur_of(d) >= time_min()),
        forall|a: SystemTime, d: Duration| time_of(#[trigger] <SystemTime as SubSpec<Duration>>::sub_spec(a, d)) == time_of(a) - dur_of(d),
{}
// std::fs::remove_file (assumed): no contract beyond returning a Result
#[verifier::external_body]
pub fn remove_file(path: &PathBuf) -> Result<(), std::io::Error> { unimplemented!() }

// ---- std::collections::BinaryHeap<PrefixFile> (assumed), modelled as a priority queue whose view
// is the sequence of its elements in pop order: peek/pop take the front, which is a greatest
// element under PrefixFile's Ord (= an oldest file, see the contract of `cmp` below); push inserts
// somewhere.
#[verifier::external_body]
#[verifier::reject_recursive_types(T)]
pub struct BinaryHeap<T> { _t: core::marker::PhantomData<T> }
impl BinaryHeap<PrefixFile> {
    pub uninterp spec fn view(&self) -> Seq<PrefixFile>;
    // heap order: nothing in the queue is older than its front
    #[verifier::external_body]
    pub proof fn front_is_oldest(&self)
        ensures forall|i: int| 0 <= i < self@.len() ==> time_of(self@[0].mtime) <= time_of(#[trigger] self@[i].mtime)
    {}
    #[verifier::external_body]
    pub fn peek(&self) -> (r: Option<&PrefixFile>)
        ensures self@.len() == 0 ==> r is None, self@.len() > 0 ==> r is Some && *r->Some_0 == self@[0]
    { unimplemented!() }
    #[verifier::external_body]
    pub fn pop(&mut self) -> (r: Option<PrefixFile>)
        ensures old(self)@.len() == 0 ==> r is None && final(self)@ == old(self)@,
            old(self)@.len() > 0 ==> r == Some(old(self)@[0]) && final(self)@ == old(self)@.subrange(1, old(self)@.len() as int)
    { unimplemented!() }
    #[verifier::external_body]
    pub fn push(&mut self, item: PrefixFile)
        ensures exists|i: int| 0 <= i <= old(self)@.len() && #[trigger] old(self)@.insert(i, item) == final(self)@
    { unimplemented!() }
}

// ---- the abstract view and representation invariant of PrefixFileSet
pub open spec fn total(s: Seq<PrefixFile>) -> int decreases s.len() {
    if s.len() == 0 { 0 } else { total(s.drop_last()) + s.last().len }
}
pub open spec fn wf(set: PrefixFileSet) -> bool { set.len_() == total(set.files_()@) }
pub proof fn lemma_total_insert(s: Seq<PrefixFile>, i: int, x: PrefixFile)
    requires 0 <= i <= s.len()
    ensures total(s.insert(i, x)) == total(s) + x.len
    decreases s.len()
{
    if i == s.len() {
        assert(s.insert(i, x).drop_last() =~= s);
    } else {
        assert(s.insert(i, x).drop_last() =~= s.drop_last().insert(i, x));
        assert(s.insert(i, x).last() == s.last());
        lemma_total_insert(s.drop_last(), i, x);
    }
}
pub proof fn lemma_total_front(s: Seq<PrefixFile>)
    requires s.len() > 0
    ensures total(s) == s[0].len + total(s.subrange(1, s.len() as int)), total(s.subrange(1, s.len() as int)) >= 0, total(s) >= 0
    decreases s.len()
{
    lemma_total_nonneg(s.subrange(1, s.len() as int));
    if s.len() == 1 {
        assert(s.drop_last() =~= Seq::<PrefixFile>::empty());
        assert(s.subrange(1, 1) =~= Seq::<PrefixFile>::empty());
    } else {
        lemma_total_front(s.drop_last());
        assert(s.drop_last().subrange(1, s.len() - 1) =~= s.subrange(1, s.len() as int).drop_last());
        assert(s.subrange(1, s.len() as int).last() == s.last());
        assert(s.drop_last()[0] == s[0]);
    }
}
pub proof fn lemma_total_nonneg(s: Seq<PrefixFile>)
    ensures total(s) >= 0
    decreases s.len()
{
    if s.len() > 0 { lemma_total_nonneg(s.drop_last()); }
}
