fn smoke_chunked() {
    let d = hex_digit(11);
    assert(d == 98u8);
}
// vacuity canary: exercise the assumed reader / writer contracts, then claim false -- must FAIL
fn canary_io<R: AsyncRead, W: AsyncWrite>(mut r: R, mut w: W) {
    broadcast use reader_resolved, writer_resolved, seq_events;
    let mut b = [0u8; 16];
    let x = r.read(&mut b);
    let y = w.write_all(&b);
    let z = w.flush();
    proof { lemma_nibbles(); r.within_limit(); }
    assert(false);
}
