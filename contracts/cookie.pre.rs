// ---- unit cookie: stand-ins and the written form of a Set-Cookie value
use std::time::Duration;
pub open spec fn ascii(a: AsciiString) -> bool { vstd::utf8::is_ascii_chars(a.inner()@) }
impl DisplaySpec for AsciiString { open spec fn shown(&self) -> Seq<char> { self.inner()@ } }

// std::time (assumed; rule S1 stand-ins keyed to the exact comparisons of the source): `t != SystemTime::UNIX_EPOCH` and
// `d > Duration::ZERO` as predicates of the instant / duration; as_secs is the whole seconds
pub uninterp spec fn is_epoch(t: SystemTime) -> bool;
pub uninterp spec fn dur_secs(d: Duration) -> u64;
pub uninterp spec fn dur_is_zero(d: Duration) -> bool;
#[verifier::external_body]
pub fn is_unix_epoch(t: &SystemTime) -> (r: bool) ensures r == is_epoch(*t) { unimplemented!() }
#[verifier::external_body]
pub fn duration_is_zero(d: &Duration) -> (r: bool) ensures r == dur_is_zero(*d) { unimplemented!() }
pub assume_specification[ Duration::as_secs ](this: &Duration) -> (r: u64)
    ensures r == dur_secs(*this);
// src/time.rs FormatTime::iso8601_utc (its format string is under contract in unit `time`, C16): a function of the instant
pub uninterp spec fn iso_text(t: SystemTime) -> Seq<char>;
pub trait FormatTime { fn iso8601_utc(&self) -> String; }
impl FormatTime for SystemTime {
    #[verifier::external_body]
    fn iso8601_utc(&self) -> (r: String) ensures r@ == iso_text(*self) { unimplemented!() }
}
// (assumed of src/time.rs: the rendered timestamp is ASCII -- digits, '-', ':', 'T', 'Z')
#[verifier::external_body]
pub proof fn axiom_iso_ascii(t: SystemTime) ensures vstd::utf8::is_ascii_chars(iso_text(t)) {}
// `format!("{x}")` (rule S1, assumed): the Display output of x as a String
#[verifier::external_body]
pub fn display_to_string<A: Display>(a: &A) -> (r: String)
    ensures r@ == a.shown()
{ unimplemented!() }

pub open spec fn lit(s: &str) -> Seq<char> { s@ }
// ---- the Set-Cookie value as a list of attributes (taken from the property / RFC 6265 4.1: cookie-pair *( ";" SP cookie-av ))
pub struct Av { pub name: Seq<char>, pub value: Option<Seq<char>> }
pub open spec fn av_text(a: Av) -> Seq<char> {
    match a.value { Some(v) => seq![';', ' '] + a.name + seq!['='] + v, None => seq![';', ' '] + a.name }
}
pub open spec fn avs_text(l: Seq<Av>) -> Seq<char> decreases l.len() {
    if l.len() == 0 { Seq::empty() } else { avs_text(l.drop_last()) + av_text(l.last()) }
}

// rule S1 stand-ins for the constants of Cookie::new (assumed): the epoch, and thirty days
#[verifier::external_body]
pub fn unix_epoch() -> (r: SystemTime) ensures is_epoch(r) { unimplemented!() }
#[verifier::external_body]
pub fn thirty_days() -> (r: Duration) ensures dur_secs(r) == 2592000 { unimplemented!() }
#[verifier::external_trait_specification]
pub trait ExAsRef<T: core::marker::PointeeSized>: core::marker::PointeeSized {
    type ExternalTraitSpecificationFor: core::convert::AsRef<T>;
    fn as_ref(&self) -> (r: &T) ensures r == asref_spec::<Self, T>(self);
}
pub uninterp spec fn asref_spec<S: core::marker::PointeeSized, T: core::marker::PointeeSized>(s: &S) -> &T;
