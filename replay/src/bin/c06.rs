//! C06 bounded stand-in / witness search: real `write_http_response` into a scripted writer (short
//! writes), output parsed back by an independent strict parser.
use servlin::internal::write_http_response;
use servlin::{AsciiString, ContentType, Response, ResponseBody};
use std::convert::TryFrom;
use verif_replay::{block_on, RecWriter};

struct Parsed { code: u16, headers: Vec<(String, String)>, body: Vec<u8> }
fn parse(b: &[u8]) -> Result<Parsed, String> {
    let pos = b.windows(4).position(|w| w == b"\r\n\r\n").ok_or("no end of head")?;
    let head = std::str::from_utf8(&b[..pos]).map_err(|_| "head not utf8")?;
    let mut lines = head.split("\r\n");
    let status = lines.next().ok_or("no status line")?;
    let mut parts = status.splitn(3, ' ');
    if parts.next() != Some("HTTP/1.1") { return Err("bad version".into()); }
    let code_s = parts.next().ok_or("no code")?;
    if code_s.len() != 3 || !code_s.bytes().all(|c| c.is_ascii_digit()) { return Err(format!("bad status code {code_s:?}")); }
    let code: u16 = code_s.parse().unwrap();
    let mut headers = Vec::new();
    for l in lines {
        let (n, v) = l.split_once(':').ok_or(format!("bad field line {l:?}"))?;
        if n.is_empty() || n.contains(' ') || v.contains('\r') || v.contains('\n') { return Err(format!("bad field line {l:?}")); }
        headers.push((n.to_string(), v.trim_matches(|c| c == ' ' || c == '\t').to_string()));
    }
    let rest = &b[pos + 4..];
    let get = |name: &str| -> Vec<&String> { headers.iter().filter(|(n, _)| n.eq_ignore_ascii_case(name)).map(|(_, v)| v).collect() };
    let cl = get("content-length"); let te = get("transfer-encoding");
    if cl.len() + te.len() != 1 { return Err(format!("framing fields: {} content-length, {} transfer-encoding", cl.len(), te.len())); }
    let body = if let Some(v) = cl.first() {
        let n: usize = v.parse().map_err(|_| "bad content-length")?;
        if rest.len() != n { return Err(format!("content-length {n} but {} body bytes", rest.len())); }
        rest.to_vec()
    } else {
        if te[0] != "chunked" { return Err("bad transfer-encoding".into()); }
        let mut out = Vec::new(); let mut r = rest;
        loop {
            let p = r.windows(2).position(|w| w == b"\r\n").ok_or("chunk: no size line")?;
            let n = usize::from_str_radix(std::str::from_utf8(&r[..p]).map_err(|_| "size")?, 16).map_err(|_| "size")?;
            r = &r[p + 2..];
            if n == 0 { if r != b"\r\n" { return Err("after last chunk".into()); } break; }
            if r.len() < n + 2 || &r[n..n + 2] != b"\r\n" { return Err("chunk data".into()); }
            out.extend_from_slice(&r[..n]); r = &r[n + 2..];
        }
        out
    };
    Ok(Parsed { code, headers, body })
}
fn a(s: &str) -> AsciiString { AsciiString::try_from(s).unwrap() }

/// extra = list of (name, value) added by the application; ct = whether a content type is set
fn run(code: u16, ct: bool, close: bool, extra: &[(&str, &str)], body_len: usize, chunk: usize) -> Option<String> {
    let desc = format!("response code={code} ct={ct} close={close} extra={extra:?} body_len={body_len} write_chunk={chunk}");
    let body: Vec<u8> = (0..body_len).map(|i| (i % 251) as u8).collect();
    let mut resp = Response::new(code).with_body(ResponseBody::Vec(body.clone()));
    if ct { resp = resp.with_type(ContentType::PlainText); }
    for (n, v) in extra { resp = resp.with_header(n, a(v)); }
    let collides = |name: &str| extra.iter().any(|(n, _)| n.eq_ignore_ascii_case(name));
    let must_refuse = (ct && collides("content-type")) || collides("content-length");
    let mut w = RecWriter::new(); w.max_per_call = chunk;
    if chunk == 7 { w.pending_every = 3; }   // short writes interleaved with Pending
    let r = std::panic::catch_unwind(std::panic::AssertUnwindSafe(|| block_on(write_http_response(&mut w, &resp, close))));
    let r = match r { Ok(r) => r, Err(_) => return Some(format!("{desc} expected=no-panic actual=panic")) };
    if must_refuse {
        if r.is_ok() || !w.out.is_empty() { return Some(format!("{desc} expected=refused-before-any-byte actual=ok={},bytes_written={}", r.is_ok(), w.out.len())); }
        return None;
    }
    if r.is_err() { return Some(format!("{desc} expected=Ok actual={r:?}")); }
    let p = match parse(&w.out) { Ok(p) => p, Err(e) => return Some(format!("{desc} expected=well-formed actual=invalid({e})")) };
    if p.code != code { return Some(format!("{desc} expected=code={code} actual={}", p.code)); }
    if p.body != body { return Some(format!("{desc} expected=body-intact actual=differs")); }
    let has = |name: &str, val: &str| p.headers.iter().any(|(n, v)| n.eq_ignore_ascii_case(name) && v == val);
    if has("connection", "close") != close { return Some(format!("{desc} expected=connection-close={close} actual={}", !close)); }
    if p.headers.iter().any(|(n, _)| n.eq_ignore_ascii_case("content-type")) != (ct || collides("content-type")) { return Some(format!("{desc} expected=content-type-iff-set actual=mismatch")); }
    let user: Vec<(String, String)> = p.headers.iter().filter(|(n, _)| extra.iter().any(|(en, _)| en.eq_ignore_ascii_case(n))).cloned().collect();
    let want: Vec<(String, String)> = extra.iter().map(|(n, v)| (n.to_string(), v.to_string())).collect();
    if user.iter().map(|(n, v)| (n.to_ascii_lowercase(), v.clone())).collect::<Vec<_>>() != want.iter().map(|(n, v)| (n.to_ascii_lowercase(), v.clone())).collect::<Vec<_>>() {
        return Some(format!("{desc} expected=user-fields-in-order actual={user:?}"));
    }
    None
}
/// a body of unknown length (event stream): events whose blocks have exactly the lengths `lens` -- chunk-size digit
/// boundaries included -- must come back as their concatenation, framed by transfer-encoding: chunked alone
fn run_stream(lens: &[usize], chunk: usize, code: u16) -> Option<String> {
    let desc = format!("stream code={code} lens={lens:?} write_chunk={chunk}");
    let (mut sender, resp) = Response::event_stream();
    let resp = if code == 200 { resp } else { let mut r = resp; r.code = code; r };
    let mut want = Vec::new();
    for (i, l) in lens.iter().enumerate() {
        let data: String = std::iter::repeat((b'a' + (i % 26) as u8) as char).take(l.saturating_sub(7)).collect();
        let ev = servlin::Event::Message(data);
        ev.push_to(&mut want);
        sender.send(ev);
    }
    drop(sender);
    let mut w = RecWriter::new(); w.max_per_call = chunk;
    if chunk == 7777 { w.pending_every = 2; }
    let r = std::panic::catch_unwind(std::panic::AssertUnwindSafe(|| block_on(write_http_response(&mut w, &resp, false))));
    let r = match r { Ok(r) => r, Err(_) => return Some(format!("{desc} expected=no-panic actual=panic")) };
    if r.is_err() { return Some(format!("{desc} expected=Ok actual={r:?}")); }
    let p = match parse(&w.out) { Ok(p) => p, Err(e) => return Some(format!("{desc} expected=well-formed actual=invalid({e})")) };
    if p.code != code { return Some(format!("{desc} expected=code={code} actual={}", p.code)); }
    if !p.headers.iter().any(|(n, v)| n.eq_ignore_ascii_case("transfer-encoding") && v == "chunked") || p.headers.iter().any(|(n, _)| n.eq_ignore_ascii_case("content-length")) {
        return Some(format!("{desc} expected=transfer-encoding: chunked and no content-length actual={:?}", p.headers)); }
    if p.body != want { return Some(format!("{desc} expected=body-intact ({} bytes) actual={} bytes", want.len(), p.body.len())); }
    None
}
/// the other body sources of known length: static text, static bytes, a file
fn run_kind(kind: &str, body_len: usize, chunk: usize) -> Option<String> {
    let desc = format!("source kind={kind} body_len={body_len} write_chunk={chunk}");
    let body: Vec<u8> = if kind == "static_utf8" { "h\u{e9}llo \u{20ac} w\u{f6}rld \u{1F600} ".repeat(body_len / 20 + 1).into_bytes() } else { (0..body_len).map(|i| b'a' + (i % 26) as u8).collect() };
    let dir = std::env::temp_dir().join(format!("verif-c06-{}", std::process::id()));
    let rb = match kind {
        "static_str" | "static_utf8" => ResponseBody::StaticStr(Box::leak(String::from_utf8(body.clone()).unwrap().into_boxed_str())),
        "static_bytes" => ResponseBody::StaticBytes(Box::leak(body.clone().into_boxed_slice())),
        // a file that is longer than the length recorded for it (it grew, or the length names a prefix): exactly that many bytes are sent
        "file_prefix" => { std::fs::create_dir_all(&dir).unwrap(); let p = dir.join(format!("g{body_len}")); let mut longer = body.clone(); longer.extend_from_slice(b"HTTP/1.1 200 OK\r\ncontent-length: 0\r\n\r\n"); std::fs::write(&p, &longer).unwrap(); ResponseBody::File(p, body_len as u64) }
        _ => { std::fs::create_dir_all(&dir).unwrap(); let p = dir.join(format!("f{body_len}")); std::fs::write(&p, &body).unwrap(); ResponseBody::File(p, body_len as u64) }
    };
    let resp = Response::new(200).with_body(rb);
    let mut w = RecWriter::new(); w.max_per_call = chunk;
    let r = std::panic::catch_unwind(std::panic::AssertUnwindSafe(|| block_on(write_http_response(&mut w, &resp, false))));
    let _ = std::fs::remove_dir_all(&dir);
    let r = match r { Ok(r) => r, Err(_) => return Some(format!("{desc} expected=no-panic actual=panic")) };
    if r.is_err() { return Some(format!("{desc} expected=Ok actual={r:?}")); }
    let p = match parse(&w.out) { Ok(p) => p, Err(e) => return Some(format!("{desc} expected=well-formed actual=invalid({e})")) };
    if p.body != body { return Some(format!("{desc} expected=body-intact actual=differs")); }
    let head_end = w.out.windows(4).position(|x| x == b"\r\n\r\n").map(|i| i + 4).unwrap_or(0);
    if w.out.len() != head_end + body.len() { return Some(format!("{desc} expected={} body bytes after the head actual={}", body.len(), w.out.len() - head_end)); }
    None
}
/// every content type the library knows (and an application-supplied one): the field is there iff a type is set, once,
/// with the type's text
fn run_type(ct: ContentType) -> Option<String> {
    let desc = format!("type ct={ct:?}");
    let want: String = ct.as_str().to_string();
    let resp = Response::new(200).with_type(ct.clone()).with_body(ResponseBody::StaticStr("x"));
    let mut w = RecWriter::new();
    let r = std::panic::catch_unwind(std::panic::AssertUnwindSafe(|| block_on(write_http_response(&mut w, &resp, false))));
    let r = match r { Ok(r) => r, Err(_) => return Some(format!("{desc} expected=no-panic actual=panic")) };
    if r.is_err() { return Some(format!("{desc} expected=Ok actual={r:?}")); }
    let p = match parse(&w.out) { Ok(p) => p, Err(e) => return Some(format!("{desc} expected=well-formed actual=invalid({e})")) };
    let got: Vec<&String> = p.headers.iter().filter(|(n, _)| n.eq_ignore_ascii_case("content-type")).map(|(_, v)| v).collect();
    if ct == ContentType::None { if !got.is_empty() { return Some(format!("{desc} expected=no content-type field actual={got:?}")); } }
    else if got.len() != 1 || *got[0] != want { return Some(format!("{desc} expected=content-type: {want} actual={got:?}")); }
    if want.contains('\r') || want.contains('\n') { return Some(format!("{desc} expected=type text without CR / LF actual={want:?}")); }
    // with a type set, an own content-type field would be a second one: refused before any byte; without, it is the only one
    let resp2 = Response::new(200).with_type(ct.clone()).with_header("Content-Type", AsciiString::try_from("text/x-own").unwrap()).with_body(ResponseBody::StaticStr("x"));
    let mut w2 = RecWriter::new();
    let r2 = std::panic::catch_unwind(std::panic::AssertUnwindSafe(|| block_on(write_http_response(&mut w2, &resp2, false))));
    let r2 = match r2 { Ok(r) => r, Err(_) => return Some(format!("{desc} own=1 expected=no-panic actual=panic")) };
    if ct == ContentType::None { if r2.is_err() { return Some(format!("{desc} own=1 expected=Ok (no type set: the own field is the only one) actual={r2:?}")); } }
    else if r2.is_ok() || !w2.out.is_empty() { return Some(format!("{desc} own=1 expected=refused before any byte (a second content-type field) actual={r2:?} after {} bytes", w2.out.len())); }
    None
}
fn type_cases() -> Vec<ContentType> {
    vec![ContentType::Css, ContentType::Csv, ContentType::EventStream, ContentType::FormUrlEncoded, ContentType::Gif, ContentType::Html, ContentType::JavaScript, ContentType::Jpeg,
         ContentType::Json, ContentType::Markdown, ContentType::MultipartForm, ContentType::None, ContentType::OctetStream, ContentType::Pdf, ContentType::PlainText, ContentType::Png,
         ContentType::Svg, ContentType::Str("application/x-custom"), ContentType::String("text/x; q=1".to_string()),
         // a type that is set but whose text is empty is still a type: the field is there (and guards an own content-type field)
         ContentType::Str(""), ContentType::String(String::new())]
}
fn stream_cases() -> Vec<(Vec<usize>, usize, u16)> {
    let mut v = Vec::new();
    for l in [7usize, 8, 15, 16, 17, 22, 255, 256, 257, 262, 4095, 4096, 4097, 4102, 65527, 65528] { v.push((vec![l], usize::MAX, 200)); v.push((vec![20, l, 20], 7777, 200)); }
    v.push((vec![], usize::MAX, 200)); v.push((vec![7; 40], 3, 200)); v.push((vec![4096, 4096, 256, 16], usize::MAX, 404));
    v
}
fn kind_cases() -> Vec<(&'static str, usize, usize)> {
    let mut v = Vec::new();
    for bl in [1usize, 10, 4096, 16383, 16384, 16385, 65536, 100000] { for ch in [usize::MAX, 4099] { v.push(("file_prefix", bl, ch)); } }
    for k in ["static_str", "static_bytes", "file"] { for bl in [0usize, 1, 65535, 65536, 65537, 200000] { for ch in [usize::MAX, 4099] { v.push((k, bl, ch)); } } }
    // text bodies that are not ASCII: the length is the number of bytes, not of characters
    for bl in [1usize, 100, 1000, 1100, 70000] { for ch in [usize::MAX, 5] { v.push(("static_utf8", bl, ch)); } }
    v
}
fn replay_extra(key: &str) -> bool {
    // the part of the grid added after the first version: codes, value alphabet, name alphabet
    let mut hit = false;
    for (l, ch, code) in stream_cases() { if let Some(m) = run_stream(&l, ch, code) { if m.starts_with(key) { hit = true; } } }
    for (k, bl, ch) in kind_cases() { if let Some(m) = run_kind(k, bl, ch) { if m.starts_with(key) { hit = true; } } }
    for ct in type_cases() { if let Some(m) = run_type(ct) { if m.starts_with(key) { hit = true; } } }
    for code in 100u16..=999 { for close in [false, true] { if let Some(m) = run(code, false, close, &[], 0, usize::MAX) { if m.starts_with(key) { hit = true; } } } }
    let mut vals: Vec<String> = (0x20u8..0x7f).map(|c| format!("a{}b", c as char)).collect();
    vals.push("a\tb".to_string()); vals.push("a \t b".to_string()); vals.push("x".repeat(300));
    for v in &vals { if let Some(m) = run(200, true, false, &[("x-v", v.as_str())], 3, 7) { if m.starts_with(key) { hit = true; } } }
    let tchars = "!#$%&'*+-.^_`|~0123456789ABCDEFGHIJKLMNOPQRSTUVWXYZabcdefghijklmnopqrstuvwxyz";
    for c in tchars.chars() { let name = format!("x{c}y"); if let Some(m) = run(200, false, false, &[(name.as_str(), "v")], 1, usize::MAX) { if m.starts_with(key) { hit = true; } } }
    hit
}
fn main() {
    std::panic::set_hook(Box::new(|_| {}));
    let args: Vec<String> = std::env::args().collect();
    let extras: Vec<Vec<(&str, &str)>> = vec![vec![], vec![("x-a", "1")], vec![("x-a", "1"), ("X-A", "2"), ("x-b", "3")],
        vec![("content-type", "text/x")], vec![("Content-Type", "text/x"), ("content-type", "text/y")],
        vec![("content-length", "3")], vec![("Content-Length", "3"), ("content-length", "3")], vec![("x-a", "1"), ("content-length", "0"), ("CONTENT-LENGTH", "0")]];
    if args.len() >= 3 && args[1] == "replay" {
        // witnesses replay by position in the deterministic grid
        let w = args[2..].join(" ");
        let key = w.split(" expected=").next().unwrap_or("").to_string();
        let mut hit = replay_extra(&key);
        for code in [100u16, 200, 204, 404, 500, 999] { for ct in [false, true] { for close in [false, true] { for ex in &extras { for bl in [0usize, 1, 70000] { for ch in [1usize, 7, usize::MAX] {
            if bl == 70000 && ch == 1 { continue; }
            if let Some(m) = run(code, ct, close, ex, bl, ch) { if m.starts_with(&key) { hit = true; } }
        }}}}}}
        if hit { println!("WITNESS {w}"); std::process::exit(1) }
        println!("OK witness no longer fails"); std::process::exit(0)
    }
    let mut n = 0u64; let mut found = Vec::new();
    for code in [100u16, 200, 204, 404, 500, 999] { for ct in [false, true] { for close in [false, true] { for ex in &extras { for bl in [0usize, 1, 70000] { for ch in [1usize, 7, usize::MAX] {
        if bl == 70000 && ch == 1 { continue; }
        n += 1;
        if let Some(m) = run(code, ct, close, ex, bl, ch) { if found.len() < 6 { found.push(m) } }
    }}}}}}
    // every status code, close marking both ways
    for code in 100u16..=999 { for close in [false, true] {
        n += 1;
        if let Some(m) = run(code, false, close, &[], 0, usize::MAX) { if found.len() < 6 { found.push(m) } }
    }}
    // every printable ASCII character and HTAB in the interior of a value; every tchar in a name
    let mut vals: Vec<String> = (0x20u8..0x7f).map(|c| format!("a{}b", c as char)).collect();
    vals.push("a\tb".to_string()); vals.push("a \t b".to_string()); vals.push("x".repeat(300));
    for v in &vals {
        n += 1;
        if let Some(m) = run(200, true, false, &[("x-v", v.as_str())], 3, 7) { if found.len() < 6 { found.push(m) } }
    }
    let tchars = "!#$%&'*+-.^_`|~0123456789ABCDEFGHIJKLMNOPQRSTUVWXYZabcdefghijklmnopqrstuvwxyz";
    for c in tchars.chars() {
        let name = format!("x{c}y");
        n += 1;
        if let Some(m) = run(200, false, false, &[(name.as_str(), "v")], 1, usize::MAX) { if found.len() < 6 { found.push(m) } }
    }
    for (l, ch, code) in stream_cases() { n += 1; if let Some(m) = run_stream(&l, ch, code) { if found.len() < 6 { found.push(m) } } }
    for (k, bl, ch) in kind_cases() { n += 1; if let Some(m) = run_kind(k, bl, ch) { if found.len() < 6 { found.push(m) } } }
    for ct in type_cases() { n += 1; if let Some(m) = run_type(ct) { if found.len() < 6 { found.push(m) } } }
    println!("EVALUATED {n}");
    for f in &found { println!("WITNESS {f}"); }
    std::process::exit(if found.is_empty() { 0 } else { 1 });
}
