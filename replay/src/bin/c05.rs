//! C05 bounded stand-in / witness replay at API level: the real HttpConn over a loopback socket pair, driven by short
//! sequences of its operations against a reference state machine written from the property statement (read state,
//! write state, bytes on the wire, what the client sent).  After every call the result (Ok / the specific error), the
//! two states and the body handed out are compared with the reference; at the end the bytes the client received are
//! compared with what the reference says was put on the wire.
use futures_lite::{AsyncReadExt, AsyncWriteExt};
use servlin::internal::{HttpConn, HttpError, ReadState, WriteState};
use servlin::{RequestBody, Response};
use std::sync::Arc;

#[derive(Clone, Copy, Debug, PartialEq)]
enum Req { G, S(usize), E(usize), U(usize), C, X, T(usize), Z(usize) }   // Z(n): gzip coding together with a declared length n;   // T(n): declares n body bytes, sends n-1, then end of stream; GET; sized body; sized + Expect; POST without length (body to end of stream); chunked; malformed
#[derive(Clone, Copy, Debug, PartialEq)]
enum Op { RR, BV, BF(u64), WC, WR(u16), SW, WD(u16) }   // WD: a response carrying its own content-length field (refused before any byte)

fn body_bytes(n: usize, salt: usize) -> Vec<u8> { (0..n).map(|i| b'a' + ((i * 7 + salt * 3) % 26) as u8).collect() }
fn req_bytes(r: Req, idx: usize) -> Vec<u8> {
    match r {
        Req::G => format!("GET /r{idx} HTTP/1.1\r\n\r\n").into_bytes(),
        Req::S(n) => { let mut v = format!("POST /r{idx} HTTP/1.1\r\ncontent-length: {n}\r\n\r\n").into_bytes(); v.extend(body_bytes(n, idx)); v }
        Req::E(n) => { let mut v = format!("POST /r{idx} HTTP/1.1\r\nexpect: 100-continue\r\ncontent-length: {n}\r\n\r\n").into_bytes(); v.extend(body_bytes(n, idx)); v }
        Req::U(n) => { let mut v = format!("POST /r{idx} HTTP/1.1\r\n\r\n").into_bytes(); v.extend(body_bytes(n, idx)); v }
        Req::C => format!("POST /r{idx} HTTP/1.1\r\ntransfer-encoding: chunked\r\n\r\n3\r\nabc\r\n0\r\n\r\n").into_bytes(),
        Req::X => b"BAD\r\n\r\n".to_vec(),
        Req::Z(n) => { let mut v = format!("POST /r{idx} HTTP/1.1\r\ntransfer-encoding: gzip\r\ncontent-length: {n}\r\n\r\n").into_bytes(); v.extend(body_bytes(n, idx)); v }
        Req::T(n) => { let mut v = format!("POST /r{idx} HTTP/1.1\r\ncontent-length: {n}\r\n\r\n").into_bytes(); v.extend(body_bytes(n.saturating_sub(1), idx)); v }
    }
}
fn ser(resp: &Response, close: bool) -> Vec<u8> {
    let mut w = verif_replay::RecWriter::new();
    let _ = verif_replay::block_on(servlin::internal::write_http_response(&mut w, resp, close));
    w.out
}
fn response(code: u16) -> Response { if code == 100 { Response::new(100) } else { Response::text(code, "x") } }

#[derive(Clone, Debug, PartialEq)]
enum RS { Head, Body { len: Option<u64>, expect: bool, coded: bool }, Shutdown }
#[derive(Clone, Copy, Debug, PartialEq)]
enum WS { None, Response, Shutdown }
struct Model { rs: RS, ws: WS, wire: Vec<u8>, input: Vec<u8>, reqs: Vec<Req>, next_req: usize, stream_dead: bool }
/// what the reference says a call returns: Ok (with the body bytes, for body reads) or the name of the error
#[derive(Debug, PartialEq)]
enum Out { Ok, OkBody(Vec<u8>), Err(&'static str) }
impl Model {
    fn send(&mut self, code: u16) -> Out {
        match self.ws {
            WS::None => Out::Err("ResponseAlreadySent"),
            WS::Shutdown => Out::Err("Disconnected"),
            WS::Response => {
                let close = (500..=599).contains(&code);
                self.wire.extend(ser(&response(code), close));
                self.ws = if close { WS::Shutdown } else if (100..=199).contains(&code) { WS::Response } else { WS::None };
                Out::Ok
            }
        }
    }
    fn step(&mut self, op: Op) -> Out {
        match op {
            Op::SW => { self.ws = WS::Shutdown; Out::Ok }
            Op::WC => self.send(100),
            Op::WR(code) => self.send(code),
            // misuse: reported by its own error, state and wire untouched
            Op::WD(_) => match self.ws { WS::None => Out::Err("ResponseAlreadySent"), WS::Shutdown => Out::Err("Disconnected"), WS::Response => Out::Err("DuplicateContentLengthHeader") },
            Op::RR => {
                match self.ws { WS::Response => return Out::Err("ResponseNotSent"), WS::Shutdown => return Out::Err("Disconnected"), WS::None => {} }
                match self.rs { RS::Body { .. } => return Out::Err("BodyNotRead"), RS::Shutdown => return Out::Err("Disconnected"), RS::Head => {} }
                self.ws = WS::Response;   // a response is owed from here on, whatever the outcome
                if self.next_req >= self.reqs.len() || self.stream_dead {
                    // nothing left: clean end of stream -- unless bytes of an unread / partly read body are still there
                    return if self.input.is_empty() { Out::Err("Disconnected") } else { Out::Err("*") };
                }
                let r = self.reqs[self.next_req];
                let bytes = req_bytes(r, self.next_req);
                if !self.input.starts_with(&bytes[..bytes.len().min(self.input.len())]) || self.input.len() < head_len(&bytes) { return Out::Err("*"); }
                self.next_req += 1;
                let hl = head_len(&bytes);
                self.input.drain(..hl);
                match r {
                    Req::G => Out::Ok,
                    Req::S(n) | Req::E(n) | Req::T(n) => { if n > 0 { self.rs = RS::Body { len: Some(n as u64), expect: matches!(r, Req::E(_)), coded: false } } Out::Ok }
                    Req::U(_) => { self.rs = RS::Body { len: None, expect: false, coded: false }; Out::Ok }
                    Req::C => { self.rs = RS::Body { len: None, expect: false, coded: true }; Out::Ok }
                    // a coded body is refused when it is read, whatever length was declared with it
                    Req::Z(n) => { if n > 0 { self.rs = RS::Body { len: Some(n as u64), expect: false, coded: true } } Out::Ok }
                    Req::X => { self.stream_dead = true; Out::Err("MalformedRequestLine") }
                }
            }
            Op::BV | Op::BF(_) => {
                let max = if let Op::BF(m) = op { Some(m) } else { None };
                let (len, expect, coded) = match &self.rs { RS::Head => return Out::Err("BodyNotAvailable"), RS::Shutdown => return Out::Err("Disconnected"), RS::Body { len, expect, coded } => (*len, *expect, *coded) };
                if coded { return Out::Err("UnsupportedTransferEncoding"); }
                if let (Some(m), Some(l)) = (max, len) { if l > m { return Out::Err("BodyTooLong"); } }
                if expect {
                    // the automatic 100-continue goes out first; if it cannot, that error and nothing is read
                    match self.send(100) { Out::Ok => {} e => return e }
                }
                match len {
                    Some(l) => {
                        self.rs = RS::Head;
                        let l = l as usize;
                        if self.input.len() < l { self.input.clear(); self.stream_dead = true; return Out::Err("Truncated"); }
                        Out::OkBody(self.input.drain(..l).collect())
                    }
                    None => {
                        self.rs = RS::Shutdown;
                        let all: Vec<u8> = std::mem::take(&mut self.input);
                        self.stream_dead = true;
                        if let Some(m) = max { if all.len() as u64 > m { return Out::Err("BodyTooLong"); } }
                        Out::OkBody(all)
                    }
                }
            }
        }
    }
}
fn head_len(req: &[u8]) -> usize { req.windows(4).position(|w| w == b"\r\n\r\n").map(|p| p + 4).unwrap_or(req.len()) }
fn err_name(e: &HttpError) -> &'static str {
    match e {
        HttpError::ResponseAlreadySent => "ResponseAlreadySent", HttpError::Disconnected => "Disconnected", HttpError::ResponseNotSent => "ResponseNotSent",
        HttpError::BodyNotRead => "BodyNotRead", HttpError::BodyNotAvailable => "BodyNotAvailable", HttpError::UnsupportedTransferEncoding => "UnsupportedTransferEncoding",
        HttpError::BodyTooLong => "BodyTooLong", HttpError::Truncated => "Truncated", HttpError::MalformedRequestLine => "MalformedRequestLine",
        HttpError::InvalidContentLength => "InvalidContentLength", HttpError::DuplicateContentLengthHeader => "DuplicateContentLengthHeader", _ => "other",
    }
}
fn show(reqs: &[Req], ops: &[Op]) -> String {
    let r: Vec<String> = reqs.iter().map(|r| match r { Req::G => "G".into(), Req::S(n) => format!("S{n}"), Req::E(n) => format!("E{n}"), Req::U(n) => format!("U{n}"), Req::C => "C".into(), Req::X => "X".into(), Req::T(n) => format!("T{n}"), Req::Z(n) => format!("Z{n}") }).collect();
    let o: Vec<String> = ops.iter().map(|o| match o { Op::RR => "RR".into(), Op::BV => "BV".into(), Op::BF(m) => format!("BF{m}"), Op::WC => "WC".into(), Op::WR(c) => format!("WR{c}"), Op::SW => "SW".into(), Op::WD(c) => format!("WD{c}") }).collect();
    format!("api reqs={} ops={}", r.join(","), o.join(","))
}
fn parse(w: &str) -> (Vec<Req>, Vec<Op>) {
    let rs = w.split("reqs=").nth(1).unwrap().split(' ').next().unwrap();
    let os = w.split("ops=").nth(1).unwrap().split(' ').next().unwrap();
    let reqs = rs.split(',').filter(|s| !s.is_empty()).map(|t| match &t[..1] { "G" => Req::G, "S" => Req::S(t[1..].parse().unwrap()), "E" => Req::E(t[1..].parse().unwrap()), "U" => Req::U(t[1..].parse().unwrap()), "T" => Req::T(t[1..].parse().unwrap()), "Z" => Req::Z(t[1..].parse().unwrap()), "C" => Req::C, _ => Req::X }).collect();
    let ops = os.split(',').filter(|s| !s.is_empty()).map(|t| if t == "RR" { Op::RR } else if t == "BV" { Op::BV } else if t == "WC" { Op::WC } else if t == "SW" { Op::SW } else if let Some(m) = t.strip_prefix("BF") { Op::BF(m.parse().unwrap()) } else if let Some(m) = t.strip_prefix("WD") { Op::WD(m.parse().unwrap()) } else { Op::WR(t[2..].parse().unwrap()) }).collect();
    (reqs, ops)
}
async fn pair() -> (async_net::TcpStream, async_net::TcpStream) {
    let listener = async_net::TcpListener::bind("127.0.0.1:0").await.unwrap();
    let addr = listener.local_addr().unwrap();
    let client = async_net::TcpStream::connect(addr).await.unwrap();
    let (server, _) = listener.accept().await.unwrap();
    (server, client)
}
async fn scenario(reqs: Vec<Req>, ops: Vec<Op>, dir: std::path::PathBuf) -> Option<String> {
    let desc = show(&reqs, &ops);
    let (server, mut client) = pair().await;
    let mut input = Vec::new();
    for (i, r) in reqs.iter().enumerate() { input.extend(req_bytes(*r, i)); }
    client.write_all(&input).await.unwrap();
    client.shutdown(std::net::Shutdown::Write).unwrap();
    // let the bytes arrive, so that head and body are there together (what a client that does not wait for 100-continue does)
    safina::timer::sleep_for(std::time::Duration::from_millis(2)).await;
    let mut conn = HttpConn::new("127.0.0.1:1".parse().unwrap(), server);
    let mut m = Model { rs: RS::Head, ws: WS::None, wire: Vec::new(), input, reqs: reqs.clone(), next_req: 0, stream_dead: false };
    let mut verdict = None;
    for (k, op) in ops.iter().enumerate() {
        let want = m.step(*op);
        let got: Out = match op {
            Op::SW => { conn.shutdown_write(); Out::Ok }
            Op::WC => match conn.write_http_continue().await { Ok(()) => Out::Ok, Err(e) => Out::Err(err_name(&e)) },
            Op::WR(c) => match conn.write_response(&response(*c)).await { Ok(()) => Out::Ok, Err(e) => Out::Err(err_name(&e)) },
            Op::WD(c) => match conn.write_response(&response(*c).with_header("content-length", "1".try_into().unwrap())).await { Ok(()) => Out::Ok, Err(e) => Out::Err(err_name(&e)) },
            Op::RR => match conn.read_request().await { Ok(_) => Out::Ok, Err(e) => Out::Err(err_name(&e)) },
            Op::BV => match conn.read_body_to_vec().await { Ok(RequestBody::Vec(v)) => Out::OkBody(v), Ok(_) => Out::Err("other-variant"), Err(e) => Out::Err(err_name(&e)) },
            Op::BF(mx) => match conn.read_body_to_file(&dir, *mx).await { Ok(RequestBody::TempFile(t, _)) => Out::OkBody(std::fs::read(t.path()).unwrap_or_default()), Ok(_) => Out::Err("other-variant"), Err(e) => Out::Err(err_name(&e)) },
        };
        let same = match (&want, &got) { (Out::Err("*"), Out::Err(_)) => true, (a, b) => a == b };
        if !same { verdict = Some(format!("{desc} expected=call {k} ({op:?}) -> {} actual={}", brief(&want), brief(&got))); break; }
        if want == Out::Err("*") { break; }   // the reference does not say more about a connection whose framing was lost
        let grs = match &conn.read_state { ReadState::Head => RS::Head, ReadState::Shutdown => RS::Shutdown, ReadState::Body { len, expect_continue, chunked, gzip } => RS::Body { len: *len, expect: *expect_continue, coded: *chunked || *gzip } };
        let gws = match &conn.write_state { WriteState::None => WS::None, WriteState::Response => WS::Response, WriteState::Shutdown => WS::Shutdown };
        if grs != m.rs || gws != m.ws { verdict = Some(format!("{desc} expected=after call {k} ({op:?}) states {:?}/{:?} actual={grs:?}/{gws:?}", m.rs, m.ws)); break; }
    }
    drop(conn);
    let mut got_wire = Vec::new();
    let _ = client.read_to_end(&mut got_wire).await;
    if verdict.is_none() && got_wire != m.wire {
        verdict = Some(format!("{desc} expected=wire {:?} actual=wire {:?}", String::from_utf8_lossy(&m.wire), String::from_utf8_lossy(&got_wire)));
    }
    verdict
}
fn brief(o: &Out) -> String { match o { Out::Ok => "Ok".into(), Out::OkBody(b) => format!("Ok(body {:?})", String::from_utf8_lossy(&b[..b.len().min(24)])), Out::Err(e) => format!("Err({e})") } }
fn main() {
    std::panic::set_hook(Box::new(|_| {}));
    let args: Vec<String> = std::env::args().collect();
    safina::timer::start_timer_thread();
    let exec: Arc<safina::executor::Executor> = safina::executor::Executor::new(1, 1).unwrap();
    let dir = std::env::temp_dir().join(format!("verif-c05-{}", std::process::id()));
    std::fs::create_dir_all(&dir).unwrap();
    let run = |reqs: Vec<Req>, ops: Vec<Op>| -> Option<String> {
        let d = dir.clone();
        let desc = show(&reqs, &ops);
        match std::panic::catch_unwind(std::panic::AssertUnwindSafe(|| exec.block_on(scenario(reqs, ops, d)))) { Ok(v) => v, Err(_) => Some(format!("{desc} expected=no-panic actual=panic")) }
    };
    if args.len() >= 3 && args[1] == "replay" {
        let (reqs, ops) = parse(&args[2..].join(" "));
        let r = run(reqs, ops);
        let _ = std::fs::remove_dir_all(&dir);
        match r { Some(m) => { println!("WITNESS {m}"); std::process::exit(1) } None => { println!("OK witness no longer fails"); std::process::exit(0) } }
    }
    let thorough = args.iter().any(|a| a == "--thorough");
    let alphabet = [Op::RR, Op::BV, Op::BF(2), Op::BF(1000), Op::WC, Op::WR(100), Op::WR(200), Op::WR(500), Op::SW, Op::WD(503)];
    let req_lists: Vec<Vec<Req>> = vec![vec![], vec![Req::G], vec![Req::G, Req::G], vec![Req::S(3), Req::G], vec![Req::E(3), Req::G], vec![Req::U(5)], vec![Req::C], vec![Req::S(5)], vec![Req::E(4), Req::S(3)], vec![Req::X], vec![Req::G, Req::U(3)], vec![Req::S(3)], vec![Req::T(4)], vec![Req::G, Req::T(1)], vec![Req::Z(3), Req::G]];
    let mut n = 0u64; let mut found: Vec<String> = Vec::new();
    let depth = if thorough { 4 } else { 3 };
    for reqs in &req_lists {
        for len in 1..=depth {
            for code in 0..alphabet.len().pow(len as u32) {
                let mut c = code;
                let ops: Vec<Op> = (0..len).map(|_| { let o = alphabet[c % alphabet.len()]; c /= alphabet.len(); o }).collect();
                n += 1;
                if let Some(m) = run(reqs.clone(), ops) { if found.len() < 6 { found.push(m) } }
            }
        }
    }
    // longer sequences around the sensible orders (read, body, respond, read again ...) with one deviation each
    let good: Vec<Op> = vec![Op::RR, Op::BV, Op::WR(200), Op::RR, Op::WR(200), Op::RR];
    let alphabet2: Vec<Op> = alphabet.iter().copied().chain([Op::WD(200), Op::WD(100)]).collect();
    for reqs in &req_lists { for pos in 0..good.len() { for o in alphabet2.iter().copied() {
        let mut ops = good.clone(); ops[pos] = o;
        n += 1; if let Some(m) = run(reqs.clone(), ops) { if found.len() < 6 { found.push(m) } }
        let mut ops2 = good.clone(); ops2.insert(pos, o);
        n += 1; if let Some(m) = run(reqs.clone(), ops2) { if found.len() < 6 { found.push(m) } }
    }}}
    let _ = std::fs::remove_dir_all(&dir);
    println!("EVALUATED {n}");
    for f in &found { println!("WITNESS {f}"); }
    std::process::exit(if found.is_empty() { 0 } else { 1 });
}
