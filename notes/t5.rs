#![feature(sized_hierarchy)]
use vstd::prelude::*;
verus! {
#[verifier::external_trait_specification]
pub trait ExAsRef<T: core::marker::PointeeSized>: core::marker::PointeeSized {
    type ExternalTraitSpecificationFor: core::convert::AsRef<T>;
    fn as_ref(&self) -> (r: &T) ensures r == asref_spec::<Self, T>(self);
}
pub uninterp spec fn asref_spec<S: core::marker::PointeeSized, T: core::marker::PointeeSized>(s: &S) -> &T;
pub struct AsciiString(String);

impl AsciiString {
    #[verifier::external_body]
    pub fn eq_ignore_ascii_case(&self, other: &str) -> (r: bool)
        ensures r == name_matches(*self, other@)
    { self.0.eq_ignore_ascii_case(other) }
}
pub uninterp spec fn name_matches(a: AsciiString, b: Seq<char>) -> bool;

pub struct Header {
    pub name: AsciiString,
    pub value: AsciiString,
}

pub open spec fn matching(s: Seq<Header>, name: Seq<char>) -> Seq<AsciiString>
  decreases s.len()
{
    if s.len() == 0 { Seq::empty() }
    else {
        let rest = matching(s.drop_last(), name);
        if name_matches(s.last().name, name) { rest.push(s.last().value) } else { rest }
    }
}

pub struct HeaderList(pub Vec<Header>);
impl HeaderList {
    pub fn remove_only(&mut self, name: impl AsRef<str>) -> (r: Option<AsciiString>) 
      ensures 
        r.is_some() <==> matching(old(self).0@, asref_spec::<_, str>(&name)@).len() == 1,
        r.is_some() ==> r.unwrap() == matching(old(self).0@, asref_spec::<_, str>(&name)@)[0],
    {
        let mut iter = self.remove_all(name).into_iter();
        match (iter.next(), iter.next()) {
            (Some(value), None) => Some(value),
            _ => None,
        }
    }

    #[verifier::external_body]
    pub fn remove_all(&mut self, name: impl AsRef<str>) -> (values: Vec<AsciiString>) 
      ensures values@ == matching(old(self).0@, asref_spec::<_, str>(&name)@)
    {
        unimplemented!()
    }
}
} // verus!
fn main() {}
