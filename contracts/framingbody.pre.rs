// ---- how the body is delimited (taken from the property): a transfer coding -> to the end of the coding (unknown length);
// a Content-Length N -> exactly N bytes (none for 0); neither -> POST / PUT bodies (and bodies announced with Expect or a
// gzip coding) run to the end of the stream, every other method has no body
use std::path::PathBuf;
#[verifier::external_type_specification]
#[verifier::external_body]
pub struct ExPathBuf(PathBuf);
#[verifier::external_body]
pub struct TempFile { _p: () }
pub open spec fn body_class(chunked: bool, cl: Option<u64>, method: Seq<char>, expect: bool, gzip: bool) -> RequestBody {
    if chunked { RequestBody::PendingUnknown }
    else {
        match cl {
            Some(n) => if n == 0 { RequestBody::StaticStr("") } else { RequestBody::PendingKnown(n) },
            None => if method == "POST"@ || method == "PUT"@ || expect || gzip { RequestBody::PendingUnknown } else { RequestBody::StaticStr("") },
        }
    }
}

// ContentType::parse (src/content_type.rs; a table of string literals): here only that it is a function of the text
pub uninterp spec fn ct_parse(s: Seq<char>) -> ContentType;
impl ContentType {
    #[verifier::external_body]
    pub fn parse(s: &str) -> (r: Self)
        ensures r == ct_parse(s@)
    { unimplemented!() }
}
pub open spec fn lit_content_type() -> Seq<char> { asref_spec::<&str, str>(&"content-type")@ }
