// ---- std::fmt / std::io as character sinks and Display as a contract (units jsonl, cookie; rule R12)
use std::time::SystemTime;
use std::ops::Deref;
#[verifier::external_type_specification]
#[verifier::external_body]
pub struct ExSystemTime(SystemTime);
#[verifier::external_type_specification]
#[verifier::external_body]
pub struct ExIoError(std::io::Error);

// a character sink (assumed): what has been written so far is `out()`
pub trait Write {
    type E;
    spec fn out(&self) -> Seq<char>;
    // whatever else identifies the sink (its capacity, for a byte slice): never changed by writing
    spec fn frame(&self) -> int;
}
// std::io::Write sinks (the `impl Write` parameter of write_jsonl; rule D4 renames it)
pub trait IoWrite: Write<E = std::io::Error> {}

// std::fmt::Formatter (assumed): write_char / write_str append
#[verifier::external_body]
pub struct Formatter<'a> { _p: core::marker::PhantomData<&'a u8> }
impl<'a> Write for Formatter<'a> {
    type E = std::fmt::Error;
    uninterp spec fn out(&self) -> Seq<char>;
    open spec fn frame(&self) -> int { 0 }
}
impl<'a> Formatter<'a> {
    #[verifier::external_body]
    pub fn write_char(&mut self, c: char) -> (r: Result<(), std::fmt::Error>)
        ensures r is Ok ==> final(self).out() == old(self).out().push(c)
    { unimplemented!() }
    #[verifier::external_body]
    pub fn write_str(&mut self, s: &str) -> (r: Result<(), std::fmt::Error>)
        ensures r is Ok ==> final(self).out() == old(self).out() + s@
    { unimplemented!() }
}

// std::fmt::Display as a contract: fmt appends `shown()` to the formatter
pub trait DisplaySpec {
    spec fn shown(&self) -> Seq<char>;
}
pub trait Display: DisplaySpec {
    fn fmt(&self, f: &mut Formatter<'_>) -> (r: Result<(), std::fmt::Error>)
        ensures r is Ok ==> final(f).out() == old(f).out() + self.shown();
}
impl<T: DisplaySpec + ?Sized> DisplaySpec for &T {
    open spec fn shown(&self) -> Seq<char> { (**self).shown() }
}
impl<T: Display + ?Sized> Display for &T {
    #[verifier::external_body]
    fn fmt(&self, f: &mut Formatter<'_>) -> (r: Result<(), std::fmt::Error>) { unimplemented!() }
}
// std's Display for the integer types, bool and String (assumed): decimal digits with a leading '-' for negatives;
// "true" / "false"; the characters of the string
pub uninterp spec fn dec_int(v: int) -> Seq<char>;
#[verifier::external_body]
pub proof fn axiom_dec_int(v: int)
    ensures dec_int(v).len() >= 1,
        forall|k: int| 0 <= k < dec_int(v).len() ==> is_digit(#[trigger] dec_int(v)[k]) || (k == 0 && v < 0 && dec_int(v)[k] == '-'),
{}
pub open spec fn is_digit(c: char) -> bool { 48 <= c as u32 <= 57 }
macro_rules! int_display {
    ($($t:ty)*) => { $(
        verus! {
        impl DisplaySpec for $t { open spec fn shown(&self) -> Seq<char> { dec_int(*self as int) } }
        impl Display for $t {
            #[verifier::external_body]
            fn fmt(&self, f: &mut Formatter<'_>) -> (r: Result<(), std::fmt::Error>) { unimplemented!() }
        }
        }
    )* }
}
int_display!(i8 i16 i32 i64 i128 u8 u16 u32 u64 u128 usize);
impl DisplaySpec for bool { open spec fn shown(&self) -> Seq<char> { if *self { seq!['t', 'r', 'u', 'e'] } else { seq!['f', 'a', 'l', 's', 'e'] } } }
impl Display for bool {
    #[verifier::external_body]
    fn fmt(&self, f: &mut Formatter<'_>) -> (r: Result<(), std::fmt::Error>) { unimplemented!() }
}
impl DisplaySpec for str { open spec fn shown(&self) -> Seq<char> { self@ } }
impl Display for str {
    #[verifier::external_body]
    fn fmt(&self, f: &mut Formatter<'_>) -> (r: Result<(), std::fmt::Error>) { unimplemented!() }
}
impl DisplaySpec for String { open spec fn shown(&self) -> Seq<char> { self@ } }
impl Display for String {
    #[verifier::external_body]
    fn fmt(&self, f: &mut Formatter<'_>) -> (r: Result<(), std::fmt::Error>) { unimplemented!() }
}

// rule R12: write!(SINK, LIT, args..) as a chain threading the Result (assumed meaning of std::fmt::write)
#[verifier::external_body]
pub fn vfw_start<S: Write + ?Sized>(f: &mut S) -> (r: Result<(), S::E>)
    ensures r is Ok, final(f).out() == old(f).out(), final(f).frame() == old(f).frame()
{ unimplemented!() }
#[verifier::external_body]
pub fn vfw_lit<S: Write + ?Sized>(f: &mut S, prev: Result<(), S::E>, p: Ghost<Seq<char>>) -> (r: Result<(), S::E>)
    ensures prev is Err ==> r is Err, r is Ok ==> final(f).out() == old(f).out() + p@, final(f).frame() == old(f).frame()
{ unimplemented!() }
#[verifier::external_body]
pub fn vfw_arg<S: Write + ?Sized, A: Display + ?Sized>(f: &mut S, prev: Result<(), S::E>, a: &A) -> (r: Result<(), S::E>)
    ensures prev is Err ==> r is Err, r is Ok ==> final(f).out() == old(f).out() + a.shown(), final(f).frame() == old(f).frame()
{ unimplemented!() }
// `{:0N}` of an i64 (assumed): the decimal form, zero-padded on the left to at least N characters
pub uninterp spec fn pad_int(v: int, w: nat) -> Seq<char>;
#[verifier::external_body]
pub proof fn axiom_pad_int(v: int, w: nat)
    ensures pad_int(v, w).len() >= 1,
        0 <= v ==> forall|k: int| 0 <= k < pad_int(v, w).len() ==> is_digit(#[trigger] pad_int(v, w)[k]),
{}
#[verifier::external_body]
pub fn vfw_pad<S: Write + ?Sized>(f: &mut S, prev: Result<(), S::E>, a: &i64, w: usize) -> (r: Result<(), S::E>)
    ensures prev is Err ==> r is Err, r is Ok ==> final(f).out() == old(f).out() + pad_int(*a as int, w as nat), final(f).frame() == old(f).frame()
{ unimplemented!() }

// rule R13: format!(..) builds a fresh String through the same chain (assumed: writing to a String cannot fail)
impl Write for String {
    type E = std::fmt::Error;
    open spec fn out(&self) -> Seq<char> { self@ }
    open spec fn frame(&self) -> int { 0 }
}
#[verifier::external_body]
pub fn vs_new() -> (r: String) ensures r@ == Seq::<char>::empty() { unimplemented!() }
#[verifier::external_body]
pub fn vs_ok(s: &String, r: Result<(), std::fmt::Error>) ensures r is Ok { unimplemented!() }
// `{:0N}` of a non-negative value below 10^N (assumed): exactly N decimal digits
#[verifier::external_body]
pub proof fn axiom_pad_width(v: int, w: nat)
    requires 0 <= v, (w == 2 && v < 100) || (w == 4 && v < 10000)
    ensures pad_int(v, w).len() == w
{}
