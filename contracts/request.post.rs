// vacuity canary: must fail
proof fn canary_request() { assert(false); }
