// ---- unit cookiereq: the Cookie-header loop of read_http_request as a region
// std::collections::HashMap<String, String> (assumed): a finite map; insert overwrites
#[verifier::external_body]
#[verifier::reject_recursive_types(K)]
#[verifier::reject_recursive_types(V)]
pub struct HashMap<K, V> { _p: core::marker::PhantomData<(K, V)> }
impl HashMap<String, String> {
    pub uninterp spec fn view(&self) -> Map<Seq<char>, Seq<char>>;
    #[verifier::external_body]
    pub fn new() -> (r: Self)
        ensures r@ == Map::<Seq<char>, Seq<char>>::empty()
    { unimplemented!() }
    #[verifier::external_body]
    pub fn insert(&mut self, k: String, v: String) -> (r: Option<String>)
        ensures final(self)@ == old(self)@.insert(k@, v@)
    { unimplemented!() }
}
// the reading side, from the property / RFC 6265 5.4 "cookie-string": pairs separated by ';', blanks around a pair
// ignored, empty pieces skipped, name and value split at the first '='
pub open spec fn is_blank(c: char) -> bool { c == ' ' || (9 <= c as u32 <= 13) }   // str::trim on ASCII text
pub open spec fn ltrim_b(s: Seq<char>) -> Seq<char> decreases s.len() { if s.len() > 0 && is_blank(s[0]) { ltrim_b(s.skip(1)) } else { s } }
pub open spec fn rtrim_b(s: Seq<char>) -> Seq<char> decreases s.len() { if s.len() > 0 && is_blank(s.last()) { rtrim_b(s.drop_last()) } else { s } }
pub open spec fn trim_b(s: Seq<char>) -> Seq<char> { rtrim_b(ltrim_b(s)) }
pub open spec fn cut_at(s: Seq<char>, c: char) -> Seq<Seq<char>> decreases s.len() {
    if s.len() == 0 { seq![Seq::<char>::empty()] }
    else { let r = cut_at(s.drop_last(), c); if s.last() == c { r.push(Seq::<char>::empty()) } else { r.drop_last().push(r.last().push(s.last())) } }
}
pub open spec fn segments(v: Seq<char>) -> Seq<Seq<char>> { cut_at(v, ';').map_values(|p: Seq<char>| trim_b(p)).filter(|p: Seq<char>| p.len() > 0) }
pub open spec fn first_eq(s: Seq<char>, from: int) -> int decreases s.len() - from {
    if from < 0 || from >= s.len() { s.len() as int } else if s[from] == '=' { from } else { first_eq(s, from + 1) }
}
pub open spec fn apply_seg(m: Map<Seq<char>, Seq<char>>, seg: Seq<char>) -> Option<Map<Seq<char>, Seq<char>>> {
    let k = first_eq(seg, 0);
    if k >= seg.len() { None } else { Some(m.insert(seg.subrange(0, k), seg.subrange(k + 1, seg.len() as int))) }
}
pub open spec fn apply_segs(m: Map<Seq<char>, Seq<char>>, segs: Seq<Seq<char>>) -> Option<Map<Seq<char>, Seq<char>>> decreases segs.len() {
    if segs.len() == 0 { Some(m) } else { match apply_seg(m, segs[0]) { Some(m2) => apply_segs(m2, segs.skip(1)), None => None } }
}
pub open spec fn apply_fields(m: Map<Seq<char>, Seq<char>>, vals: Seq<AsciiString>) -> Option<Map<Seq<char>, Seq<char>>> decreases vals.len() {
    if vals.len() == 0 { Some(m) } else { match apply_segs(m, segments(vals[0].inner()@)) { Some(m2) => apply_fields(m2, vals.skip(1)), None => None } }
}
// rule S1 stand-ins (assumed meaning of str::split / trim / filter and of str::splitn), returned as Vecs so that
// Verus' own specification of Vec::into_iter / next / for applies
#[verifier::external_body]
pub fn cookie_segments<'a>(v: &'a AsciiString) -> (r: Vec<&'a str>)
    ensures r@.len() == segments(v.inner()@).len(), forall|i: int| 0 <= i < r@.len() ==> (#[trigger] r@[i])@ == segments(v.inner()@)[i]
{ unimplemented!() }
#[verifier::external_body]
pub fn splitn2_eq<'a>(s: &'a str) -> (r: Vec<&'a str>)
    ensures
        first_eq(s@, 0) >= s@.len() ==> r@.len() == 1 && r@[0]@ == s@,
        first_eq(s@, 0) < s@.len() ==> r@.len() == 2 && r@[0]@ == s@.subrange(0, first_eq(s@, 0)) && r@[1]@ == s@.subrange(first_eq(s@, 0) + 1, s@.len() as int),
{ unimplemented!() }
pub open spec fn lit_cookie() -> Seq<char> { asref_spec::<&str, str>(&"cookie")@ }
