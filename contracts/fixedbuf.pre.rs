// ---- Assumed contract of fixed_buffer::FixedBuf<N> (v1.0.2), written from its source:
// a byte array `mem` of N bytes with read_index `ri` <= write_index `wi` <= N;
// readable = mem[ri..wi], writable = mem[wi..N].
#[verifier::external_body]
#[verifier::reject_recursive_types(N)]
pub struct FixedBuf<const N: usize> { _p: core::marker::PhantomData<[u8; N]> }
impl<const N: usize> FixedBuf<N> {
    pub uninterp spec fn ri(&self) -> nat;
    pub uninterp spec fn wi(&self) -> nat;
    pub uninterp spec fn mem(&self) -> Seq<u8>;
    pub open spec fn wf(&self) -> bool { self.ri() <= self.wi() <= N && self.mem().len() == N }
    pub open spec fn rd(&self) -> Seq<u8> { self.mem().subrange(self.ri() as int, self.wi() as int) }

    #[verifier::external_body]
    pub fn new() -> (r: Self)
        ensures r.wf(), r.ri() == 0, r.wi() == 0
    { unimplemented!() }
    #[verifier::external_body]
    pub fn len(&self) -> (r: usize)
        requires self.wf()
        ensures r == self.wi() - self.ri()
    { unimplemented!() }
    #[verifier::external_body]
    pub fn is_empty(&self) -> (r: bool)
        requires self.wf()
        ensures r == (self.wi() == self.ri())
    { unimplemented!() }
    #[verifier::external_body]
    pub fn readable(&self) -> (r: &[u8])
        requires self.wf()
        ensures r@ == self.rd()
    { unimplemented!() }
    #[verifier::external_body]
    pub fn try_read_exact(&mut self, num_bytes: usize) -> (r: Option<&[u8]>)
        requires old(self).wf()
        ensures final(self).wf(), final(self).mem() == old(self).mem(),
            old(self).wi() < old(self).ri() + num_bytes ==> r is None && final(self).ri() == old(self).ri() && final(self).wi() == old(self).wi(),
            old(self).wi() >= old(self).ri() + num_bytes ==> r is Some
                && r->Some_0@ == old(self).mem().subrange(old(self).ri() as int, old(self).ri() + num_bytes)
                && r->Some_0@ == old(self).rd().subrange(0, num_bytes as int)
                && final(self).rd() == old(self).rd().subrange(num_bytes as int, old(self).rd().len() as int)
                && (if old(self).ri() + num_bytes == old(self).wi() { final(self).ri() == 0 && final(self).wi() == 0 }
                    else { final(self).ri() == old(self).ri() + num_bytes && final(self).wi() == old(self).wi() }),
    { unimplemented!() }
    #[verifier::external_body]
    pub fn read_all(&mut self) -> (r: &[u8])
        requires old(self).wf()
        ensures final(self).wf(), final(self).mem() == old(self).mem(), r@ == old(self).rd(),
            final(self).ri() == 0, final(self).wi() == 0,
    { unimplemented!() }
    #[verifier::external_body]
    pub fn writable(&mut self) -> (r: &mut [u8])
        requires old(self).wf()
        ensures r@ == old(self).mem().subrange(old(self).wi() as int, N as int),
            final(r)@.len() == r@.len() ==> final(self).wf(),
            final(self).ri() == old(self).ri(), final(self).wi() == old(self).wi(),
            final(self).mem() == old(self).mem().subrange(0, old(self).wi() as int) + final(r)@,
            final(r)@.len() == r@.len() ==> final(self).rd() == old(self).rd(),   // writing into the spare room leaves the readable bytes alone
    { unimplemented!() }
    // panics ("write would overflow") unless the bytes fit
    #[verifier::external_body]
    pub fn wrote(&mut self, num_bytes: usize)
        requires old(self).wf(), old(self).wi() + num_bytes <= N
        ensures final(self).wf(), final(self).mem() == old(self).mem(),
            final(self).ri() == old(self).ri(), final(self).wi() == old(self).wi() + num_bytes,
    { unimplemented!() }
    #[verifier::external_body]
    pub fn shift(&mut self)
        requires old(self).wf()
        ensures final(self).wf(), final(self).ri() == 0, final(self).wi() == old(self).wi() - old(self).ri(),
            final(self).rd() == old(self).rd(),
    { unimplemented!() }
}
