//! C07 witness search / replay: real `copy_chunked_async` vs an independent RFC 7230 4.1 decoder.
use servlin::internal::{copy_chunked_async, CopyResult};
use verif_replay::{block_on, RecWriter, ScriptReader, Step};

/// strict decoder: returns (payload, complete) or Err(reason); `complete` = saw the last-chunk + CRLF
fn decode(mut b: &[u8]) -> Result<(Vec<u8>, bool, usize), String> {
    let mut out = Vec::new();
    let mut chunks = 0;
    loop {
        if b.is_empty() {
            return Ok((out, false, chunks));
        }
        let pos = b.windows(2).position(|w| w == b"\r\n").ok_or("no CRLF after size")?;
        let hex = &b[..pos];
        if hex.is_empty() || !hex.iter().all(|c| c.is_ascii_hexdigit()) {
            return Err(format!("bad size line {:?}", hex));
        }
        if hex.len() > 1 && hex[0] == b'0' {
            return Err("size line has leading zero".into());
        }
        if hex.iter().any(|c| c.is_ascii_uppercase()) {
            return Err("upper-case hex".into());
        }
        let n = usize::from_str_radix(std::str::from_utf8(hex).unwrap(), 16).map_err(|e| e.to_string())?;
        b = &b[pos + 2..];
        if n == 0 {
            if b == b"\r\n" {
                return Ok((out, true, chunks));
            }
            return Err("bytes after / missing CRLF after last chunk".into());
        }
        if b.len() < n + 2 {
            return Err("truncated chunk".into());
        }
        out.extend_from_slice(&b[..n]);
        if &b[n..n + 2] != b"\r\n" {
            return Err("no CRLF after chunk data".into());
        }
        b = &b[n + 2..];
        chunks += 1;
    }
}

fn run(lens: &[usize], ending: &str, cap: usize) -> Option<String> {
    let mut steps = Vec::new();
    let mut src = Vec::new();
    let mut x = 7u8;
    for &l in lens {
        let d: Vec<u8> = (0..l).map(|_| { x = x.wrapping_mul(31).wrapping_add(17); x }).collect();
        src.extend_from_slice(&d);
        steps.push(Step::Data(d));
    }
    use std::io::ErrorKind as K;
    steps.push(match ending {
        "fail" => Step::Fail,
        "fail-unexpectedeof" => Step::FailKind(K::UnexpectedEof), "fail-brokenpipe" => Step::FailKind(K::BrokenPipe), "fail-timedout" => Step::FailKind(K::TimedOut),
        "fail-connectionreset" => Step::FailKind(K::ConnectionReset), "fail-wouldblock" => Step::FailKind(K::WouldBlock), "fail-invaliddata" => Step::FailKind(K::InvalidData),
        "fail-writezero" => Step::FailKind(K::WriteZero), "fail-notfound" => Step::FailKind(K::NotFound), "fail-permissiondenied" => Step::FailKind(K::PermissionDenied),
        _ => Step::Eof });
    let mut w = RecWriter::new();
    w.max_per_call = cap;
    let r = std::panic::catch_unwind(std::panic::AssertUnwindSafe(|| {
        let mut rd = ScriptReader::new(steps);
        let res = block_on(copy_chunked_async(&mut rd, &mut w));
        match res { CopyResult::Ok(n) => format!("Ok({n})"), CopyResult::ReaderErr(_) => "ReaderErr".into(), CopyResult::WriterErr(_) => "WriterErr".into() }
    }));
    let desc = format!("chunked lens={lens:?} ending={ending} write_cap={cap}");
    let res = match r { Ok(s) => s, Err(_) => return Some(format!("{desc} expected=no-panic actual=panic")) };
    match decode(&w.out) {
        Err(e) => Some(format!("{desc} expected=valid-chunked-stream actual=invalid({e}) result={res}")),
        Ok((payload, complete, nchunks)) => {
            if payload != src { return Some(format!("{desc} expected=payload-equals-source actual=differs result={res}")); }
            if ending.starts_with("fail") && (complete || res != "ReaderErr") {
                return Some(format!("{desc} expected=ReaderErr-without-terminating-chunk actual=result={res},terminated={complete}"));
            }
            if ending == "eof" && (!complete || res != format!("Ok({})", src.len() + 3)) {
                return Some(format!("{desc} expected=Ok({})-with-terminating-chunk actual=result={res},terminated={complete}", src.len() + 3));
            }
            let want_chunks: usize = lens.iter().map(|l| (l + 65527) / 65528).sum();
            if nchunks != want_chunks { return Some(format!("{desc} expected={want_chunks}-chunks actual={nchunks}")); }
            None
        }
    }
}

fn main() {
    std::panic::set_hook(Box::new(|_| {}));
    let args: Vec<String> = std::env::args().collect();
    if args.len() >= 3 && args[1] == "replay" {
        let w = args[2..].join(" ");
        let inside = w.split("lens=[").nth(1).and_then(|s| s.split(']').next()).unwrap_or("");
        let lens: Vec<usize> = inside.split(',').filter_map(|s| s.trim().parse().ok()).collect();
        let ending = w.split("ending=").nth(1).and_then(|s| s.split(' ').next()).unwrap_or("eof");
        let cap: usize = w.split("write_cap=").nth(1).and_then(|s| s.split(' ').next()).and_then(|s| s.parse().ok()).unwrap_or(usize::MAX);
        match run(&lens, ending, cap) {
            Some(m) => { println!("WITNESS {m}"); std::process::exit(1) }
            None => { println!("OK witness no longer fails"); std::process::exit(0) }
        }
    }
    let thorough = args.iter().any(|a| a == "--thorough");
    let mut found = Vec::new();
    let mut n = 0u64;
    let mut lens: Vec<usize> = (1..=40).collect();
    lens.extend([255, 256, 257, 4095, 4096, 4097, 0x0fff, 0x1000, 0x8000, 65527, 65528, 65529, 70000]);
    if thorough { lens = (1..=65530).step_by(1).collect(); }
    for &l in &lens {
        for ending in ["eof", "fail"] {
            n += 1;
            if let Some(m) = run(&[l], ending, usize::MAX) { if found.len() < 5 { found.push(m) } }
        }
    }
    let mut rng = verif_replay::Rng(0x9E3779B97F4A7C15);
    for _ in 0..(if thorough { 3000 } else { 300 }) {
        let k = rng.below(5) as usize;
        let ls: Vec<usize> = (0..k).map(|_| match rng.below(4) { 0 => 1 + rng.below(20) as usize, 1 => 250 + rng.below(12) as usize, 2 => 4090 + rng.below(12) as usize, _ => 1 + rng.below(66000) as usize }).collect();
        for ending in ["eof", "fail"] {
            n += 1;
            if let Some(m) = run(&ls, ending, usize::MAX) { if found.len() < 5 { found.push(m) } }
        }
    }
    // a source error of any kind ends the output without the terminating chunk
    for ending in ["fail-unexpectedeof", "fail-brokenpipe", "fail-timedout", "fail-connectionreset", "fail-wouldblock", "fail-invaliddata", "fail-writezero", "fail-notfound", "fail-permissiondenied"] {
        for ls in [vec![], vec![1], vec![16, 1], vec![300, 4096, 7], vec![65528, 2]] {
            n += 1;
            if let Some(m) = run(&ls, ending, usize::MAX) { if found.len() < 5 { found.push(m) } }
        }
    }
    // short writes: the writer accepts at most `cap` bytes per call
    for cap in [1usize, 2, 3, 4, 5, 7] { for ls in [vec![], vec![1], vec![11], vec![16, 255], vec![4096]] { for ending in ["eof", "fail"] {
        n += 1;
        if let Some(m) = run(&ls, ending, cap) { if found.len() < 5 { found.push(m) } }
    }}}
    println!("EVALUATED {n}");
    for f in &found { println!("WITNESS {f}"); }
    std::process::exit(if found.is_empty() { 0 } else { 1 });
}
