// ---- unit respparse (C06): an HTTP/1.1 response reader written from RFC 7230 section 3 -- independently of the
// serialiser -- reads the one serialisation `ser` (proved to be what write_http_response writes, unit respwrite) back
pub open spec fn is_cr_or_lf(b: u8) -> bool { b == 13u8 || b == 10u8 }
pub open spec fn no_crlf(s: Seq<u8>) -> bool { forall|i: int| 0 <= i < s.len() ==> !is_cr_or_lf(#[trigger] s[i]) }
pub open spec fn is_ows(b: u8) -> bool { b == 32u8 || b == 9u8 }
// index of the first CR LF pair, or the length when there is none
pub open spec fn find_crlf(s: Seq<u8>) -> int decreases s.len() {
    if s.len() < 2 { s.len() as int } else if s[0] == 13u8 && s[1] == 10u8 { 0 } else { 1 + find_crlf(s.skip(1)) }
}
pub open spec fn first_colon_b(s: Seq<u8>) -> int decreases s.len() {
    if s.len() == 0 { 0 } else if s[0] == 58u8 { 0 } else { 1 + first_colon_b(s.skip(1)) }
}
pub open spec fn trim_front(v: Seq<u8>) -> Seq<u8> decreases v.len() { if v.len() > 0 && is_ows(v[0]) { trim_front(v.skip(1)) } else { v } }
pub open spec fn trim_back(v: Seq<u8>) -> Seq<u8> decreases v.len() { if v.len() > 0 && is_ows(v.last()) { trim_back(v.drop_last()) } else { v } }
pub open spec fn trim_ows(v: Seq<u8>) -> Seq<u8> { trim_back(trim_front(v)) }
pub open spec fn is_digit_b(b: u8) -> bool { 48 <= b <= 57 }
// status-line = HTTP-version SP status-code SP reason-phrase (3 digits)
pub open spec fn parse_status(line: Seq<u8>) -> Option<nat> {
    if line.len() >= 13 && line.take(9) == seq![72u8, 84u8, 84u8, 80u8, 47u8, 49u8, 46u8, 49u8, 32u8]
        && is_digit_b(line[9]) && is_digit_b(line[10]) && is_digit_b(line[11]) && line[12] == 32u8
    { Some(((line[9] - 48) * 100 + (line[10] - 48) * 10 + (line[11] - 48)) as nat) } else { None }
}
// header-field = field-name ":" OWS field-value OWS
pub open spec fn split_field(line: Seq<u8>) -> Option<(Seq<u8>, Seq<u8>)> {
    let c = first_colon_b(line);
    if 0 < c < line.len() { Some((line.take(c), trim_ows(line.skip(c + 1)))) } else { None }
}
// *( header-field CRLF ) CRLF -> the fields in order and what follows the blank line
pub open spec fn parse_fields(s: Seq<u8>) -> Option<(Seq<(Seq<u8>, Seq<u8>)>, Seq<u8>)> decreases s.len() {
    let i = find_crlf(s);
    if !(0 <= i && i + 2 <= s.len()) { None }
    else if i == 0 { Some((Seq::empty(), s.skip(2))) }
    else {
        match (split_field(s.take(i)), parse_fields(s.skip(i + 2))) {
            (Some(f), Some((fs, rest))) => Some((seq![f] + fs, rest)),
            _ => None,
        }
    }
}
pub open spec fn parse_response(s: Seq<u8>) -> Option<(nat, Seq<(Seq<u8>, Seq<u8>)>, Seq<u8>)> {
    let i = find_crlf(s);
    if !(0 <= i && i + 2 <= s.len()) { None }
    else { match (parse_status(s.take(i)), parse_fields(s.skip(i + 2))) { (Some(c), Some((fs, rest))) => Some((c, fs, rest)), _ => None } }
}

// ---- what the reader must recover (from the property): the code, the automatic fields by their fixed rules, then the
// response's own fields in the order added, each value without surrounding blanks; and the body as the rest
pub open spec fn n_content_type() -> Seq<u8> { seq![99u8, 111u8, 110u8, 116u8, 101u8, 110u8, 116u8, 45u8, 116u8, 121u8, 112u8, 101u8] }
pub open spec fn n_connection() -> Seq<u8> { seq![99u8, 111u8, 110u8, 110u8, 101u8, 99u8, 116u8, 105u8, 111u8, 110u8] }
pub open spec fn v_close() -> Seq<u8> { seq![99u8, 108u8, 111u8, 115u8, 101u8] }
pub open spec fn n_content_length() -> Seq<u8> { seq![99u8, 111u8, 110u8, 116u8, 101u8, 110u8, 116u8, 45u8, 108u8, 101u8, 110u8, 103u8, 116u8, 104u8] }
pub open spec fn n_transfer_encoding() -> Seq<u8> { seq![116u8, 114u8, 97u8, 110u8, 115u8, 102u8, 101u8, 114u8, 45u8, 101u8, 110u8, 99u8, 111u8, 100u8, 105u8, 110u8, 103u8] }
pub open spec fn v_chunked() -> Seq<u8> { seq![99u8, 104u8, 117u8, 110u8, 107u8, 101u8, 100u8] }
pub open spec fn own_fields(hs: Seq<Header>) -> Seq<(Seq<u8>, Seq<u8>)> {
    Seq::new(hs.len(), |i: int| (encode_utf8(hs[i].name.inner()@), trim_ows(latin1(hs[i].value.inner()@))))
}
pub open spec fn expected_fields(resp: Response, close: bool) -> Seq<(Seq<u8>, Seq<u8>)> {
    (if resp.content_type != ContentType::None { seq![(n_content_type(), trim_ows(ct_text(resp.content_type)))] } else { Seq::<(Seq<u8>, Seq<u8>)>::empty() })
    + (if close { seq![(n_connection(), v_close())] } else { Seq::<(Seq<u8>, Seq<u8>)>::empty() })
    + (match blen(resp.body) { Some(n) => seq![(n_content_length(), dec(n as nat))], None => seq![(n_transfer_encoding(), v_chunked())] })
    + own_fields(resp.headers.0@)
}
// the hypotheses of the property: a three-digit code; reason phrase and content-type text without CR / LF (static texts of
// the library -- the stand-in c06 checks every code and type); own fields with non-empty names free of ':' CR LF and values
// free of CR LF
pub open spec fn name_ok(n: Seq<u8>) -> bool { n.len() > 0 && no_crlf(n) && forall|i: int| 0 <= i < n.len() ==> (#[trigger] n[i]) != 58u8 }
pub open spec fn writable(resp: Response) -> bool {
    &&& 100 <= resp.code <= 999
    &&& no_crlf(reason_text(resp.code))
    &&& resp.content_type != ContentType::None ==> no_crlf(ct_text(resp.content_type))
    &&& forall|i: int| 0 <= i < resp.headers.0@.len() ==> name_ok(encode_utf8((#[trigger] resp.headers.0@[i]).name.inner()@)) && no_crlf(latin1(resp.headers.0@[i].value.inner()@))
}

// ---- the proof
pub proof fn lemma_find_crlf_at(s: Seq<u8>, k: int)
    requires 0 <= k, k + 2 <= s.len(), s[k] == 13u8, s[k + 1] == 10u8, forall|j: int| 0 <= j < k ==> !is_cr_or_lf(#[trigger] s[j]),
    ensures find_crlf(s) == k
    decreases k
{
    if k > 0 {
        assert(!is_cr_or_lf(s[0]));
        assert(s.skip(1)[k - 1] == s[k] && s.skip(1)[k] == s[k + 1]);
        assert forall|j: int| 0 <= j < k - 1 implies !is_cr_or_lf(#[trigger] s.skip(1)[j]) by { assert(s.skip(1)[j] == s[j + 1]); }
        lemma_find_crlf_at(s.skip(1), k - 1);
    }
}
// a line without CR / LF followed by CRLF: the reader sees exactly that line, then the rest
pub proof fn lemma_line(p: Seq<u8>, rest: Seq<u8>)
    requires no_crlf(p)
    ensures find_crlf(p + crlf() + rest) == p.len(), (p + crlf() + rest).take(p.len() as int) == p, (p + crlf() + rest).skip(p.len() as int + 2) == rest,
{
    let s = p + crlf() + rest;
    let k = p.len() as int;
    assert(s[k] == 13u8 && s[k + 1] == 10u8);
    assert forall|j: int| 0 <= j < k implies !is_cr_or_lf(#[trigger] s[j]) by { assert(s[j] == p[j]); }
    lemma_find_crlf_at(s, k);
    assert(s.take(k) =~= p);
    assert(s.skip(k + 2) =~= rest);
}
pub proof fn lemma_first_colon_b_at(s: Seq<u8>, k: int)
    requires 0 <= k < s.len(), s[k] == 58u8, forall|j: int| 0 <= j < k ==> (#[trigger] s[j]) != 58u8,
    ensures first_colon_b(s) == k
    decreases k
{
    if k > 0 {
        assert(s.skip(1)[k - 1] == s[k]);
        assert forall|j: int| 0 <= j < k - 1 implies (#[trigger] s.skip(1)[j]) != 58u8 by { assert(s.skip(1)[j] == s[j + 1]); }
        lemma_first_colon_b_at(s.skip(1), k - 1);
    }
}
// name ": " value  ->  (name, value without surrounding blanks)
pub proof fn lemma_field_line(n: Seq<u8>, v: Seq<u8>)
    requires name_ok(n)
    ensures split_field(n + l_sep() + v) == Some((n, trim_ows(v)))
{
    reveal(vlit_3a20);
    let line = n + l_sep() + v;
    let k = n.len() as int;
    assert(line[k] == 58u8 && line[k + 1] == 32u8);
    assert forall|j: int| 0 <= j < k implies (#[trigger] line[j]) != 58u8 by { assert(line[j] == n[j]); }
    lemma_first_colon_b_at(line, k);
    assert(line.take(k) =~= n);
    let after = line.skip(k + 1);
    assert(after[0] == 32u8);
    assert(after.skip(1) =~= v);
    assert(trim_front(after) == trim_front(v));
}
pub proof fn lemma_dec_digits(n: nat)
    ensures dec(n).len() >= 1, forall|i: int| 0 <= i < dec(n).len() ==> is_digit_b(#[trigger] dec(n)[i]),
    decreases n
{
    if n >= 10 { lemma_dec_digits(n / 10); }
}
pub proof fn lemma_trim_plain(v: Seq<u8>)
    requires v.len() == 0 || (!is_ows(v[0]) && !is_ows(v.last()))
    ensures trim_ows(v) == v
{}
pub proof fn lemma_status(code: u16)
    requires 100 <= code <= 999
    ensures parse_status(l_http() + dec(code as nat) + l_sp() + reason_text(code)) == Some(code as nat)
{
    reveal(vlit_485454502f312e3120); reveal(vlit_20);
    let c = code as nat;
    lemma_dec3(code);
    let line = l_http() + dec(c) + l_sp() + reason_text(code);
    assert(line.take(9) =~= l_http());
    assert(line[9] == dec(c)[0] && line[10] == dec(c)[1] && line[11] == dec(c)[2] && line[12] == 32u8);
    let (a, b, d) = (c / 100, (c / 10) % 10, c % 10);
    assert(a * 100 + b * 10 + d == c) by (nonlinear_arith) requires a == c / 100, b == (c / 10) % 10, d == c % 10, 100 <= c <= 999;
}

pub proof fn lemma_no_crlf_app(a: Seq<u8>, b: Seq<u8>)
    requires no_crlf(a), no_crlf(b)
    ensures no_crlf(a + b)
{
    assert forall|i: int| 0 <= i < (a + b).len() implies !is_cr_or_lf(#[trigger] (a + b)[i]) by { if i < a.len() { assert((a + b)[i] == a[i]); } else { assert((a + b)[i] == b[i - a.len()]); } }
}
// the literal pieces of the head, read as the reader reads them
pub proof fn lemma_lits()
    ensures
        l_crlf() == crlf(), no_crlf(l_http()), no_crlf(l_sp()), no_crlf(l_sep()),
        l_ct() == n_content_type() + l_sep(), name_ok(n_content_type()),
        l_close() == n_connection() + l_sep() + v_close() + crlf(), name_ok(n_connection()), no_crlf(v_close()), trim_ows(v_close()) == v_close(),
        l_cl() == n_content_length() + l_sep(), name_ok(n_content_length()),
        l_te() == n_transfer_encoding() + l_sep() + v_chunked() + crlf(), name_ok(n_transfer_encoding()), no_crlf(v_chunked()), trim_ows(v_chunked()) == v_chunked(),
{
    reveal(vlit_485454502f312e3120); reveal(vlit_20); reveal(vlit_636f6e74656e742d747970653a20); reveal(vlit_636f6e6e656374696f6e3a20636c6f73650d0a);
    reveal(vlit_636f6e74656e742d6c656e6774683a20); reveal(vlit_7472616e736665722d656e636f64696e673a206368756e6b65640d0a); reveal(vlit_3a20); reveal(vlit_0d0a);
    assert(l_crlf() =~= crlf());
    assert(l_ct() =~= n_content_type() + l_sep());
    assert(l_close() =~= n_connection() + l_sep() + v_close() + crlf());
    assert(l_cl() =~= n_content_length() + l_sep());
    assert(l_te() =~= n_transfer_encoding() + l_sep() + v_chunked() + crlf());
    lemma_trim_plain(v_close());
    lemma_trim_plain(v_chunked());
}
pub proof fn lemma_fields_cons(hs: Seq<Header>)
    requires hs.len() >= 1
    ensures fields(hs) == field(hs[0]) + fields(hs.skip(1))
    decreases hs.len()
{
    if hs.len() == 1 {
        assert(hs.drop_last() =~= Seq::<Header>::empty());
        assert(hs.skip(1) =~= Seq::<Header>::empty());
        assert(fields(hs) =~= field(hs[0]) + fields(hs.skip(1)));
    } else {
        lemma_fields_cons(hs.drop_last());
        assert(hs.drop_last().skip(1) =~= hs.skip(1).drop_last());
        assert(hs.drop_last()[0] == hs[0]);
        assert(hs.skip(1).last() == hs.last());
        assert(fields(hs) =~= field(hs[0]) + fields(hs.skip(1)));
    }
}
// one field line in front of more fields
pub proof fn lemma_parse_one(n: Seq<u8>, v: Seq<u8>, more: Seq<u8>)
    requires name_ok(n), no_crlf(v)
    ensures parse_fields(n + l_sep() + v + crlf() + more) == (match parse_fields(more) { Some((fs, rest)) => Some((seq![(n, trim_ows(v))] + fs, rest)), None => None })
{
    lemma_lits();
    let p = n + l_sep() + v;
    lemma_no_crlf_app(n, l_sep());
    lemma_no_crlf_app(n + l_sep(), v);
    lemma_line(p, more);
    lemma_field_line(n, v);
    assert(p.len() > 0);
    assert(n + l_sep() + v + crlf() + more =~= p + crlf() + more);
}
pub open spec fn headers_ok(hs: Seq<Header>) -> bool {
    forall|i: int| 0 <= i < hs.len() ==> name_ok(encode_utf8((#[trigger] hs[i]).name.inner()@)) && no_crlf(latin1(hs[i].value.inner()@))
}
pub proof fn lemma_own_fields_read(hs: Seq<Header>, rest: Seq<u8>)
    requires headers_ok(hs)
    ensures parse_fields(fields(hs) + crlf() + rest) == Some((own_fields(hs), rest))
    decreases hs.len()
{
    lemma_lits();
    if hs.len() == 0 {
        let s = fields(hs) + crlf() + rest;
        assert(s =~= crlf() + rest);
        assert(find_crlf(s) == 0);
        assert(s.skip(2) =~= rest);
        assert(own_fields(hs) =~= Seq::<(Seq<u8>, Seq<u8>)>::empty());
    } else {
        lemma_fields_cons(hs);
        let h = hs[0];
        let n = encode_utf8(h.name.inner()@);
        let v = latin1(h.value.inner()@);
        let more = fields(hs.skip(1)) + crlf() + rest;
        assert(fields(hs) + crlf() + rest =~= n + l_sep() + v + crlf() + more);
        lemma_parse_one(n, v, more);
        assert(headers_ok(hs.skip(1))) by { assert forall|i: int| 0 <= i < hs.skip(1).len() implies name_ok(encode_utf8((#[trigger] hs.skip(1)[i]).name.inner()@)) && no_crlf(latin1(hs.skip(1)[i].value.inner()@)) by { assert(hs.skip(1)[i] == hs[i + 1]); } }
        lemma_own_fields_read(hs.skip(1), rest);
        assert(seq![(n, trim_ows(v))] + own_fields(hs.skip(1)) =~= own_fields(hs));
    }
}

pub open spec fn framing_field(resp: Response) -> Seq<u8> { match blen(resp.body) { Some(n) => l_cl() + dec(n as nat) + l_crlf(), None => l_te() } }
pub open spec fn framing_expected(resp: Response) -> Seq<(Seq<u8>, Seq<u8>)> {
    match blen(resp.body) { Some(n) => seq![(n_content_length(), dec(n as nat))], None => seq![(n_transfer_encoding(), v_chunked())] }
}
pub proof fn lemma_dec_plain(n: nat)
    ensures no_crlf(dec(n)), trim_ows(dec(n)) == dec(n)
{
    lemma_dec_digits(n);
    assert forall|i: int| 0 <= i < dec(n).len() implies !is_cr_or_lf(#[trigger] dec(n)[i]) by { assert(is_digit_b(dec(n)[i])); }
    assert(is_digit_b(dec(n)[0]) && is_digit_b(dec(n)[dec(n).len() - 1]));
    lemma_trim_plain(dec(n));
}
pub open spec fn ct_field(resp: Response) -> Seq<u8> { if resp.content_type != ContentType::None { l_ct() + ct_text(resp.content_type) + l_crlf() } else { Seq::<u8>::empty() } }
pub open spec fn ct_expected(resp: Response) -> Seq<(Seq<u8>, Seq<u8>)> {
    if resp.content_type != ContentType::None { seq![(n_content_type(), trim_ows(ct_text(resp.content_type)))] } else { Seq::empty() }
}
pub open spec fn close_field(close: bool) -> Seq<u8> { if close { l_close() } else { Seq::<u8>::empty() } }
pub open spec fn close_expected(close: bool) -> Seq<(Seq<u8>, Seq<u8>)> { if close { seq![(n_connection(), v_close())] } else { Seq::empty() } }
pub proof fn lemma_framing_read(resp: Response, x: Seq<u8>, fs: Seq<(Seq<u8>, Seq<u8>)>, rest: Seq<u8>)
    requires parse_fields(x) == Some((fs, rest))
    ensures parse_fields(framing_field(resp) + x) == Some((framing_expected(resp) + fs, rest))
{
    lemma_lits();
    match blen(resp.body) {
        Some(n) => { lemma_dec_plain(n as nat); lemma_parse_one(n_content_length(), dec(n as nat), x); assert(framing_field(resp) + x =~= n_content_length() + l_sep() + dec(n as nat) + crlf() + x); }
        None => { lemma_parse_one(n_transfer_encoding(), v_chunked(), x); assert(framing_field(resp) + x =~= n_transfer_encoding() + l_sep() + v_chunked() + crlf() + x); }
    }
}
pub proof fn lemma_close_read(close: bool, x: Seq<u8>, fs: Seq<(Seq<u8>, Seq<u8>)>, rest: Seq<u8>)
    requires parse_fields(x) == Some((fs, rest))
    ensures parse_fields(close_field(close) + x) == Some((close_expected(close) + fs, rest))
{
    lemma_lits();
    if close {
        lemma_parse_one(n_connection(), v_close(), x);
        assert(close_field(close) + x =~= n_connection() + l_sep() + v_close() + crlf() + x);
    } else {
        assert(close_field(close) + x =~= x);
        assert(close_expected(close) + fs =~= fs);
    }
}
pub proof fn lemma_ct_read(resp: Response, x: Seq<u8>, fs: Seq<(Seq<u8>, Seq<u8>)>, rest: Seq<u8>)
    requires parse_fields(x) == Some((fs, rest)), resp.content_type != ContentType::None ==> no_crlf(ct_text(resp.content_type)),
    ensures parse_fields(ct_field(resp) + x) == Some((ct_expected(resp) + fs, rest))
{
    lemma_lits();
    if resp.content_type != ContentType::None {
        lemma_parse_one(n_content_type(), ct_text(resp.content_type), x);
        assert(ct_field(resp) + x =~= n_content_type() + l_sep() + ct_text(resp.content_type) + crlf() + x);
    } else {
        assert(ct_field(resp) + x =~= x);
        assert(ct_expected(resp) + fs =~= fs);
    }
}
// the automatic fields in front of `x`
pub proof fn lemma_auto_fields_read(resp: Response, close: bool, x: Seq<u8>, fs: Seq<(Seq<u8>, Seq<u8>)>, rest: Seq<u8>)
    requires parse_fields(x) == Some((fs, rest)), resp.content_type != ContentType::None ==> no_crlf(ct_text(resp.content_type)),
    ensures parse_fields(auto_fields(resp, close) + x) == Some((ct_expected(resp) + close_expected(close) + framing_expected(resp) + fs, rest))
{
    let (a1, a2, a3) = (ct_field(resp), close_field(close), framing_field(resp));
    let (e1, e2, e3) = (ct_expected(resp), close_expected(close), framing_expected(resp));
    lemma_framing_read(resp, x, fs, rest);
    lemma_close_read(close, a3 + x, e3 + fs, rest);
    lemma_ct_read(resp, a2 + (a3 + x), e2 + (e3 + fs), rest);
    assert(auto_fields(resp, close) == a1 + a2 + a3);
    lemma_assoc3(a1, a2, a3, x);
    lemma_assoc3f(e1, e2, e3, fs);
}
pub proof fn lemma_assoc3(a: Seq<u8>, b: Seq<u8>, c: Seq<u8>, x: Seq<u8>)
    ensures (a + b + c) + x == a + (b + (c + x))
{
    assert((a + b + c) + x =~= a + (b + (c + x)));
}
pub proof fn lemma_assoc3f(a: Seq<(Seq<u8>, Seq<u8>)>, b: Seq<(Seq<u8>, Seq<u8>)>, c: Seq<(Seq<u8>, Seq<u8>)>, x: Seq<(Seq<u8>, Seq<u8>)>)
    ensures a + (b + (c + x)) == a + b + c + x
{
    assert(a + (b + (c + x)) =~= a + b + c + x);
}
// THEOREM (C06): the head of the one serialisation, followed by anything, is read back by an RFC 7230 reader as exactly
// the status code, the automatic fields by their fixed rules (content-type iff a type is set, connection: close iff
// closing, exactly one of content-length: <decimal body length> and transfer-encoding: chunked), then the response's own
// fields in the order added with their values (without surrounding blanks) -- and what follows the blank line is left over
// as the body, untouched
pub proof fn thm_head_reads_back(resp: Response, close: bool, rest: Seq<u8>)
    requires writable(resp)
    ensures c06(parse_response(head_spec(resp, close) + rest) == Some((resp.code as nat, expected_fields(resp, close), rest)))
{
    lemma_lits();
    lemma_head_readable(resp, close);
    let hs = resp.headers.0@;
    let p0 = l_http() + dec(resp.code as nat) + l_sp() + reason_text(resp.code);
    lemma_dec_plain(resp.code as nat);
    lemma_no_crlf_app(l_http(), dec(resp.code as nat));
    lemma_no_crlf_app(l_http() + dec(resp.code as nat), l_sp());
    lemma_no_crlf_app(l_http() + dec(resp.code as nat) + l_sp(), reason_text(resp.code));
    let x = fields(hs) + crlf() + rest;
    let r1 = auto_fields(resp, close) + x;
    lemma_line(p0, r1);
    lemma_status(resp.code);
    assert(headers_ok(hs));
    lemma_own_fields_read(hs, rest);
    lemma_auto_fields_read(resp, close, x, own_fields(hs), rest);
    assert(head_spec(resp, close) + rest =~= p0 + crlf() + r1);
}
// ... and the framing is right: the decimal in content-length reads back as the number of body bytes that follow
pub open spec fn parse_dec(s: Seq<u8>) -> nat decreases s.len() {
    if s.len() == 0 { 0 } else { parse_dec(s.drop_last()) * 10 + (s.last() - 48) as nat }
}
pub proof fn lemma_parse_dec(n: nat)
    ensures parse_dec(dec(n)) == n
    decreases n
{
    if n < 10 {
        assert(dec(n).drop_last() =~= Seq::<u8>::empty());
        assert(dec(n).last() == (48 + n) as u8);
        assert(parse_dec(dec(n).drop_last()) == 0);
    } else {
        lemma_parse_dec(n / 10);
        assert(dec(n).drop_last() =~= dec(n / 10));
        assert(dec(n).last() == (48 + n % 10) as u8);
    }
}
pub proof fn thm_content_length_is_body_length<W: AsyncWrite>(writer: W, resp: Response, close: bool, r: Result<(), HttpError>)
    requires write_post(writer, resp, close, r), r is Ok, blen(resp.body) is Some,
    ensures c06(parse_dec(framing_expected(resp)[0].1) == body_wire(resp.body).len()), c06(ser(resp, close) == head_spec(resp, close) + body_wire(resp.body)),
{
    lemma_parse_dec(blen(resp.body)->Some_0 as nat);
}

// ---- a chunked-body reader written from RFC 7230 section 4.1 (no extensions, no trailers): chunk-size in hex, CRLF, that
// many bytes, CRLF ... until the zero-size chunk and the closing CRLF
pub open spec fn hex_digit_val(b: u8) -> int {
    if 48 <= b <= 57 { b - 48 } else if 97 <= b <= 102 { b - 87 } else if 65 <= b <= 70 { b - 55 } else { -1 }
}
pub open spec fn all_hex(s: Seq<u8>) -> bool { forall|i: int| 0 <= i < s.len() ==> hex_digit_val(#[trigger] s[i]) >= 0 }
pub open spec fn hex_val(s: Seq<u8>) -> int decreases s.len() {
    if s.len() == 0 { 0 } else { hex_val(s.drop_last()) * 16 + hex_digit_val(s.last()) }
}
pub open spec fn decode_chunked(s: Seq<u8>) -> Option<(Seq<u8>, Seq<u8>)> decreases s.len() {
    let i = find_crlf(s);
    if !(0 < i && i + 2 <= s.len() && all_hex(s.take(i))) { None }
    else {
        let n = hex_val(s.take(i));
        let after = s.skip(i + 2);
        if n == 0 {
            // last-chunk, then the CRLF that ends the body
            if after.len() >= 2 && after[0] == 13u8 && after[1] == 10u8 { Some((Seq::empty(), after.skip(2))) } else { None }
        } else if n > 0 && after.len() >= n + 2 && after[n] == 13u8 && after[n + 1] == 10u8 {
            match decode_chunked(after.skip(n + 2)) { Some((d, rest)) => Some((after.take(n) + d, rest)), None => None }
        } else { None }
    }
}
// (pure arithmetic, kept apart from the sequences)
pub proof fn lemma_hex_digits(n: int)
    requires 0 <= n < 65536
    ensures ({ let (d3, d2, d1, d0) = (n / 4096 % 16, n / 256 % 16, n / 16 % 16, n % 16);
        0 <= d3 < 16 && 0 <= d2 < 16 && 0 <= d1 < 16 && 0 <= d0 < 16 && ((d3 * 16 + d2) * 16 + d1) * 16 + d0 == n
        && (n < 4096 ==> d3 == 0) && (n < 256 ==> d2 == 0) && (n < 16 ==> d1 == 0) })
{}
pub proof fn lemma_hexd(k: int)
    requires 0 <= k < 16
    ensures hex_digit_val(hexd(k)) == k, !is_cr_or_lf(hexd(k))
{}
pub proof fn lemma_hex_val_push(s: Seq<u8>, d: u8)
    ensures hex_val(s.push(d)) == hex_val(s) * 16 + hex_digit_val(d)
{
    assert(s.push(d).drop_last() =~= s);
}
pub proof fn lemma_hex_min(n: int)
    requires 1 <= n < 65536
    ensures hex_min(n).len() >= 1, all_hex(hex_min(n)), no_crlf(hex_min(n)), hex_val(hex_min(n)) == n
{
    lemma_hex_digits(n);
    let (d3, d2, d1, d0) = (n / 4096 % 16, n / 256 % 16, n / 16 % 16, n % 16);
    lemma_hexd(d3); lemma_hexd(d2); lemma_hexd(d1); lemma_hexd(d0);
    let e = Seq::<u8>::empty();
    assert(hex_val(e) == 0);
    lemma_hex_val_push(e, hexd(d0));
    if n >= 4096 {
        lemma_hex_val_push(e, hexd(d3)); lemma_hex_val_push(e.push(hexd(d3)), hexd(d2)); lemma_hex_val_push(e.push(hexd(d3)).push(hexd(d2)), hexd(d1));
        lemma_hex_val_push(e.push(hexd(d3)).push(hexd(d2)).push(hexd(d1)), hexd(d0));
        assert(hex_min(n) =~= e.push(hexd(d3)).push(hexd(d2)).push(hexd(d1)).push(hexd(d0)));
    } else if n >= 256 {
        lemma_hex_val_push(e, hexd(d2)); lemma_hex_val_push(e.push(hexd(d2)), hexd(d1)); lemma_hex_val_push(e.push(hexd(d2)).push(hexd(d1)), hexd(d0));
        assert(hex_min(n) =~= e.push(hexd(d2)).push(hexd(d1)).push(hexd(d0)));
    } else if n >= 16 {
        lemma_hex_val_push(e, hexd(d1)); lemma_hex_val_push(e.push(hexd(d1)), hexd(d0));
        assert(hex_min(n) =~= e.push(hexd(d1)).push(hexd(d0)));
    } else {
        assert(hex_min(n) =~= e.push(hexd(d0)));
    }
}
pub proof fn lemma_enc_cons(ps: Seq<Seq<u8>>)
    requires ps.len() >= 1
    ensures enc(ps) == chunk(ps[0]) + enc(ps.skip(1)), cat(ps) == ps[0] + cat(ps.skip(1)),
    decreases ps.len()
{
    if ps.len() == 1 {
        assert(ps.drop_last() =~= Seq::<Seq<u8>>::empty());
        assert(ps.skip(1) =~= Seq::<Seq<u8>>::empty());
        assert(enc(ps) =~= chunk(ps[0]) + enc(ps.skip(1)));
        assert(cat(ps) =~= ps[0] + cat(ps.skip(1)));
    } else {
        lemma_enc_cons(ps.drop_last());
        assert(ps.drop_last().skip(1) =~= ps.skip(1).drop_last());
        assert(ps.drop_last()[0] == ps[0]);
        assert(ps.skip(1).last() == ps.last());
        assert(enc(ps) =~= chunk(ps[0]) + enc(ps.skip(1)));
        assert(cat(ps) =~= ps[0] + cat(ps.skip(1)));
    }
}
// the terminating chunk: `0 CRLF CRLF`, then whatever follows is left
pub proof fn lemma_last_chunk(rest: Seq<u8>)
    ensures decode_chunked(term() + rest) == Some((Seq::<u8>::empty(), rest))
{
    reveal_with_fuel(hex_val, 2);
    let s = term() + rest;
    let z = seq![48u8];
    assert(s =~= z + crlf() + (crlf() + rest));
    lemma_line(z, crlf() + rest);
    assert(all_hex(z));
    assert(z.drop_last() =~= Seq::<u8>::empty());
    assert(hex_val(z) == 0);
    let after = s.skip(3);
    assert(after =~= crlf() + rest);
    assert(after.skip(2) =~= rest);
}
// one data chunk in front of `more`
pub proof fn lemma_one_chunk(d: Seq<u8>, more: Seq<u8>)
    requires 1 <= d.len() <= 65528
    ensures decode_chunked(chunk(d) + more) == (match decode_chunked(more) { Some((x, rest)) => Some((d + x, rest)), None => None })
{
    let n = d.len() as int;
    lemma_hex_min(n);
    let s = chunk(d) + more;
    assert(s =~= hex_min(n) + crlf() + (d + crlf() + more));
    lemma_line(hex_min(n), d + crlf() + more);
    let i = hex_min(n).len() as int;
    let after = s.skip(i + 2);
    assert(after =~= d + crlf() + more);
    assert(after[n] == 13u8 && after[n + 1] == 10u8);
    assert(after.take(n) =~= d);
    assert(after.skip(n + 2) =~= more);
}
// THEOREM (C06 / C07): a body of unknown length is framed so that an RFC 7230 chunked reader recovers exactly the bytes the
// source delivered, piece after piece, stops at the terminating chunk and leaves what follows untouched
pub proof fn thm_chunked_reads_back(ps: Seq<Seq<u8>>, rest: Seq<u8>)
    requires pieces_ok(ps)
    ensures c06(c07(decode_chunked(enc(ps) + term() + rest) == Some((cat(ps), rest))))
    decreases ps.len()
{
    if ps.len() == 0 {
        lemma_last_chunk(rest);
        assert(enc(ps) + term() + rest =~= term() + rest);
        assert(cat(ps) =~= Seq::<u8>::empty());
    } else {
        lemma_enc_cons(ps);
        let more = enc(ps.skip(1)) + term() + rest;
        assert(enc(ps) + term() + rest =~= chunk(ps[0]) + more);
        lemma_one_chunk(ps[0], more);
        assert(pieces_ok(ps.skip(1))) by { assert forall|k: int| 0 <= k < ps.skip(1).len() implies 1 <= (#[trigger] ps.skip(1)[k]).len() <= 65528 by { assert(ps.skip(1)[k] == ps[k + 1]); } }
        thm_chunked_reads_back(ps.skip(1), rest);
    }
}
// the same for a response body of unknown length whose source ran to its end
pub proof fn thm_unknown_length_body_reads_back(b: ResponseBody, rest: Seq<u8>)
    requires blen(b) is None, body_events(b).last() is Eof, pieces_ok(pieces(body_events(b)))
    ensures c06(decode_chunked(body_wire(b) + rest) == Some((bytes_of(body_events(b)), rest)))
{
    thm_chunked_reads_back(pieces(body_events(b)), rest);
}
// vacuity canary: must fail
proof fn canary_respparse() { assert(false); }
