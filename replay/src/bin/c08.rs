//! C08 bounded stand-in / witness search at serialiser level: real `write_http_response` into a
//! fault-injecting writer (short writes, an error of a given kind at a given offset, then either
//! failing for good or recovering); whatever reached the writer must be a prefix of the one correct
//! serialisation, and equal to it when the call reports Ok.
use servlin::internal::write_http_response;
use servlin::{Response, ResponseBody};
use std::io::ErrorKind;
use std::pin::Pin;
use std::task::{Context, Poll};
use verif_replay::{block_on, RecWriter};

struct FaultWriter { out: Vec<u8>, short: usize, fail_at: usize, kind: ErrorKind, recover: bool, failed_once: bool, calls: u64 }
impl futures_io::AsyncWrite for FaultWriter {
    fn poll_write(mut self: Pin<&mut Self>, _cx: &mut Context<'_>, buf: &[u8]) -> Poll<std::io::Result<usize>> {
        self.calls += 1;
        if self.calls > 300_000 { panic!("livelock: the writer was called 300000 times"); }
        if self.out.len() >= self.fail_at && !(self.recover && self.failed_once) {
            self.failed_once = true;
            return Poll::Ready(Err(std::io::Error::new(self.kind, "injected")));
        }
        let mut n = buf.len().min(self.short);
        if !self.failed_once { n = n.min(self.fail_at - self.out.len()); }
        let n = n.max(if buf.is_empty() { 0 } else { 1 }).min(buf.len());
        self.out.extend_from_slice(&buf[..n]);
        Poll::Ready(Ok(n))
    }
    fn poll_flush(self: Pin<&mut Self>, _cx: &mut Context<'_>) -> Poll<std::io::Result<()>> { Poll::Ready(Ok(())) }
    fn poll_close(self: Pin<&mut Self>, _cx: &mut Context<'_>) -> Poll<std::io::Result<()>> { Poll::Ready(Ok(())) }
}
fn response(kind: usize) -> Response {
    match kind {
        0 => Response::text(200, "0123456789abcdefghij"),
        1 => Response::new(404),
        2 => Response::new(200).with_body(ResponseBody::Vec((0..70_000usize).map(|i| (i % 253) as u8).collect())),
        _ => Response::text(500, "x"),
    }
}
fn kinds() -> [ErrorKind; 4] { [ErrorKind::BrokenPipe, ErrorKind::Interrupted, ErrorKind::WouldBlock, ErrorKind::TimedOut] }
fn run(rk: usize, short: usize, fail_at: usize, kind_i: usize, recover: bool) -> Option<String> {
    let desc = format!("serialise response={rk} short={short} fail_at={fail_at} kind={kind_i} recover={recover}");
    let resp = response(rk);
    let close = (500..=599).contains(&resp.code);
    let mut good = RecWriter::new();
    if block_on(write_http_response(&mut good, &resp, close)).is_err() { return Some(format!("{desc} expected=reference-serialisation actual=error")); }
    let mut w = FaultWriter { out: Vec::new(), short, fail_at, kind: kinds()[kind_i], recover, failed_once: false, calls: 0 };
    let r = match std::panic::catch_unwind(std::panic::AssertUnwindSafe(|| block_on(write_http_response(&mut w, &resp, close)))) { Ok(r) => r, Err(_) => return Some(format!("{desc} expected=terminates-without-panic actual=panic-or-livelock")) };
    if !good.out.starts_with(&w.out) { return Some(format!("{desc} expected=prefix-of-the-one-serialisation actual={}-bytes-not-a-prefix (result ok={})", w.out.len(), r.is_ok())); }
    if r.is_ok() && w.out != good.out { return Some(format!("{desc} expected=complete-output-when-Ok actual={}-of-{}-bytes", w.out.len(), good.out.len())); }
    if !recover && fail_at < good.out.len() && r.is_ok() { return Some(format!("{desc} expected=Err actual=Ok")); }
    None
}
/// a body file that is long enough when it is opened and is truncated while it is being streamed (the writer cuts it to
/// a quarter when the first body byte arrives): the response can no longer be completed, so the call must report an
/// error, and what reached the writer must be a prefix of the head + the original content
struct ShrinkWriter { out: Vec<u8>, head_len: usize, path: std::path::PathBuf, cut_to: u64, done: bool }
impl futures_io::AsyncWrite for ShrinkWriter {
    fn poll_write(mut self: Pin<&mut Self>, _cx: &mut Context<'_>, buf: &[u8]) -> Poll<std::io::Result<usize>> {
        if !self.done && self.out.len() + buf.len() > self.head_len {
            self.done = true;
            if let Ok(f) = std::fs::OpenOptions::new().write(true).open(&self.path) { let _ = f.set_len(self.cut_to); }
        }
        self.out.extend_from_slice(buf);
        Poll::Ready(Ok(buf.len()))
    }
    fn poll_flush(self: Pin<&mut Self>, _cx: &mut Context<'_>) -> Poll<std::io::Result<()>> { Poll::Ready(Ok(())) }
    fn poll_close(self: Pin<&mut Self>, _cx: &mut Context<'_>) -> Poll<std::io::Result<()>> { Poll::Ready(Ok(())) }
}
fn shrink(size: usize) -> Option<String> {
    let desc = format!("shrinkfile size={size}");
    let path = std::env::temp_dir().join(format!("verif-c08-shrink-{}-{size}", std::process::id()));
    if std::fs::write(&path, vec![b'x'; size]).is_err() { return None; }
    let resp = Response::new(200).with_body(ResponseBody::File(path.clone(), size as u64));
    let head = format!("HTTP/1.1 200 OK\r\ncontent-length: {size}\r\n\r\n");
    let mut w = ShrinkWriter { out: Vec::new(), head_len: head.len(), path: path.clone(), cut_to: size as u64 / 4, done: false };
    let r = std::panic::catch_unwind(std::panic::AssertUnwindSafe(|| block_on(write_http_response(&mut w, &resp, false))));
    let _ = std::fs::remove_file(&path);
    let r = match r { Ok(r) => r, Err(_) => return Some(format!("{desc} expected=terminates-without-panic actual=panic")) };
    let body_ok = w.out.len() >= head.len() && w.out[..head.len()] == *head.as_bytes() && w.out[head.len()..].iter().all(|b| *b == b'x') && w.out.len() <= head.len() + size;
    if !w.out.is_empty() && !body_ok { return Some(format!("{desc} expected=prefix-of-the-one-serialisation actual={} bytes not a prefix", w.out.len())); }
    if r.is_ok() && w.out.len() != head.len() + size { return Some(format!("{desc} expected=Err-when-the-body-comes-up-short actual=Ok after {} of {} bytes", w.out.len(), head.len() + size)); }
    None
}
/// a body file that holds more than its declared length (it grew after the handler measured it): what goes out is never
/// more than the one serialisation -- the head and exactly `declared` body bytes
fn grown(declared: usize, actual: usize) -> Option<String> {
    let desc = format!("grownfile declared={declared} actual={actual}");
    let path = std::env::temp_dir().join(format!("verif-c08-grown-{}-{declared}-{actual}", std::process::id()));
    if std::fs::write(&path, vec![b'y'; actual]).is_err() { return None; }
    let resp = Response::new(200).with_body(ResponseBody::File(path.clone(), declared as u64));
    let mut correct = format!("HTTP/1.1 200 OK\r\ncontent-length: {declared}\r\n\r\n").into_bytes();
    correct.extend(vec![b'y'; declared]);
    let mut w = RecWriter::new();
    let r = std::panic::catch_unwind(std::panic::AssertUnwindSafe(|| block_on(write_http_response(&mut w, &resp, false))));
    let _ = std::fs::remove_file(&path);
    if r.is_err() { return Some(format!("{desc} expected=terminates-without-panic actual=panic")); }
    if !correct.starts_with(&w.out) { return Some(format!("{desc} expected=prefix-of-the-one-serialisation ({} bytes) actual={} bytes, not a prefix", correct.len(), w.out.len())); }
    None
}
/// a body of unknown length whose source fails midway: what went out is a prefix of the serialisation of what the source
/// delivered -- in particular no terminating chunk, which would make the truncated stream look complete.  (Until the repair
/// f72b510 an event larger than the read window was such a failure; an event stream can no longer fail, so the failing source
/// is a scripted reader handed to the real copy_chunked_async, with short writes on the other side.)
fn streamfail(before: usize) -> Option<String> {
    use servlin::internal::{copy_chunked_async, CopyResult};
    use verif_replay::{ScriptReader, Step};
    for cap in [usize::MAX, 1, 3] {
        let desc = format!("streamfail events_before={before} write_cap={cap}");
        let mut steps = Vec::new();
        let mut want = Vec::new();
        for i in 0..before {
            let block = format!("data: e{i}\n").into_bytes();
            want.extend(format!("{:x}\r\n", block.len()).bytes()); want.extend(&block); want.extend(b"\r\n");
            steps.push(Step::Data(block));
        }
        steps.push(Step::Fail);
        let mut rd = ScriptReader::new(steps);
        let mut w = RecWriter::new();
        w.max_per_call = cap;
        let r = std::panic::catch_unwind(std::panic::AssertUnwindSafe(|| block_on(copy_chunked_async(&mut rd, &mut w))));
        let r = match r { Ok(r) => r, Err(_) => return Some(format!("{desc} expected=terminates-without-panic actual=panic")) };
        if !matches!(r, CopyResult::ReaderErr(_)) { return Some(format!("{desc} expected=ReaderErr (the source failed) actual={}", match r { CopyResult::Ok(n) => format!("Ok({n})"), CopyResult::WriterErr(_) => "WriterErr".into(), CopyResult::ReaderErr(_) => "ReaderErr".into() })); }
        if w.out != want { return Some(format!("{desc} expected=exactly the {before} chunks delivered before the failure ({} bytes) actual={} bytes ending {:?}", want.len(), w.out.len(), String::from_utf8_lossy(&w.out[w.out.len().saturating_sub(12)..]))); }
    }
    None
}
fn main() {
    std::panic::set_hook(Box::new(|_| {}));
    let args: Vec<String> = std::env::args().collect();
    if args.len() >= 3 && args[1] == "replay" {
        let w = args[2..].join(" ");
        if w.starts_with("streamfail") {
            let n: Vec<usize> = w.split(|c: char| !c.is_ascii_digit()).filter(|s| !s.is_empty()).filter_map(|s| s.parse().ok()).collect();
            match streamfail(n[0]) { Some(m) => { println!("WITNESS {m}"); std::process::exit(1) } None => { println!("OK witness no longer fails"); std::process::exit(0) } }
        }
        if w.starts_with("grownfile") {
            let n: Vec<usize> = w.split(|c: char| !c.is_ascii_digit()).filter(|s| !s.is_empty()).filter_map(|s| s.parse().ok()).collect();
            match grown(n[0], n[1]) { Some(m) => { println!("WITNESS {m}"); std::process::exit(1) } None => { println!("OK witness no longer fails"); std::process::exit(0) } }
        }
        if w.starts_with("shrinkfile") {
            let size: usize = w.split("size=").nth(1).unwrap().split(' ').next().unwrap().parse().unwrap();
            match shrink(size) { Some(m) => { println!("WITNESS {m}"); std::process::exit(1) } None => { println!("OK witness no longer fails"); std::process::exit(0) } }
        }
        let n: Vec<usize> = w.split(|c: char| !c.is_ascii_digit()).filter(|s| !s.is_empty()).filter_map(|s| s.parse().ok()).collect();
        match run(n[0], n[1], n[2], n[3], w.contains("recover=true")) { Some(m) => { println!("WITNESS {m}"); std::process::exit(1) } None => { println!("OK witness no longer fails"); std::process::exit(0) } }
    }
    let mut n = 0u64; let mut found = Vec::new();
    for rk in 0..4 {
        let resp = response(rk);
        let mut good = RecWriter::new();
        let _ = block_on(write_http_response(&mut good, &resp, (500..=599).contains(&resp.code)));
        let len = good.out.len();
        let offsets: Vec<usize> = if len < 200 { (0..=len).collect() } else { let mut v: Vec<usize> = (0..120).collect(); v.extend([len / 2, 65536 + 60, 65536 + 61, 65537 + 80, len - 2, len - 1, len]); v };
        for &fail_at in &offsets { for short in [1usize, 7, usize::MAX] { for kind_i in 0..4 { for recover in [false, true] {
            if len > 1000 && short == 1 { continue; }
            n += 1;
            if let Some(m) = run(rk, short, fail_at, kind_i, recover) { if found.len() < 6 { found.push(m) } }
        }}}}
    }
    // (async_fs reads ahead several MiB, so the file must be larger than that for the cut to land mid-body)
    for size in [24usize << 20, 40 << 20] { n += 1; if let Some(m) = shrink(size) { if found.len() < 6 { found.push(m) } } }
    for b in [0usize, 1, 3] { n += 1; if let Some(m) = streamfail(b) { if found.len() < 6 { found.push(m) } } }
    for (d, a) in [(4usize, 10usize), (0, 5), (1, 2), (2000, 2001), (65536, 70000), (100, 200000)] { n += 1; if let Some(m) = grown(d, a) { if found.len() < 6 { found.push(m) } } }
    println!("EVALUATED {n}");
    for f in &found { println!("WITNESS {f}"); }
    std::process::exit(if found.is_empty() { 0 } else { 1 });
}
