//! C19 witness search / replay: the real PrefixFileSet bookkeeping on a scratch directory against
//! a reference model (list of (name, mtime, len), oldest first).
use servlin::log::internal::{PrefixFile, PrefixFileSet};
use std::path::PathBuf;
use std::time::{Duration, SystemTime, UNIX_EPOCH};

fn scratch() -> PathBuf {
    let d = std::env::temp_dir().join(format!("verif-c19-{}-{}", std::process::id(), SystemTime::now().duration_since(UNIX_EPOCH).unwrap().as_nanos()));
    std::fs::create_dir_all(&d).unwrap();
    d
}
/// ops: "p<len>" push a new file of that length (mtime = step index), "m<k>" delete_oldest_while_over_max_len(k), "a<k>" delete_older_than(now = T0+100, k)
fn run(ops: &str) -> Option<String> {
    let dir = scratch();
    let prefix = dir.join("log");
    let desc = format!("fileset ops={ops}");
    let res = std::panic::catch_unwind(|| {
        let mut set = PrefixFileSet::new(&prefix).map_err(|e| format!("new: {e}"))?;
        let mut model: Vec<(PathBuf, u64, u64)> = Vec::new(); // (path, mtime secs, len), push order = age order
        let t0 = UNIX_EPOCH + Duration::from_secs(1_000_000);
        for (i, op) in ops.split(',').filter(|s| !s.is_empty()).enumerate() {
            let k: u64 = op[1..].parse().unwrap();
            match &op[..1] {
                "p" => {
                    let path = dir.join(format!("log.{i}"));
                    std::fs::write(&path, vec![b'x'; k as usize]).unwrap();
                    set.push(PrefixFile { path: path.clone(), mtime: t0 + Duration::from_secs(i as u64), len: k });
                    model.push((path, i as u64, k));
                }
                "m" => {
                    set.delete_oldest_while_over_max_len(k).map_err(|e| format!("step {i}: {e}"))?;
                    while model.iter().map(|f| f.2).sum::<u64>() > k { model.remove(0); }
                }
                _ => {
                    set.delete_older_than(t0 + Duration::from_secs(100), Duration::from_secs(k)).map_err(|e| format!("step {i}: {e}"))?;
                    while !model.is_empty() && model[0].1 + k < 100 { model.remove(0); }
                }
            }
            let mut on_disk: Vec<String> = std::fs::read_dir(&dir).unwrap().map(|e| e.unwrap().file_name().to_string_lossy().to_string()).collect();
            on_disk.sort();
            let mut want: Vec<String> = model.iter().map(|f| f.0.file_name().unwrap().to_string_lossy().to_string()).collect();
            want.sort();
            if on_disk != want { return Err(format!("after step {i} ({op}) expected_files={want:?} actual_files={on_disk:?}")); }
        }
        Ok::<(), String>(())
    });
    let _ = std::fs::remove_dir_all(&dir);
    match res {
        Ok(Ok(())) => None,
        Ok(Err(e)) => Some(format!("{desc} expected=model-agreement actual={e}")),
        Err(_) => Some(format!("{desc} expected=no-panic actual=panic")),
    }
}
/// The real writer thread (LogFileWriter::start_writer_thread) on a scratch directory: `n` events with `msg` bytes of
/// message each, keep-size `keep`, per-file size `write` (>= 64 KiB).  Oracle, from the property: the writer keeps
/// running; every surviving file holds whole lines that are a contiguous run of the accepted events in order; the runs
/// together are a most-recent suffix of the log; the total size of the prefix files exceeds `keep` by at most one event;
/// no file exceeds `write` by more than one event.
fn run_writer(keep: u64, write: u64, n: usize, msg: usize) -> Option<String> { run_writer2(keep, write, n, msg, 0) }
/// `old` files of 400 bytes each left by an "earlier run" are in the directory before the writer starts
fn run_writer2(keep: u64, write: u64, n: usize, msg: usize, old: usize) -> Option<String> { run_writer3(keep, write, n, msg, old, false) }
/// `stale`: the events carry caller-supplied timestamps that jump back and forth by hours (servlin::log::internal::log
/// takes the time from its caller, e.g. the time an Error was made); acceptance order is still the sending order
fn run_writer3(keep: u64, write: u64, n: usize, msg: usize, old: usize, stale: bool) -> Option<String> {
    use servlin::log::internal::LogEvent;
    use servlin::log::{tag, LogFileWriter};
    let dir = scratch();
    let desc = if stale { format!("writer keep={keep} write={write} n={n} msg={msg} stale=1") } else if old == 0 { format!("writer keep={keep} write={write} n={n} msg={msg}") } else { format!("writer keep={keep} write={write} n={n} msg={msg} old={old}") };
    let prefix = dir.join("log");
    for k in 0..old {
        // whole lines of an earlier run (events numbered below zero do not exist: they are marked `old`)
        std::fs::write(dir.join(format!("log.20200101T00000{k}Z-0")), format!("{{\"old\":{k},\"pad\":\"{}\"}}\n", "y".repeat(380))).unwrap();
    }
    let fail = |m: String| { let _ = std::fs::remove_dir_all(&dir); Some(format!("{desc} {m}")) };
    let sender = match LogFileWriter::new_builder(prefix.clone(), keep).with_max_write_bytes(write).start_writer_thread() {
        Ok(s) => s,
        Err(e) => return fail(format!("expected=writer-starts actual={e:?}")),
    };
    let mut max_line = 0u64;
    let _guard = if stale { match servlin::log::set_global_logger(sender.clone()) { Ok(g) => Some(g), Err(_) => return fail("expected=global logger free actual=already set".to_string()) } } else { None };
    for i in 0..n {
        if stale {
            let text = format!("{i:08}{}", "x".repeat(msg));
            let t = SystemTime::now() - Duration::from_secs(if i % 3 == 1 { 7200 + 60 * i as u64 } else { 0 }) + Duration::from_secs(if i % 3 == 2 { 3600 } else { 0 });
            max_line = max_line.max(msg as u64 + 120);
            if servlin::log::internal::log(t, servlin::log::Level::Info, tag("msg", text)).is_err() {
                return fail(format!("expected=writer-keeps-running actual=writer thread gone at event {i}"));
            }
            continue;
        }
        let text = format!("{i:08}{}", "x".repeat(msg));
        let ev = LogEvent::new(servlin::log::Level::Info, tag("msg", text));
        let mut b = Vec::new();
        ev.write_jsonl(&mut b).unwrap();
        max_line = max_line.max(b.len() as u64);
        if sender.send(ev).is_err() {
            return fail(format!("expected=writer-keeps-running actual=writer thread gone at event {i}"));
        }
    }
    // quiescence: the last event has reached a file (or the writer died)
    let want_last = format!("\"msg\":\"{:08}", n - 1);
    let t0 = std::time::Instant::now();
    let mut files: Vec<(String, Vec<u8>)>;
    loop {
        files = std::fs::read_dir(&dir).unwrap().map(|e| e.unwrap()).filter(|e| e.file_name().to_string_lossy().starts_with("log"))
            .map(|e| (e.file_name().to_string_lossy().to_string(), std::fs::read(e.path()).unwrap_or_default())).collect();
        if files.iter().any(|(_, c)| String::from_utf8_lossy(c).contains(&want_last)) { break; }
        if t0.elapsed() > Duration::from_secs(30) {
            return fail(format!("expected=last event written actual=not on disk after 30 s (writer thread dead?)"));
        }
        std::thread::sleep(Duration::from_millis(5));
    }
    // the writer is idle now (the last event is on disk): take the snapshot that is judged only after that, so that it
    // does not mix states from before and after the writer's deletions
    std::thread::sleep(Duration::from_millis(50));
    files = std::fs::read_dir(&dir).unwrap().map(|e| e.unwrap()).filter(|e| e.file_name().to_string_lossy().starts_with("log"))
        .map(|e| (e.file_name().to_string_lossy().to_string(), std::fs::read(e.path()).unwrap_or_default())).collect();
    drop(sender);
    let total: u64 = files.iter().map(|(_, c)| c.len() as u64).sum();
    if total > keep.max(0) + max_line {
        return fail(format!("expected=total<={}+{max_line} actual=total {total} in {} files", keep, files.len()));
    }
    let mut seen: Vec<usize> = Vec::new();
    for (name, c) in &files {
        if c.len() as u64 > write + max_line { return fail(format!("expected=file<={write}+{max_line} actual={name} has {} bytes", c.len())); }
        let text = String::from_utf8_lossy(c).to_string();
        if !text.is_empty() && !text.ends_with('\n') { return fail(format!("expected=whole lines actual={name} ends in a partial line")); }
        let mut idx: Vec<usize> = Vec::new();
        for l in text.lines() {
            if l.contains("Starting log writer") || l.starts_with("{\"old\":") { continue; }
            match l.split("\"msg\":\"").nth(1).and_then(|r| r.get(0..8)).and_then(|d| d.parse::<usize>().ok()) {
                Some(k) if l.starts_with('{') && l.ends_with('}') => idx.push(k),
                _ => return fail(format!("expected=whole event lines actual={name} has line {l:?}")),
            }
        }
        if idx.windows(2).any(|w| w[1] != w[0] + 1) { return fail(format!("expected=contiguous in-order lines actual={name} has events {idx:?}")); }
        seen.extend(idx);
    }
    seen.sort();
    if seen.windows(2).any(|w| w[1] != w[0] + 1) || seen.last() != Some(&(n - 1)) {
        return fail(format!("expected=surviving events are a most-recent suffix without gaps or duplicates actual={:?}..{:?} ({} lines)", seen.first(), seen.last(), seen.len()));
    }
    let _ = std::fs::remove_dir_all(&dir);
    None
}
/// the oldest file disappears behind the writer's back (an operator, a tmp cleaner): whatever the writer does about the
/// failing delete -- stop, or carry on -- the files on disk stay within the keep-size (+ one event)
fn run_extdel(keep: u64, msg: usize) -> Option<String> {
    use servlin::log::internal::LogEvent;
    use servlin::log::{tag, LogFileWriter};
    let dir = scratch();
    let desc = format!("extdel keep={keep} msg={msg}");
    let fail = |m: String| { let _ = std::fs::remove_dir_all(&dir); Some(format!("{desc} {m}")) };
    let sender = match LogFileWriter::new_builder(dir.join("log"), keep).with_max_write_bytes(65536).start_writer_thread() { Ok(s) => s, Err(e) => return fail(format!("expected=writer-starts actual={e:?}")) };
    let mut max_line = 0u64;
    let mut send_n = |from: usize, to: usize| { for i in from..to {
        let ev = LogEvent::new(servlin::log::Level::Info, tag("msg", format!("{i:08}{}", "x".repeat(msg))));
        let mut b = Vec::new(); ev.write_jsonl(&mut b).unwrap(); max_line = max_line.max(b.len() as u64);
        if sender.send(ev).is_err() { break; }
    } };
    send_n(0, 300);
    std::thread::sleep(Duration::from_millis(300));
    let mut names: Vec<PathBuf> = std::fs::read_dir(&dir).unwrap().map(|e| e.unwrap().path()).filter(|p| p.file_name().unwrap().to_string_lossy().starts_with("log")).collect();
    names.sort_by_key(|p| std::fs::metadata(p).and_then(|m| m.modified()).ok());
    if names.len() < 2 { return fail(format!("expected=several files before the deletion actual={}", names.len())); }
    let _ = std::fs::remove_file(&names[0]);
    std::thread::sleep(Duration::from_millis(1100));   // (a new file must not reuse the removed one's name)
    send_n(300, 1200);
    std::thread::sleep(Duration::from_millis(400));
    let total: u64 = std::fs::read_dir(&dir).unwrap().map(|e| e.unwrap()).filter(|e| e.file_name().to_string_lossy().starts_with("log")).map(|e| e.metadata().map(|m| m.len()).unwrap_or(0)).sum();
    drop(sender);
    if total > keep + max_line { return fail(format!("expected=total<={keep}+{max_line} actual=total {total}")); }
    let _ = std::fs::remove_dir_all(&dir);
    None
}
/// entries that carry the prefix but are not log files (sub-directories, symbolic links) are there before the writer starts: they are
/// neither counted nor deleted, the writer starts, keeps running and the newest event is on disk within the keep-size
/// files of an earlier run that are older than the keep-age -- one with lines in it, one empty (a run that stopped right after
/// creating its file): after an event has been written none of them is left, whatever its size
fn run_expired() -> Option<String> {
    use servlin::log::internal::LogEvent;
    use servlin::log::{tag, LogFileWriter};
    let dir = scratch();
    let desc = "expired keepage=60".to_string();
    let fail = |m: String| { let _ = std::fs::remove_dir_all(&dir); Some(format!("{desc} {m}")) };
    let old_time = SystemTime::now() - Duration::from_secs(3 * 3600);
    for (name, content) in [("log.20200101T000000Z-0", "{\"old\":0}\n"), ("log.20200101T000001Z-0", ""), ("log.20200101T000002Z-0", "{\"old\":2}\n")] {
        let path = dir.join(name);
        std::fs::write(&path, content).unwrap();
        let f = std::fs::OpenOptions::new().write(true).open(&path).unwrap();
        if f.set_modified(old_time).is_err() { let _ = std::fs::remove_dir_all(&dir); return None; }   // a file system without settable times: nothing to explore
    }
    let sender = match LogFileWriter::new_builder(dir.join("log"), 1 << 20).with_max_keep_age(Duration::from_secs(60)).start_writer_thread() {
        Ok(s) => s, Err(e) => return fail(format!("expected=writer-starts actual={e:?}")) };
    for i in 0..2 { if sender.send(LogEvent::new(servlin::log::Level::Info, tag("msg", format!("{i:08}")))).is_err() { return fail(format!("expected=writer-keeps-running actual=writer thread gone at event {i}")); } }
    let t0 = std::time::Instant::now();
    loop {
        let seen = std::fs::read_dir(&dir).unwrap().map(|e| e.unwrap()).any(|e| String::from_utf8_lossy(&std::fs::read(e.path()).unwrap_or_default()).contains("\"msg\":\"00000001"));
        if seen { break; }
        if t0.elapsed() > Duration::from_secs(20) { return fail("expected=last event written actual=not on disk after 20 s".into()); }
        std::thread::sleep(Duration::from_millis(10));
    }
    let left: Vec<String> = std::fs::read_dir(&dir).unwrap().map(|e| e.unwrap().file_name().to_string_lossy().to_string()).filter(|n| n.starts_with("log.20200101")).collect();
    drop(sender);
    if !left.is_empty() { return fail(format!("expected=no file older than the keep-age after an event actual={left:?}")); }
    let _ = std::fs::remove_dir_all(&dir);
    None
}
fn run_foreign(keep: u64, msg: usize) -> Option<String> {
    use servlin::log::internal::LogEvent;
    use servlin::log::{tag, LogFileWriter};
    let dir = scratch();
    let desc = format!("foreign keep={keep} msg={msg}");
    let fail = |m: String| { let _ = std::fs::remove_dir_all(&dir); Some(format!("{desc} {m}")) };
    let _ = std::fs::create_dir_all(dir.join("log.d"));
    let _ = std::fs::write(dir.join("log.d").join("notes.txt"), vec![b'n'; 5000]);
    for k in 0..12 { let _ = std::fs::create_dir_all(dir.join(format!("log.dir{k}"))); let _ = std::os::unix::fs::symlink(format!("/nonexistent/{}", "t".repeat(200)), dir.join(format!("log.link{k}"))); }
    let r = std::panic::catch_unwind(|| LogFileWriter::new_builder(dir.join("log"), keep).with_max_write_bytes(65536).start_writer_thread());
    let sender = match r { Ok(Ok(s)) => s, Ok(Err(e)) => return fail(format!("expected=writer-starts actual={e:?}")), Err(_) => return fail("expected=writer-starts actual=panic".into()) };
    let mut max_line = 0u64; let mut refused = None;
    for i in 0..60usize {
        let ev = LogEvent::new(servlin::log::Level::Info, tag("msg", format!("{i:08}{}", "x".repeat(msg))));
        let mut b = Vec::new(); ev.write_jsonl(&mut b).unwrap(); max_line = max_line.max(b.len() as u64);
        if sender.send(ev).is_err() { refused = Some(i); break; }
        std::thread::sleep(Duration::from_millis(2));
    }
    std::thread::sleep(Duration::from_millis(400));
    let files: Vec<PathBuf> = std::fs::read_dir(&dir).unwrap().map(|e| e.unwrap().path()).filter(|p| p.is_file() && !p.is_symlink() && p.file_name().unwrap().to_string_lossy().starts_with("log")).collect();
    let total: u64 = files.iter().map(|p| std::fs::metadata(p).map(|m| m.len()).unwrap_or(0)).sum();
    let last_on_disk = files.iter().any(|p| std::fs::read_to_string(p).map(|t| t.contains("00000059x")).unwrap_or(false));
    let foreign_ok = dir.join("log.d").join("notes.txt").exists() && (0..12).all(|k| dir.join(format!("log.dir{k}")).is_dir() && dir.join(format!("log.link{k}")).is_symlink());
    drop(sender);
    if let Some(i) = refused { return fail(format!("expected=every event accepted (the writer keeps running) actual=event {i} refused")); }
    if !last_on_disk { return fail("expected=last event written actual=not on disk (writer thread dead?)".into()); }
    if total > keep + max_line { return fail(format!("expected=total<={keep}+{max_line} actual=total {total}")); }
    if !foreign_ok { return fail("expected=entries that are not log files left alone actual=some are gone".into()); }
    let _ = std::fs::remove_dir_all(&dir);
    None
}
fn main() {
    std::panic::set_hook(Box::new(|_| {}));
    let args: Vec<String> = std::env::args().collect();
    if args.len() >= 3 && args[1] == "replay" {
        let w = args[2..].join(" ");
        if w.starts_with("expired ") {
            match run_expired() { Some(m) => { println!("WITNESS {m}"); std::process::exit(1) } None => { println!("OK witness no longer fails"); std::process::exit(0) } }
        }
        if w.starts_with("foreign ") {
            let g = |k: &str| -> u64 { w.split(&format!("{k}=")).nth(1).unwrap().split(' ').next().unwrap().parse().unwrap() };
            match run_foreign(g("keep"), g("msg") as usize) { Some(m) => { println!("WITNESS {m}"); std::process::exit(1) } None => { println!("OK witness no longer fails"); std::process::exit(0) } }
        }
        if w.starts_with("extdel ") {
            let g = |k: &str| -> u64 { w.split(&format!("{k}=")).nth(1).unwrap().split(' ').next().unwrap().parse().unwrap() };
            match run_extdel(g("keep"), g("msg") as usize) { Some(m) => { println!("WITNESS {m}"); std::process::exit(1) } None => { println!("OK witness no longer fails"); std::process::exit(0) } }
        }
        if w.starts_with("writer ") {
            let g = |k: &str| -> u64 { w.split(&format!("{k}=")).nth(1).unwrap().split(' ').next().unwrap().parse().unwrap() };
            let old = if w.contains(" old=") { g("old") as usize } else { 0 };
            match run_writer3(g("keep"), g("write"), g("n") as usize, g("msg") as usize, old, w.contains(" stale=1")) {
                Some(m) => { println!("WITNESS {m}"); std::process::exit(1) }
                None => { println!("OK witness no longer fails"); std::process::exit(0) }
            }
        }
        let ops = w.split("ops=").nth(1).unwrap().split(' ').next().unwrap().to_string();
        match run(&ops) {
            Some(m) => { println!("WITNESS {m}"); std::process::exit(1) }
            None => { println!("OK witness no longer fails"); std::process::exit(0) }
        }
    }
    let thorough = args.iter().any(|a| a == "--thorough");
    let alphabet = ["p10", "p0", "p7", "m5", "m0", "m100", "a50", "a99", "a1000"];
    let depth = if thorough { 5 } else { 4 };
    let mut n = 0u64;
    let mut found = Vec::new();
    for len in 1..=depth {
        for code in 0..alphabet.len().pow(len as u32) {
            let mut c = code;
            let ops: Vec<&str> = (0..len).map(|_| { let x = alphabet[c % alphabet.len()]; c /= alphabet.len(); x }).collect();
            n += 1;
            if let Some(m) = run(&ops.join(",")) { if found.len() < 5 { found.push(m) } }
        }
    }
    // the writer thread itself: keep-size below / around / above the per-file size, events small and large
    for &(keep, write, cnt, msg) in &[(1000u64, 65536u64, 40usize, 100usize), (0, 65536, 10, 10), (70000, 65536, 900, 100), (200000, 65536, 1500, 100),
                                      (150000, 65536, 40, 20000), (65536, 65536, 700, 100), (300, 65536, 3, 1000)] {
        n += 1;
        if let Some(m) = run_writer(keep, write, cnt, msg) { if found.len() < 5 { found.push(m) } }
    }
    for &(keep, write, cnt, msg) in &[(150000u64, 65536u64, 400usize, 1000usize), (200000, 65536, 700, 900)] {
        n += 1;
        if let Some(m) = run_writer3(keep, write, cnt, msg, 0, true) { if found.len() < 5 { found.push(m) } }
    }
    for &(keep, write, cnt, msg, old) in &[(1000u64, 65536u64, 10usize, 100usize, 3usize), (100000, 65536, 5, 100, 300)] {
        n += 1;
        if let Some(m) = run_writer2(keep, write, cnt, msg, old) { if found.len() < 5 { found.push(m) } }
    }
    n += 1; if let Some(m) = run_extdel(140000, 1000) { if found.len() < 5 { found.push(m) } }
    for keep in [1500u64, 20000] { n += 1; if let Some(m) = run_foreign(keep, 100) { if found.len() < 5 { found.push(m) } } }
    { n += 1; if let Some(m) = run_expired() { if found.len() < 5 { found.push(m) } } }
    println!("EVALUATED {n}");
    for f in &found { println!("WITNESS {f}"); }
    std::process::exit(if found.is_empty() { 0 } else { 1 });
}
