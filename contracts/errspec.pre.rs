// ---- the response an error is turned into (src/http_error.rs; the full table with exact bodies is checked per
// variant by the Kani set c20): shared by units errresp (where From<HttpError> for Response is proved) and conn
pub open spec fn error_response(e: HttpError, r: Response) -> bool {
    if e is Disconnected { r.kind == ResponseKind::DropConnection }
    else { r.kind == ResponseKind::Normal && (r.code == 400 || r.code == 413 || r.code == 431 || r.code == 505 || r.code == 500) }
}
impl vstd::std_specs::convert::FromSpecImpl<HttpError> for Response {
    open spec fn obeys_from_spec() -> bool { false }
    uninterp spec fn from_spec(e: HttpError) -> Response;
}
