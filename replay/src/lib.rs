//! Shared helpers for the witness-search binaries: a no-op-waker `block_on` (the scripted
//! readers / writers never return Pending), scripted reader and recording writer.
use std::future::Future;
use std::pin::Pin;
use std::task::{Context, Poll, RawWaker, RawWakerVTable, Waker};

fn raw_waker() -> RawWaker {
    fn no_op(_: *const ()) {}
    fn clone(_: *const ()) -> RawWaker {
        raw_waker()
    }
    static VTABLE: RawWakerVTable = RawWakerVTable::new(clone, no_op, no_op, no_op);
    RawWaker::new(std::ptr::null(), &VTABLE)
}

pub fn block_on<F: Future>(fut: F) -> F::Output {
    let waker = unsafe { Waker::from_raw(raw_waker()) };
    let mut cx = Context::from_waker(&waker);
    let mut fut = Box::pin(fut);
    for _ in 0..1_000_000 {
        if let Poll::Ready(v) = fut.as_mut().poll(&mut cx) {
            return v;
        }
    }
    panic!("future did not complete");
}

/// Polls at most `n` times: None when the future is still waiting (an idle peer).
pub fn poll_n<F: Future>(fut: F, n: usize) -> Option<F::Output> {
    let waker = unsafe { Waker::from_raw(raw_waker()) };
    let mut cx = Context::from_waker(&waker);
    let mut fut = Box::pin(fut);
    for _ in 0..n {
        if let Poll::Ready(v) = fut.as_mut().poll(&mut cx) {
            return Some(v);
        }
    }
    None
}

/// One scripted step of a reader.
#[derive(Clone, Debug)]
pub enum Step {
    Data(Vec<u8>),
    Eof,
    Fail,
    /// fail with this error kind
    FailKind(std::io::ErrorKind),
    /// the peer sends nothing more and keeps the connection open: every further read is Pending
    Idle,
}

/// Delivers the scripted steps; a Data step larger than the caller's buffer is split.
pub struct ScriptReader {
    pub steps: std::collections::VecDeque<Step>,
    pub delivered: Vec<u8>,
}
impl ScriptReader {
    pub fn new(steps: Vec<Step>) -> Self {
        Self { steps: steps.into(), delivered: Vec::new() }
    }
}
impl futures_io::AsyncRead for ScriptReader {
    fn poll_read(mut self: Pin<&mut Self>, _cx: &mut Context<'_>, buf: &mut [u8]) -> Poll<std::io::Result<usize>> {
        match self.steps.pop_front() {
            None | Some(Step::Eof) => Poll::Ready(Ok(0)),
            Some(Step::Fail) => Poll::Ready(Err(std::io::Error::new(std::io::ErrorKind::Other, "scripted"))),
            Some(Step::FailKind(k)) => Poll::Ready(Err(std::io::Error::new(k, "scripted"))),
            Some(Step::Idle) => { self.steps.push_front(Step::Idle); Poll::Pending }
            Some(Step::Data(d)) => {
                let n = d.len().min(buf.len());
                buf[..n].copy_from_slice(&d[..n]);
                self.delivered.extend_from_slice(&d[..n]);
                if n < d.len() {
                    self.steps.push_front(Step::Data(d[n..].to_vec()));
                }
                Poll::Ready(Ok(n))
            }
        }
    }
}

/// Records what was written; fails (after accepting the bytes before it) at `fail_at`.
pub struct RecWriter {
    pub out: Vec<u8>,
    pub fail_at: Option<usize>,
    pub max_per_call: usize,
    /// every k-th call of poll_write answers Pending first (0: never)
    pub pending_every: usize,
    calls: usize,
}
impl RecWriter {
    pub fn new() -> Self {
        Self { out: Vec::new(), fail_at: None, max_per_call: usize::MAX, pending_every: 0, calls: 0 }
    }
}
impl futures_io::AsyncWrite for RecWriter {
    fn poll_write(mut self: Pin<&mut Self>, _cx: &mut Context<'_>, buf: &[u8]) -> Poll<std::io::Result<usize>> {
        self.calls += 1;
        if self.pending_every > 0 && self.calls % self.pending_every == 0 { return Poll::Pending; }   // (block_on polls again)
        let mut n = buf.len().min(self.max_per_call);
        if let Some(f) = self.fail_at {
            if self.out.len() >= f {
                return Poll::Ready(Err(std::io::Error::new(std::io::ErrorKind::BrokenPipe, "scripted")));
            }
            n = n.min(f - self.out.len());
        }
        self.out.extend_from_slice(&buf[..n]);
        Poll::Ready(Ok(n))
    }
    fn poll_flush(self: Pin<&mut Self>, _cx: &mut Context<'_>) -> Poll<std::io::Result<()>> {
        Poll::Ready(Ok(()))
    }
    fn poll_close(self: Pin<&mut Self>, _cx: &mut Context<'_>) -> Poll<std::io::Result<()>> {
        Poll::Ready(Ok(()))
    }
}

/// tiny deterministic PRNG
pub struct Rng(pub u64);
impl Rng {
    pub fn next(&mut self) -> u64 {
        self.0 ^= self.0 << 13;
        self.0 ^= self.0 >> 7;
        self.0 ^= self.0 << 17;
        self.0
    }
    pub fn below(&mut self, n: u64) -> u64 {
        self.next() % n
    }
}
