#![feature(sized_hierarchy)]
use vstd::prelude::*;
verus! {

#[verifier::external_trait_specification]
pub trait ExAsRef<T: core::marker::PointeeSized>: core::marker::PointeeSized {
    type ExternalTraitSpecificationFor: core::convert::AsRef<T>;
    fn as_ref(&self) -> &T;
}
pub struct AsciiString(String);

impl AsciiString {
    #[verifier::external_body]
    pub fn eq_ignore_ascii_case(&self, other: &str) -> (r: bool)
        ensures r == name_matches(self, other@)
    { self.0.eq_ignore_ascii_case(other) }
}
pub uninterp spec fn name_matches(a: &AsciiString, b: Seq<char>) -> bool;

pub struct Header {
    pub name: AsciiString,
    pub value: AsciiString,
}
impl Header {
    pub fn new(name: AsciiString, value: AsciiString) -> Self {
        Self { name, value }
    }
}

pub struct HeaderList(pub Vec<Header>);
impl HeaderList {
    pub fn new() -> Self {
        Self(Vec::new())
    }

    pub fn get_only(&self, name: impl AsRef<str>) -> Option<&AsciiString> {
        let mut value = None;
        for header in &self.0 {
            if header.name.eq_ignore_ascii_case(name.as_ref()) {
                if value.is_some() {
                    return None;
                }
                value = Some(&header.value);
            }
        }
        value
    }

    pub fn get_all(&self, name: impl AsRef<str>) -> Vec<&AsciiString> {
        let mut headers = Vec::new();
        for header in &self.0 {
            if header.name.eq_ignore_ascii_case(name.as_ref()) {
                headers.push(&header.value);
            }
        }
        headers
    }

    pub fn remove_only(&mut self, name: impl AsRef<str>) -> Option<AsciiString> {
        let mut iter = self.remove_all(name).into_iter();
        match (iter.next(), iter.next()) {
            (Some(value), None) => Some(value),
            _ => None,
        }
    }

    pub fn remove_all(&mut self, name: impl AsRef<str>) -> Vec<AsciiString> {
        let mut values = Vec::new();
        let mut n = 0;
        while n < self.0.len() 
          decreases self.0.len() - n
        {
            if self.0[n].name.eq_ignore_ascii_case(name.as_ref()) {
                let header = self.0.swap_remove(n);
                values.push(header.value);
            } else {
                n += 1;
            }
        }
        values
    }
}
} // verus!
fn main() {}
