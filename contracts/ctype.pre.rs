// ---- the static text tables of the serialiser (src/content_type.rs, src/response.rs)
pub open spec fn no_crlf_chars(s: Seq<char>) -> bool { forall|i: int| 0 <= i < s.len() ==> s[i] != '\r' && s[i] != '\n' }
// the part of a media type before its parameters: up to the first ';'
pub open spec fn first_seg(s: Seq<char>) -> Seq<char> decreases s.len() {
    if s.len() == 0 || s[0] == ';' { Seq::<char>::empty() } else { seq![s[0]] + first_seg(s.skip(1)) }
}
// rule S1 stand-in for `s.split(';').next()`: split always yields a first piece, the text before the first ';' (assumed)
#[verifier::external_body]
pub fn first_piece<'a>(s: &'a str) -> (r: Option<&'a str>)
    ensures r is Some, r->Some_0@ == first_seg(s@)
{ unimplemented!() }
// two `&str` with the same characters are the same string (assumed; Verus compares a string-literal pattern as a value)
#[verifier::external_body]
pub broadcast proof fn axiom_str_ext(a: &str, b: &str)
    requires #[trigger] a@ == #[trigger] b@
    ensures a == b
{}
// the type a media-type text stands for (written from the list of types the library names, RFC 6838 registrations)
pub open spec fn ct_of_seg(seg: Seq<char>) -> Option<ContentType> {
    if seg == "text/css"@ { Some(ContentType::Css) }
    else if seg == "text/csv"@ { Some(ContentType::Csv) }
    else if seg == "text/event-stream"@ { Some(ContentType::EventStream) }
    else if seg == "application/x-www-form-urlencoded"@ { Some(ContentType::FormUrlEncoded) }
    else if seg == "image/gif"@ { Some(ContentType::Gif) }
    else if seg == "text/html"@ { Some(ContentType::Html) }
    else if seg == "text/javascript"@ { Some(ContentType::JavaScript) }
    else if seg == "image/jpeg"@ { Some(ContentType::Jpeg) }
    else if seg == "application/json"@ { Some(ContentType::Json) }
    else if seg == "text/markdown"@ { Some(ContentType::Markdown) }
    else if seg == "multipart/form-data"@ { Some(ContentType::MultipartForm) }
    else if seg == ""@ { Some(ContentType::None) }
    else if seg == "application/octet-stream"@ { Some(ContentType::OctetStream) }
    else if seg == "application/pdf"@ { Some(ContentType::Pdf) }
    else if seg == "text/plain"@ { Some(ContentType::PlainText) }
    else if seg == "image/png"@ { Some(ContentType::Png) }
    else if seg == "image/svg+xml"@ { Some(ContentType::Svg) }
    else { None }
}
// the media type of each named variant, without parameters
pub open spec fn media_of(ct: ContentType) -> Seq<char> {
    match ct {
        ContentType::Css => "text/css"@, ContentType::Csv => "text/csv"@, ContentType::EventStream => "text/event-stream"@,
        ContentType::FormUrlEncoded => "application/x-www-form-urlencoded"@, ContentType::Gif => "image/gif"@, ContentType::Html => "text/html"@,
        ContentType::JavaScript => "text/javascript"@, ContentType::Jpeg => "image/jpeg"@, ContentType::Json => "application/json"@,
        ContentType::Markdown => "text/markdown"@, ContentType::MultipartForm => "multipart/form-data"@, ContentType::None => ""@,
        ContentType::OctetStream => "application/octet-stream"@, ContentType::Pdf => "application/pdf"@, ContentType::PlainText => "text/plain"@,
        ContentType::Png => "image/png"@, ContentType::Svg => "image/svg+xml"@,
        ContentType::Str(s) => s@, ContentType::String(s) => s@,
    }
}
pub open spec fn named(ct: ContentType) -> bool { !(ct is Str) && !(ct is String) }
