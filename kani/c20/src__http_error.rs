    use crate::response::ResponseKind;
    use crate::ResponseBody;

    fn body_is(r: &Response, want: &[u8]) -> bool {
        match &r.body {
            ResponseBody::StaticStr(s) => s.as_bytes() == want,
            ResponseBody::StaticBytes(b) => *b == want,
            ResponseBody::Vec(v) => v.as_slice() == want,
            _ => false,
        }
    }
    fn sym_string() -> String {
        // arbitrary text of 0..=2 arbitrary Unicode scalar values (CR, LF, '/', ... included);
        // the mapping never inspects the payload, so its length is immaterial
        let mut s = String::new();
        if kani::any() { s.push(kani::any::<char>()); }
        if kani::any() { s.push(kani::any::<char>()); }
        s
    }
    fn client(e: HttpError, code: u16, body: &[u8]) {
        assert!(!e.is_server_error());
        let r: Response = e.into();
        assert!(r.kind == ResponseKind::Normal && r.code == code);
        assert!(body_is(&r, body), "diagnostic names only the error kind");
    }
    fn server(e: HttpError) {
        // (is_server_error() is true for all of these except TimerThreadNotStarted -- see not_covered)
        let classified = e.is_server_error();
        assert!(classified || e == HttpError::TimerThreadNotStarted);
        let r: Response = e.into();
        assert!(r.kind == ResponseKind::Normal && r.code == 500);
        assert!(body_is(&r, b"Internal server error"), "500 body never carries the underlying error text");
    }

    // @harness class=complete
    #[kani::proof]
    fn c20_client_errors() {
        client(HttpError::BodyNotUtf8, 400, b"HttpError::BodyNotUtf8");
        client(HttpError::InvalidContentLength, 400, b"HttpError::InvalidContentLength");
        client(HttpError::MalformedCookieHeader, 400, b"HttpError::MalformedCookieHeader");
        client(HttpError::MalformedHeaderLine, 400, b"HttpError::MalformedHeaderLine");
        client(HttpError::MalformedPath, 400, b"HttpError::MalformedPath");
        client(HttpError::MalformedRequestLine, 400, b"HttpError::MalformedRequestLine");
        client(HttpError::MissingRequestLine, 400, b"HttpError::MissingRequestLine");
        client(HttpError::Truncated, 400, b"HttpError::Truncated");
        client(HttpError::UnsupportedTransferEncoding, 400, b"HttpError::UnsupportedTransferEncoding");
        client(HttpError::BodyTooLong, 413, b"Uploaded data is too big.");
        client(HttpError::HeadTooLong, 431, b"HttpError::HeadTooLong");
        client(HttpError::UnsupportedProtocol, 505, b"HttpError::UnsupportedProtocol");
    }

    // @harness class=complete
    #[kani::proof]
    fn c20_disconnected_drops() {
        let r: Response = HttpError::Disconnected.into();
        assert!(r.kind == ResponseKind::DropConnection);
    }

    // @harness class=complete
    #[kani::proof]
    fn c20_server_errors_fixed() {
        server(HttpError::AlreadyGotBody);
        server(HttpError::BodyNotAvailable);
        server(HttpError::BodyNotRead);
        server(HttpError::CacheDirNotConfigured);
        server(HttpError::DuplicateContentLengthHeader);
        server(HttpError::DuplicateContentTypeHeader);
        server(HttpError::DuplicateTransferEncodingHeader);
        server(HttpError::HandlerDeadlineExceeded);
        server(HttpError::ResponseAlreadySent);
        server(HttpError::ResponseNotSent);
        server(HttpError::TimerThreadNotStarted);
        server(HttpError::UnwritableResponse);
    }

    // `format!` is stubbed (std::fmt is far beyond CBMC's budget): a mapping that formats the payload
    // into the body then yields this marker text, which the assertions below reject all the same
    fn stub_format(_args: std::fmt::Arguments<'_>) -> String { String::from("<formatted text>") }

    fn sym_kind() -> ErrorKind {
        match kani::any::<u8>() % 8 {
            0 => ErrorKind::NotFound, 1 => ErrorKind::PermissionDenied, 2 => ErrorKind::StorageFull,
            3 => ErrorKind::QuotaExceeded, 4 => ErrorKind::FileTooLarge, 5 => ErrorKind::UnexpectedEof,
            6 => ErrorKind::InvalidData, _ => ErrorKind::Other,
        }
    }
    // payload-carrying variants: the response is independent of the (arbitrary) payload text and kind
    // @harness class=complete
    #[kani::proof]
    #[kani::stub(alloc::fmt::format, stub_format)]
    #[kani::unwind(48)]   // strings here are <= 21 bytes; unwinding assertions stay on, so passing means complete
    fn c20_server_errors_payload() {
        let kind = sym_kind();
        match kani::any::<u8>() % 3 {
            0 => server(HttpError::ErrorReadingFile(kind, sym_string())),
            1 => server(HttpError::ErrorReadingResponseBody(kind, sym_string())),
            _ => server(HttpError::ErrorSavingFile(kind, sym_string())),
        }
    }

    // HeadError -> HttpError table
    // @harness class=complete
    #[kani::proof]
    fn c20_head_error_table() {
        assert!(HttpError::from(HeadError::Truncated) == HttpError::Truncated);
        assert!(HttpError::from(HeadError::MissingRequestLine) == HttpError::MissingRequestLine);
        assert!(HttpError::from(HeadError::MalformedRequestLine) == HttpError::MalformedRequestLine);
        assert!(HttpError::from(HeadError::MalformedPath) == HttpError::MalformedPath);
        assert!(HttpError::from(HeadError::UnsupportedProtocol) == HttpError::UnsupportedProtocol);
        assert!(HttpError::from(HeadError::MalformedHeader) == HttpError::MalformedHeaderLine);
    }
