// ---- what the contracts add up to (C18: "delivered to the logger installed at that moment, or to the stdout default when
// none is")
// installing over nothing / over the default, then asking for the logger: the one installed, unchanged
pub proof fn thm_installed_is_used(before: GlobalLoggerState, s: SyncSender<LogEvent>, after_set: GlobalLoggerState, after_get: GlobalLoggerState)
    requires
        !(before is Some),
        // set_global_logger's contract (r is Ok)
        after_set == GlobalLoggerState::Some(s),
        // region_ensure_logger's contract
        !(after_get is None), !(after_set is None) ==> after_get == after_set,
    ensures sender_of(after_get) == Some(s), after_get is Some
{}
// a release is possible after any number of logging calls: the state a successful install leaves is the one release needs
pub proof fn thm_release_after_use(after_set: GlobalLoggerState, s: SyncSender<LogEvent>, after_get: GlobalLoggerState)
    requires after_set == GlobalLoggerState::Some(s), !(after_set is None) ==> after_get == after_set
    ensures after_get is Some
{}
fn canary_set_twice(s1: SyncSender<LogEvent>, s2: SyncSender<LogEvent>, st: &mut GlobalLoggerState)
    requires *old(st) is None
{
    let a = set_global_logger(s1, st);
    let b = set_global_logger(s2, st);
    assert(a is Ok && b is Err);
    assert(false);
}
