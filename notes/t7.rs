use vstd::prelude::*;
use std::ops::Add;
use std::time::Duration;
verus! {
pub uninterp spec fn dur_secs(d: Duration) -> u64;
pub assume_specification [std::time::Duration::as_secs] (d: &std::time::Duration) -> (r: u64) ensures r == dur_secs(*d);
pub struct DateTime { pub sec: i64 }
impl DateTime { pub fn balance(&mut self) {} }
impl Add<Duration> for DateTime {
    type Output = DateTime;

    fn add(self, rhs: Duration) -> Self::Output {
        let mut self_ = self;
        self_.sec += i64::try_from(rhs.as_secs()).unwrap();
        self_.balance();
        self_
    }
}

#[derive(Clone, Debug, Eq, PartialEq)]
pub enum ReadState {
    Head,
    Body {
        len: Option<u64>,
        expect_continue: bool,
        chunked: bool,
        gzip: bool,
    },
    Shutdown,
}
#[derive(Clone, Debug, Eq, PartialEq)]
pub enum WriteState {
    None,
    Response,
    Shutdown,
}
pub enum HttpError { BodyNotAvailable, UnsupportedTransferEncoding, InvalidContentLength, BodyTooLong, Disconnected }
pub struct HttpConn {
    pub read_state: ReadState,
    pub write_state: WriteState,
}
impl HttpConn {
    pub fn is_ready(&self) -> bool {
        self.read_state == ReadState::Head && self.write_state == WriteState::None
    }
    pub fn read_body_to_file(
        &mut self,
        max_len: u64,
    ) -> Result<u64, HttpError> {
        match self.read_state {
            ReadState::Head => Err(HttpError::BodyNotAvailable),
            ReadState::Body { chunked: true, .. } | ReadState::Body { gzip: true, .. } => {
                Err(HttpError::UnsupportedTransferEncoding)
            }
            ReadState::Body {
                len: Some(len),
                chunked: false,
                gzip: false,
                ..
            } if len > max_len => Err(HttpError::BodyTooLong),
            ReadState::Body {
                len: Some(len),
                expect_continue,
                chunked: false,
                gzip: false,
            } => {
                if expect_continue {
                }
                self.read_state = ReadState::Head;
                let len_usize =
                    usize::try_from(len).map_err(|_e| HttpError::InvalidContentLength)?;
                Ok(len)
            }
            ReadState::Body {
                len: None,
                expect_continue,
                chunked: false,
                gzip: false,
            } => {
                self.read_state = ReadState::Shutdown;
                Ok(0)
            }
            ReadState::Shutdown => Err(HttpError::Disconnected),
        }
    }
}
} // verus!
fn main() {}
