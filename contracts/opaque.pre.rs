// url::Url, crate::event::EventReceiver: opaque stand-ins (never inspected by the code under contract)
#[verifier::external_body]
pub struct Url { _p: () }
#[verifier::external_body]
pub struct EventReceiver { _p: () }
