//! C20 bounded stand-in / witness search: the real error-to-response mapping and status helpers on
//! concrete values (all variants x all stable io::ErrorKind values x payload texts), each mapped
//! response additionally serialised with the real write_http_response and parsed back.
use servlin::internal::{write_http_response, HttpError, ResponseKind};
use servlin::{Response, ResponseBody};
use std::io::ErrorKind;
use verif_replay::{block_on, RecWriter};

fn body_bytes(r: &Response) -> Vec<u8> {
    match &r.body {
        ResponseBody::StaticStr(s) => s.as_bytes().to_vec(),
        ResponseBody::StaticBytes(b) => b.to_vec(),
        ResponseBody::Vec(v) => v.clone(),
        _ => b"<non-memory body>".to_vec(),
    }
}
fn kinds() -> Vec<ErrorKind> {
    use ErrorKind::*;
    vec![NotFound, PermissionDenied, ConnectionRefused, ConnectionReset, HostUnreachable, NetworkUnreachable, ConnectionAborted,
         NotConnected, AddrInUse, AddrNotAvailable, NetworkDown, BrokenPipe, AlreadyExists, WouldBlock, NotADirectory, IsADirectory,
         DirectoryNotEmpty, ReadOnlyFilesystem, StaleNetworkFileHandle, InvalidInput, InvalidData, TimedOut, WriteZero, StorageFull,
         NotSeekable, QuotaExceeded, FileTooLarge, ResourceBusy, ExecutableFileBusy, Deadlock, CrossesDevices, TooManyLinks,
         ArgumentListTooLong, Interrupted, Unsupported, UnexpectedEof, OutOfMemory, Other]
}
fn payloads() -> Vec<String> {
    vec![String::new(), "No space left on device (os error 28)".into(), "/var/cache/upload/abc123".into(), "a\r\nInjected: yes\r\n\r\n".into(), "\u{e9}\u{1F600}".into()]
}
fn check_one(desc: &str, e: HttpError, want_code: u16, want_body: &[u8], payload: &str) -> Option<String> { check_resp(desc, e.into(), want_code, want_body, payload) }
fn check_resp(desc: &str, r: Response, want_code: u16, want_body: &[u8], payload: &str) -> Option<String> {
    if r.kind != ResponseKind::Normal || r.code != want_code || body_bytes(&r) != want_body {
        return Some(format!("map {desc} expected={want_code}/{:?} actual={}/{:?}", String::from_utf8_lossy(want_body), r.code, String::from_utf8_lossy(&body_bytes(&r))));
    }
    if !payload.is_empty() && String::from_utf8_lossy(&body_bytes(&r)).contains(payload) {
        return Some(format!("map {desc} expected=no-payload-text-in-body actual=leaked"));
    }
    // serialise: 5xx must carry connection: close when sent with close = (code in 500..=599)
    let close = (500..=599).contains(&r.code);
    let mut w = RecWriter::new();
    if block_on(write_http_response(&mut w, &r, close)).is_err() { return Some(format!("map {desc} expected=serialisable actual=error")); }
    let text = String::from_utf8_lossy(&w.out).to_string();
    let head = text.split("\r\n\r\n").next().unwrap_or("");
    if !head.starts_with(&format!("HTTP/1.1 {want_code} ")) { return Some(format!("map {desc} expected=status-line-{want_code} actual={:?}", head.lines().next())); }
    let has_close = head.lines().any(|l| l.eq_ignore_ascii_case("connection: close"));
    if has_close != close { return Some(format!("map {desc} expected=connection-close={close} actual={has_close}")); }
    None
}
fn run_all() -> (u64, Vec<String>) {
    let mut n = 0;
    let mut found = Vec::new();
    let mut push = |r: Option<String>, n: &mut u64| { *n += 1; if let Some(m) = r { if found.len() < 5 { found.push(m) } } };
    let client: Vec<(HttpError, u16, &str)> = vec![
        (HttpError::BodyNotUtf8, 400, "HttpError::BodyNotUtf8"), (HttpError::InvalidContentLength, 400, "HttpError::InvalidContentLength"),
        (HttpError::MalformedCookieHeader, 400, "HttpError::MalformedCookieHeader"), (HttpError::MalformedHeaderLine, 400, "HttpError::MalformedHeaderLine"),
        (HttpError::MalformedPath, 400, "HttpError::MalformedPath"), (HttpError::MalformedRequestLine, 400, "HttpError::MalformedRequestLine"),
        (HttpError::MissingRequestLine, 400, "HttpError::MissingRequestLine"), (HttpError::Truncated, 400, "HttpError::Truncated"),
        (HttpError::UnsupportedTransferEncoding, 400, "HttpError::UnsupportedTransferEncoding"), (HttpError::BodyTooLong, 413, "Uploaded data is too big."),
        (HttpError::HeadTooLong, 431, "HttpError::HeadTooLong"), (HttpError::UnsupportedProtocol, 505, "HttpError::UnsupportedProtocol"),
    ];
    for (e, c, b) in client { push(check_one(&format!("variant={e:?}"), e, c, b.as_bytes(), ""), &mut n); }
    let server = vec![HttpError::AlreadyGotBody, HttpError::BodyNotAvailable, HttpError::BodyNotRead, HttpError::CacheDirNotConfigured,
        HttpError::DuplicateContentLengthHeader, HttpError::DuplicateContentTypeHeader, HttpError::DuplicateTransferEncodingHeader,
        HttpError::HandlerDeadlineExceeded, HttpError::ResponseAlreadySent, HttpError::ResponseNotSent, HttpError::TimerThreadNotStarted, HttpError::UnwritableResponse];
    for e in server { push(check_one(&format!("variant={e:?}"), e, 500, b"Internal server error", ""), &mut n); }
    for (ki, k) in kinds().into_iter().enumerate() {
        for (pi, p) in payloads().into_iter().enumerate() {
            for v in 0..3 {
                let e = match v { 0 => HttpError::ErrorReadingFile(k, p.clone()), 1 => HttpError::ErrorReadingResponseBody(k, p.clone()), _ => HttpError::ErrorSavingFile(k, p.clone()) };
                push(check_one(&format!("variant={v} kind={ki} payload={pi} ({k:?})"), e, 500, b"Internal server error", &p), &mut n);
            }
        }
    }
    // an I/O error a handler hands back with `?` (body conversions, file access): only undecodable data is the client's
    // fault (400, fixed text); everything else is a 500 whose body is the fixed text -- never the error's own text
    for (ki, k) in kinds().into_iter().enumerate() {
        let (wc, wb): (u16, &[u8]) = if k == ErrorKind::InvalidData { (400, b"Bad request") } else { (500, b"Internal server error") };
        for (pi, p) in payloads().into_iter().enumerate() {
            let r: Response = std::io::Error::new(k, p.clone()).into();
            push(check_resp(&format!("ioerror kind={ki} payload={pi} ({k:?})"), r, wc, wb, &p), &mut n);
        }
        let r: Response = std::io::Error::from(k).into();
        push(check_resp(&format!("ioerror kind={ki} simple ({k:?})"), r, wc, wb, &std::io::Error::from(k).to_string()), &mut n);
    }
    for os in [2i32, 13, 22, 28, 36] {
        let e = std::io::Error::from_raw_os_error(os);
        let text = e.to_string();
        let (wc, wb): (u16, &[u8]) = if e.kind() == ErrorKind::InvalidData { (400, b"Bad request") } else { (500, b"Internal server error") };
        let r: Response = e.into();
        push(check_resp(&format!("ioerror os={os}"), r, wc, wb, &text), &mut n);
    }
    let r: Response = HttpError::Disconnected.into();
    push(if r.kind == ResponseKind::DropConnection { None } else { Some("map variant=Disconnected expected=DropConnection actual=other".into()) }, &mut n);
    // status-named constructors reachable without arguments + close marking for every code
    let ctors: Vec<(&str, Response, u16)> = vec![("ok_200", Response::ok_200(), 200), ("no_content_204", Response::no_content_204(), 204),
        ("unauthorized_401", Response::unauthorized_401(), 401), ("forbidden_403", Response::forbidden_403(), 403), ("not_found_404", Response::not_found_404(), 404),
        ("length_required_411", Response::length_required_411(), 411), ("payload_too_large_413", Response::payload_too_large_413(), 413),
        ("too_many_requests_429", Response::too_many_requests_429(), 429), ("internal_server_error_500", Response::internal_server_error_500(), 500),
        ("not_implemented_501", Response::not_implemented_501(), 501), ("service_unavailable_503", Response::service_unavailable_503(), 503),
        ("redirect_301", Response::redirect_301("/a"), 301), ("redirect_303", Response::redirect_303("/a"), 303),
        ("method_not_allowed_405", Response::method_not_allowed_405(&["GET"]), 405), ("unprocessable_entity_422", Response::unprocessable_entity_422("x"), 422)];
    for (name, r, code) in ctors {
        push(if r.code == code && r.kind == ResponseKind::Normal { None } else { Some(format!("ctor name={name} expected={code} actual={}", r.code)) }, &mut n);
    }
    // every 5xx response that is SENT is marked `connection: close`: the real server over loopback, error paths of the
    // per-connection loop (bad protocol version -> 505, ...) and handler-made responses of every class
    let (wn, wf) = wire_checks();
    n += wn;
    for f in wf { if found.len() < 8 { found.push(f) } }
    (n, found)
}
fn wire_checks() -> (u64, Vec<String>) {
    use std::io::{Read, Write};
    let mut n = 0u64; let mut found = Vec::new();
    safina::timer::start_timer_thread();
    let permit = permit::Permit::new();
    let exec = safina::executor::Executor::new(1, 2).unwrap();
    let handler = |req: servlin::Request| -> Response {
        let code: u16 = req.url().path().trim_start_matches('/').parse().unwrap_or(200);
        if code == 999 { panic!("handler panic") }
        // a handler that stamps its own Connection header on everything it returns
        if req.url().query() == Some("k") { return Response::text(code, "x").with_header("Connection", "keep-alive".try_into().unwrap()); }
        Response::text(code, "x")
    };
    let (addr, _stopped) = match exec.block_on(servlin::HttpServerBuilder::new().listen_addr(servlin::socket_addr_127_0_0_1_any_port()).max_conns(10).small_body_len(100).permit(permit.new_sub()).spawn(handler)) {
        Ok(x) => x, Err(e) => return (1, vec![format!("wire server expected=starts actual={e:?}")]) };
    let mut reqs: Vec<(String, Vec<u8>)> = Vec::new();
    for code in [0u16, 1, 42, 99, 200, 204, 301, 404, 499, 500, 501, 503, 505, 550, 599, 600, 999, 5000, 9999] { reqs.push((format!("handler{code}"), format!("GET /{code} HTTP/1.1\r\n\r\n").into_bytes())); }
    for code in [200u16, 500, 503, 599] { reqs.push((format!("handler{code}-own-connection-header"), format!("GET /{code}?k HTTP/1.1\r\n\r\n").into_bytes())); }
    reqs.push(("http10".into(), b"GET / HTTP/1.0\r\n\r\n".to_vec()));
    reqs.push(("http2".into(), b"GET / HTTP/2.0\r\n\r\n".to_vec()));
    reqs.push(("badline".into(), b"GET\r\n\r\n".to_vec()));
    reqs.push(("badheader".into(), b"GET / HTTP/1.1\r\nbad header\r\n\r\n".to_vec()));
    reqs.push(("toolong".into(), { let mut v = b"GET / HTTP/1.1\r\nx: ".to_vec(); v.extend(vec![b'a'; 70000]); v.extend_from_slice(b"\r\n\r\n"); v }));
    reqs.push(("chunked-body".into(), b"POST /200 HTTP/1.1\r\ntransfer-encoding: chunked\r\n\r\n3\r\nabc\r\n0\r\n\r\n".to_vec()));
    reqs.push(("big-body-no-cache-dir".into(), { let mut v = b"POST /200 HTTP/1.1\r\ncontent-length: 500\r\n\r\n".to_vec(); v.extend(vec![b'b'; 500]); v }));
    reqs.push(("dup-length".into(), b"POST /200 HTTP/1.1\r\ncontent-length: 1\r\ncontent-length: 1\r\n\r\na".to_vec()));
    for (name, msg) in reqs {
        n += 1;
        let mut out = Vec::new();
        if let Ok(mut c) = std::net::TcpStream::connect_timeout(&addr, std::time::Duration::from_secs(2)) {
            let _ = c.set_read_timeout(Some(std::time::Duration::from_secs(5)));
            let _ = c.write_all(&msg);
            let _ = c.shutdown(std::net::Shutdown::Write);
            let _ = c.read_to_end(&mut out);
        }
        let text = String::from_utf8_lossy(&out).to_string();
        // every status line on the wire, with the head that follows it
        for (i, _) in text.match_indices("HTTP/1.1 ") {
            let head = text[i..].split("\r\n\r\n").next().unwrap_or("");
            let code: u16 = head[9..].split(|c: char| c == ' ' || c == '\r').next().and_then(|c| c.parse().ok()).unwrap_or(0);
            let marked = head.to_ascii_lowercase().split("\r\n").any(|l| l.replace(' ', "") == "connection:close");
            if (500..=599).contains(&code) && !marked { found.push(format!("wire request={name} expected=connection: close on the {code} response actual=head {head:?}")); }
        }
    }
    (n, found)
}
fn main() {
    std::panic::set_hook(Box::new(|_| {}));
    let args: Vec<String> = std::env::args().collect();
    let (n, found) = run_all();
    if args.len() >= 3 && args[1] == "replay" {
        // witnesses are identified by their text; replay = the same finding still appears
        let w = args[2..].join(" ");
        let key = w.split(" expected=").next().unwrap_or("").to_string();
        let all = { let mut v = Vec::new(); let (_, f) = run_all(); v.extend(f); v };
        if all.iter().any(|m| m.starts_with(&key)) { println!("WITNESS {w}"); std::process::exit(1) }
        println!("OK witness no longer fails"); std::process::exit(0)
    }
    println!("EVALUATED {n}");
    for f in &found { println!("WITNESS {f}"); }
    std::process::exit(if found.is_empty() { 0 } else { 1 });
}
