// smoke caller: every precondition above is satisfiable, and the contracts compose.
fn smoke_time() {
    let a = is_leap_year(2024);
    assert(a);
    let b = year_len_days(1900);
    assert(b == 365);
    let c = month_len_days(2000, 2);
    assert(c == 29);
    let dt = DateTime::new(86399);
    assert(valid(dt));
}
