//! C02 bounded stand-in / witness search: real `Head::try_read` on heads built from request lines and
//! field lines, against a hand-written RFC 7230 section 3 recogniser (no regular expressions).
use fixed_buffer::FixedBuf;
use servlin::internal::{Head, HeadError};

fn is_tchar(b: u8) -> bool { b.is_ascii_alphanumeric() || b"!#$%&'*+-.^_`|~".contains(&b) }
fn is_ws4(b: u8) -> bool { b == b' ' || b == b'\t' || b == b'\r' || b == b'\n' }
/// reference for a field line (no line terminator inside): Ok((name, value)) or Err(())
fn ref_field(line: &[u8]) -> Result<(Vec<u8>, Vec<u8>), ()> {
    let colon = line.iter().position(|&b| b == b':').ok_or(())?;
    let name = &line[..colon];
    if name.is_empty() || !name.iter().all(|&b| is_tchar(b)) { return Err(()); }
    let mut v = &line[colon + 1..];
    while let Some((&f, rest)) = v.split_first() { if is_ws4(f) { v = rest } else { break } }
    while let Some((&l, rest)) = v.split_last() { if is_ws4(l) { v = rest } else { break } }
    if !v.is_ascii() { return Err(()); } // the library documents ASCII header values
    Ok((name.to_vec(), v.to_vec()))
}
#[derive(Debug, PartialEq)]
enum ReqRef { Ok(Vec<u8>, Vec<u8>), MalformedRequestLine, MalformedPath, UnsupportedProtocol }
fn ref_request(line: &[u8]) -> ReqRef {
    let parts: Vec<&[u8]> = line.split(|&b| b == b' ').collect();
    let bad = |p: &[u8]| p.is_empty() || p.iter().any(|&b| b == b'\t' || b == b'\r' || b == b'\n');
    if parts.len() != 3 || parts[0].is_empty() || !parts[0].iter().all(|&b| is_tchar(b)) || bad(parts[1]) || bad(parts[2]) { return ReqRef::MalformedRequestLine; }
    if std::str::from_utf8(parts[1]).is_err() || parts[1][0] != b'/' { return ReqRef::MalformedPath; }
    if parts[2] != b"HTTP/1.1" { return ReqRef::UnsupportedProtocol; }
    ReqRef::Ok(parts[0].to_vec(), parts[1].to_vec())
}
fn try_read(head: &[u8]) -> Result<Result<Head, HeadError>, ()> {
    std::panic::catch_unwind(|| { let mut b: FixedBuf<4096> = FixedBuf::new(); b.write_bytes(head).unwrap(); Head::try_read(&mut b) }).map_err(|_| ())
}
fn check_field(line: &[u8]) -> Option<String> {
    let mut head = b"M / HTTP/1.1\r\n".to_vec(); head.extend_from_slice(line); head.extend_from_slice(b"\r\n\r\n");
    let desc = format!("field line={}", hex(line));
    let want = ref_field(line);
    match try_read(&head) {
        Err(()) => Some(format!("{desc} expected={} actual=panic", if want.is_ok() { "accepted" } else { "MalformedHeader" })),
        Ok(Ok(h)) => match want {
            Err(()) => Some(format!("{desc} expected=MalformedHeader actual=accepted({:?})", h.headers)),
            Ok((n, v)) => { let hs = &h.headers; if hs.len() == 1 && hs[0].name.as_bytes() == n && hs[0].value.as_bytes() == v { None } else { Some(format!("{desc} expected=name/value={:?}/{:?} actual={:?}", String::from_utf8_lossy(&n), String::from_utf8_lossy(&v), hs)) } }
        },
        Ok(Err(HeadError::MalformedHeader)) => if want.is_err() { None } else { Some(format!("{desc} expected=accepted actual=MalformedHeader")) },
        Ok(Err(e)) => Some(format!("{desc} expected={} actual={e:?}", if want.is_ok() { "accepted" } else { "MalformedHeader" })),
    }
}
/// several field lines in one head: the head is accepted iff every line is within the grammar, and then the fields are
/// exactly the lines' fields in order -- a line is never folded into its neighbour, skipped or repaired
fn check_fields(lines: &[&[u8]]) -> Option<String> { check_fields_lf(lines, 0) }
/// `lfmask` bit i: line i (not the last one) ends with a bare LF instead of CRLF -- a line ends at every LF (one CR before
/// it dropped), so the fields are the same
fn check_fields_lf(lines: &[&[u8]], lfmask: u32) -> Option<String> {
    let mut head = b"M / HTTP/1.1\r\n".to_vec();
    for (i, l) in lines.iter().enumerate() { head.extend_from_slice(l); head.extend_from_slice(if i + 1 < lines.len() && (lfmask >> i) & 1 == 1 { b"\n" } else { b"\r\n" }); }
    head.extend_from_slice(b"\r\n");
    let desc = if lfmask == 0 { format!("fields lines={}", lines.iter().map(|l| hex(l)).collect::<Vec<_>>().join(",")) } else { format!("fields lines={} lfmask={lfmask}", lines.iter().map(|l| hex(l)).collect::<Vec<_>>().join(",")) };
    let want: Result<Vec<(Vec<u8>, Vec<u8>)>, ()> = lines.iter().map(|l| ref_field(l)).collect();
    match try_read(&head) {
        Err(()) => Some(format!("{desc} expected={} actual=panic", if want.is_ok() { "accepted" } else { "MalformedHeader" })),
        Ok(Ok(h)) => match want {
            Err(()) => Some(format!("{desc} expected=MalformedHeader actual=accepted({:?})", h.headers)),
            Ok(w) => { let got: Vec<(Vec<u8>, Vec<u8>)> = h.headers.iter().map(|x| (x.name.as_bytes().to_vec(), x.value.as_bytes().to_vec())).collect();
                if got == w { None } else { Some(format!("{desc} expected={} fields in order actual={:?}", w.len(), h.headers)) } }
        },
        Ok(Err(HeadError::MalformedHeader)) => if want.is_err() { None } else { Some(format!("{desc} expected=accepted actual=MalformedHeader")) },
        Ok(Err(e)) => Some(format!("{desc} expected={} actual={e:?}", if want.is_ok() { "accepted" } else { "MalformedHeader" })),
    }
}
fn check_request(line: &[u8]) -> Option<String> {
    let mut head = line.to_vec(); head.extend_from_slice(b"\r\n\r\n");
    let desc = format!("request line={}", hex(line));
    let want = ref_request(line);
    match try_read(&head) {
        Err(()) => Some(format!("{desc} expected={want:?} actual=panic")),
        Ok(r) => {
            let got = match &r { Ok(h) => ReqRef::Ok(h.method.as_bytes().to_vec(), Vec::new()), Err(HeadError::MalformedRequestLine) => ReqRef::MalformedRequestLine,
                Err(HeadError::MalformedPath) => ReqRef::MalformedPath, Err(HeadError::UnsupportedProtocol) => ReqRef::UnsupportedProtocol, Err(e) => return Some(format!("{desc} expected={want:?} actual={e:?}")) };
            let same = match (&got, &want) { (ReqRef::Ok(m, _), ReqRef::Ok(wm, wp)) => m == wm && r.as_ref().unwrap().url.path().as_bytes().len() <= wp.len() * 3 + 1, (a, b) => std::mem::discriminant(a) == std::mem::discriminant(b) };
            // url crate may reject some origin-form targets (implementation-free): MalformedPath for a well-formed line is tolerated
            if same || (matches!(want, ReqRef::Ok(..)) && matches!(got, ReqRef::MalformedPath)) { None } else { Some(format!("{desc} expected={want:?} actual={got:?}")) }
        }
    }
}
/// A well-formed head followed by `tail`, delivered through the real read_http_head in pieces cut at `cuts`: the parsed
/// head must expose exactly the method, target and fields sent (names verbatim, values OWS-stripped, in order) and the
/// bytes after the head must still be there for the next message -- however the bytes were split.
fn check_stream(head_idx: usize, cuts: &[usize]) -> Option<String> {
    use verif_replay::{block_on, ScriptReader, Step};
    let heads: [(&str, &str, &[(&str, &str, &str)]); 3] = [
        ("GET", "/a/b?x=1&y=2", &[("Host", " ", "example.com"), ("x-Custom_1", "\t ", "v 1\tz"), ("Accept", "", "*/*"), ("x-Custom_1", " ", "second")]),
        ("POST", "/", &[("content-length", " ", "3")]),
        ("M", "/p", &[]),
    ];
    let (method, target, fields) = heads[head_idx % heads.len()];
    let tail: &[u8] = if head_idx % 2 == 0 { b"GET /next HTTP/1.1\r\n\r\n" } else { b"abcNEXT" };
    let mut msg = format!("{method} {target} HTTP/1.1\r\n").into_bytes();
    for (n, ows, v) in fields { msg.extend_from_slice(format!("{n}:{ows}{v}{}\r\n", if v.len() % 2 == 0 { " " } else { "" }).as_bytes()); }
    msg.extend_from_slice(b"\r\n");
    let head_len = msg.len();
    msg.extend_from_slice(tail);
    let desc = format!("stream head={head_idx} cuts={cuts:?}");
    let mut steps = Vec::new();
    let mut prev = 0;
    for &c in cuts { if c > prev && c < msg.len() { steps.push(Step::Data(msg[prev..c].to_vec())); prev = c; } }
    steps.push(Step::Data(msg[prev..].to_vec()));
    steps.push(Step::Eof);
    let r = std::panic::catch_unwind(|| {
        let mut buf: FixedBuf<4096> = FixedBuf::new();
        let mut rd = ScriptReader::new(steps);
        let res = block_on(servlin::internal::read_http_head(&mut buf, &mut rd));
        // what is still available for the next message: buffered bytes + what the reader has not delivered yet
        let mut rest = buf.readable().to_vec();
        for st in rd.steps.iter() { if let Step::Data(d) = st { rest.extend_from_slice(d) } }
        (res, rest)
    });
    let (res, rest) = match r { Ok(x) => x, Err(_) => return Some(format!("{desc} expected=parsed actual=panic")) };
    let h = match res { Ok(h) => h, Err(e) => return Some(format!("{desc} expected=parsed actual={e:?}")) };
    let got_target = format!("{}{}", h.url.path(), h.url.query().map(|q| format!("?{q}")).unwrap_or_default());
    if h.method != method || got_target != target { return Some(format!("{desc} expected={method} {target} actual={} {got_target}", h.method)); }
    let want: Vec<(String, String)> = fields.iter().map(|(n, _, v)| (n.to_string(), v.to_string())).collect();
    let got: Vec<(String, String)> = h.headers.iter().map(|x| (x.name.as_str().to_string(), x.value.as_str().to_string())).collect();
    if got != want { return Some(format!("{desc} expected=fields{want:?} actual=fields{got:?}")); }
    if rest != msg[head_len..] { return Some(format!("{desc} expected=rest{:?} actual=rest{:?}", String::from_utf8_lossy(&msg[head_len..]), String::from_utf8_lossy(&rest))); }
    None
}
/// the whole request reader: the fields that are not consumed (Content-Type, Expect, Transfer-Encoding are) reach the handler
/// in the order sent, values intact -- wherever the consumed ones stood
fn check_request_order(perm: usize) -> Option<String> {
    use verif_replay::{block_on, ScriptReader, Step};
    let consumed: [(&str, &str); 3] = [("Content-Type", "text/plain"), ("Expect", "100-continue"), ("Transfer-Encoding", "gzip")];
    let kept: [(&str, &str); 5] = [("Via", "1.1 first"), ("X-Mid", "m"), ("Via", "1.1 second"), ("x-last", "z"), ("Via", "1.1 third")];
    // position of each consumed field among the kept ones: perm encodes three positions 0..=5
    let pos = [perm % 6, (perm / 6) % 6, (perm / 36) % 6];
    let mut lines: Vec<(String, String)> = Vec::new();
    for k in 0..=5usize { for (ci, c) in consumed.iter().enumerate() { if pos[ci] == k { lines.push((c.0.to_string(), c.1.to_string())); } } if k < 5 { lines.push((kept[k].0.to_string(), kept[k].1.to_string())); } }
    let mut msg = b"GET /p?q=1 HTTP/1.1\r\n".to_vec();
    for (n, v) in &lines { msg.extend_from_slice(format!("{n}: {v}\r\n").as_bytes()); }
    msg.extend_from_slice(b"\r\n");
    let desc = format!("reqorder perm={perm}");
    let r = std::panic::catch_unwind(|| {
        let mut buf: FixedBuf<4096> = FixedBuf::new();
        let mut rd = ScriptReader::new(vec![Step::Data(msg.clone()), Step::Eof]);
        block_on(servlin::internal::read_http_request("127.0.0.1:1".parse().unwrap(), &mut buf, &mut rd))
    });
    let req = match r { Err(_) => return Some(format!("{desc} expected=request actual=panic")), Ok(Err(e)) => return Some(format!("{desc} expected=request actual={e:?}")), Ok(Ok(q)) => q };
    let got: Vec<(String, String)> = req.headers.iter().map(|h| (h.name.as_str().to_string(), h.value.as_str().to_string())).collect();
    let want: Vec<(String, String)> = kept.iter().map(|(n, v)| (n.to_string(), v.to_string())).collect();
    if got != want { return Some(format!("{desc} expected=fields in the order sent {want:?} actual={got:?}")); }
    None
}
fn hex(b: &[u8]) -> String { b.iter().map(|x| format!("{x:02x}")).collect() }
fn unhex(s: &str) -> Vec<u8> { (0..s.len() / 2).map(|i| u8::from_str_radix(&s[2 * i..2 * i + 2], 16).unwrap()).collect() }
fn main() {
    std::panic::set_hook(Box::new(|_| {}));
    let args: Vec<String> = std::env::args().collect();
    if args.len() >= 3 && args[1] == "replay" {
        let w = args[2..].join(" ");
        if w.starts_with("stream ") {
            let hi: usize = w.split("head=").nth(1).unwrap().split(' ').next().unwrap().parse().unwrap();
            let cs = w.split("cuts=[").nth(1).unwrap().split(']').next().unwrap();
            let cuts: Vec<usize> = cs.split(',').filter_map(|x| x.trim().parse().ok()).collect();
            match check_stream(hi, &cuts) { Some(m) => { println!("WITNESS {m}"); std::process::exit(1) } None => { println!("OK witness no longer fails"); std::process::exit(0) } }
        }
        if w.starts_with("reqorder ") {
            let p: usize = w.split("perm=").nth(1).unwrap().split(' ').next().unwrap().parse().unwrap();
            match check_request_order(p) { Some(m) => { println!("WITNESS {m}"); std::process::exit(1) } None => { println!("OK witness no longer fails"); std::process::exit(0) } }
        }
        if w.starts_with("fields ") {
            let ls: Vec<Vec<u8>> = w.split("lines=").nth(1).unwrap().split(' ').next().unwrap().split(',').map(unhex).collect();
            let refs: Vec<&[u8]> = ls.iter().map(|l| l.as_slice()).collect();
            let mask: u32 = w.split("lfmask=").nth(1).and_then(|x| x.split(' ').next()).and_then(|x| x.parse().ok()).unwrap_or(0);
            match check_fields_lf(&refs, mask) { Some(m) => { println!("WITNESS {m}"); std::process::exit(1) } None => { println!("OK witness no longer fails"); std::process::exit(0) } }
        }
        let line = unhex(w.split("line=").nth(1).unwrap().split(' ').next().unwrap());
        let r = if w.starts_with("field") { check_field(&line) } else { check_request(&line) };
        match r { Some(m) => { println!("WITNESS {m}"); std::process::exit(1) } None => { println!("OK witness no longer fails"); std::process::exit(0) } }
    }
    let thorough = args.iter().any(|a| a == "--thorough");
    let mut n = 0u64; let mut found = Vec::new();
    // field lines: every single byte in name / separator / value positions, OWS variants
    for b in 0..=255u8 {
        if b == b'\n' { continue; } // LF splits lines: a different line structure, covered by C01's corpus
        for line in [vec![b, b':', b'v'], vec![b'n', b, b':', b'v'], vec![b'n', b':', b, b'v'], vec![b'n', b':', b'v', b], vec![b'n', b':', b'a', b, b'b'], vec![b'n', b, b'v']] {
            if line.ends_with(b"\r") || line.contains(&b'\n') { continue; }
            n += 1; if let Some(m) = check_field(&line) { if found.len() < 6 { found.push(m) } }
        }
        for line in [vec![b, b' ', b'/', b' ', b'H', b'T', b'T', b'P', b'/', b'1', b'.', b'1'], [b"M /".as_slice(), &[b], b" HTTP/1.1"].concat(), [b"M / HTTP/1.".as_slice(), &[b]].concat(), [b"M".as_slice(), &[b], b"/ HTTP/1.1"].concat()] {
            if line.ends_with(b"\r") || line.contains(&b'\n') { continue; }
            n += 1; if let Some(m) = check_request(&line) { if found.len() < 6 { found.push(m) } }
        }
    }
    for line in [&b"n:v"[..], b"n: v", b"n:\tv", b"n: \t v \t ", b"n:", b"n: ", b"Name-1.x:a:b", b"n :v", b" n:v", b":v", b"n", b"n:\x80", b"n:a\x00b", b"n|~:v"] {
        n += 1; if let Some(m) = check_field(line) { if found.len() < 6 { found.push(m) } }
    }
    for line in [&b"GET / HTTP/1.1"[..], b"GET /a?b=c HTTP/1.1", b"get / HTTP/1.1", b"G|T / HTTP/1.1", b"GET  / HTTP/1.1", b"GET / HTTP/1.1 ", b" GET / HTTP/1.1", b"GET a HTTP/1.1", b"GET * HTTP/1.1",
                 b"GET http://x/ HTTP/1.1", b"GET / HTTP/1.0", b"GET / HTTP/2", b"GET /", b"GET", b"", b"GET / HTTP/1.1 x", b"G(T / HTTP/1.1", b"GET /\xff HTTP/1.1", b"GET /%zz HTTP/1.1"] {
        n += 1; if let Some(m) = check_request(line) { if found.len() < 6 { found.push(m) } }
    }
    // the version token: only the eight bytes `HTTP/1.1` name the protocol spoken here (DIGIT "." DIGIT, no sign, no leading zero,
    // no other spelling of the same number); everything else is refused, never read as 1.1
    for v in ["HTTP/1.01", "HTTP/01.1", "HTTP/001.001", "HTTP/+1.1", "HTTP/1.+1", "HTTP/1.1.0", "HTTP/1.10", "HTTP/1,1", "HTTP/1.1\t", "HTTP/1.", "HTTP/.1", "HTTP/1", "HTTP/11", "HTTP/ 1.1",
              "HTTP/1.1a", "http/1.1", "Http/1.1", "HTTP\\1.1", "HTTPS/1.1", "HTTP/1.1/", "HTTP/\u{661}.1", "HTTP/1.\u{661}", "HTTP/0x1.1", "HTTP/1e0.1", "HTTP/1.1\0", "XHTTP/1.1", "", "1.1"] {
        for line in [format!("GET / {v}"), format!("POST /a?b {v}")] { n += 1; if let Some(m) = check_request(line.as_bytes()) { if found.len() < 6 { found.push(m) } } }
    }
    // two and three field lines: every pair from a pool of good and bad lines (leading blank, blank only, no colon, empty)
    // (an empty line would end the head, so it is not in the pool)
    let pool: [&[u8]; 13] = [b"a: 1", b"b:2", b"x-long: v w", b" a: 1", b"\ta: 1", b" ", b"\t", b" \t ", b"nocolon", b":v", b"a :1", b"a: \x80", b"A-b_c: ok "];
    for l1 in pool { for l2 in pool {
        n += 1; if let Some(m) = check_fields(&[l1, l2]) { if found.len() < 6 { found.push(m) } }
        n += 1; if let Some(m) = check_fields_lf(&[l1, l2], 1) { if found.len() < 6 { found.push(m) } }
        for l3 in [&b"z: 9"[..], b" cont"] { for mask in 0..4u32 { n += 1; if let Some(m) = check_fields_lf(&[l1, l2, l3], mask) { if found.len() < 6 { found.push(m) } } } }
    }}
    // whole heads through read_http_head: unsplit, every 2-way split, byte at a time, and (thorough) every 3-way split
    for hi in 0..3usize {
        n += 1; if let Some(m) = check_stream(hi, &[]) { if found.len() < 6 { found.push(m) } }
        for c in 1..140usize { n += 1; if let Some(m) = check_stream(hi, &[c]) { if found.len() < 6 { found.push(m) } } }
        let all: Vec<usize> = (1..140).collect();
        n += 1; if let Some(m) = check_stream(hi, &all) { if found.len() < 6 { found.push(m) } }
        if thorough { for c1 in 1..100usize { for c2 in (c1 + 1)..100usize { n += 1; if let Some(m) = check_stream(hi, &[c1, c2]) { if found.len() < 6 { found.push(m) } } } } }
    }
    for perm in 0..216usize { n += 1; if let Some(m) = check_request_order(perm) { if found.len() < 6 { found.push(m) } } }
    println!("EVALUATED {n}");
    for f in &found { println!("WITNESS {f}"); }
    std::process::exit(if found.is_empty() { 0 } else { 1 });
}
