use std::ops::DerefMut;
// ---- unit tryread: Head::try_read on its real text
// rule S1 stand-in for `head.split(|b| *b == b'\n').map(trim_trailing_cr)` (assumed meaning of slice::split + map): the
// lines of the head -- cut at every LF, one trailing CR removed from each -- in order; a split always yields at least
// one piece.  Returned as a Vec so that Verus' own specification of Vec::into_iter / next / for applies.
pub open spec fn strip_cr(l: Seq<u8>) -> Seq<u8> { if l.len() > 0 && l.last() == 13u8 { l.drop_last() } else { l } }
pub open spec fn cut_lf(s: Seq<u8>) -> Seq<Seq<u8>> decreases s.len() {
    if s.len() == 0 { seq![Seq::<u8>::empty()] }
    else {
        let r = cut_lf(s.drop_last());
        if s.last() == 10u8 { r.push(Seq::<u8>::empty()) } else { r.drop_last().push(r.last().push(s.last())) }
    }
}
pub open spec fn lines_of(s: Seq<u8>) -> Seq<Seq<u8>> { cut_lf(s).map_values(|l: Seq<u8>| strip_cr(l)) }
#[verifier::external_body]
pub fn split_lines_vec<'a>(head: &'a [u8]) -> (r: Vec<&'a [u8]>)
    ensures r@.len() == lines_of(head@).len(), r@.len() >= 1,
        forall|i: int| 0 <= i < r@.len() ==> (#[trigger] r@[i])@ == lines_of(head@)[i]
{ unimplemented!() }

// what a field line parses to (the relation proved for parse_header_line in unit `parse`)
pub open spec fn field_of(h: Header, line: Seq<u8>) -> bool {
    hdr_matches(line) && same_text(h.name.inner()@, hdr_name(line)) && same_text(h.value.inner()@, trim_ws(hdr_value(line)))
}
pub open spec fn field_ok(line: Seq<u8>) -> bool { hdr_matches(line) && ascii_bytes(trim_ws(hdr_value(line))) }
// the contract of try_read over the lines of the head (taken from the property: every field in the order sent, name
// verbatim, value stripped of surrounding whitespace; a line outside the grammar rejects the head, never repaired or skipped)
pub open spec fn parsed_as(r: Result<Head, HeadError>, lines: Seq<Seq<u8>>) -> bool {
    &&& lines.len() >= 1
    &&& r is Ok ==> {
        let h = r->Ok_0;
        &&& req_matches(lines[0]) && req_proto(lines[0]) == http11() && same_text(h.method@, req_method(lines[0]))
        &&& h.headers.0@.len() == lines.len() - 1
        &&& forall|i: int| 0 <= i < h.headers.0@.len() ==> field_of(#[trigger] h.headers.0@[i], lines[i + 1])
    }
    &&& (exists|i: int| 1 <= i < lines.len() && !hdr_matches(#[trigger] lines[i])) ==> r is Err
    &&& !req_matches(lines[0]) ==> r is Err && r->Err_0 is MalformedRequestLine
    &&& r is Err ==> !(r->Err_0 is Truncated) && !(r->Err_0 is MissingRequestLine)
    // a head whose lines are all within the grammar (and whose target the url crate accepts) is not rejected for its fields
    &&& (r is Err && r->Err_0 is MalformedHeader) ==> exists|i: int| 1 <= i < lines.len() && !field_ok(#[trigger] lines[i])
}

// rule S1 stand-in for the reference-literal pattern `if let Some(&b'\r') = bytes.last()` (outside Verus' pattern subset)
#[verifier::external_body]
pub fn last_is_cr(bytes: &[u8]) -> (r: bool)
    ensures r == (bytes@.len() > 0 && bytes@.last() == 13u8)
{ unimplemented!() }

pub assume_specification<T, E> [ Result::<T, E>::unwrap_or ](this: Result<T, E>, default: T) -> (r: T)
    where E: core::marker::Destruct, T: core::marker::Destruct,
    ensures r == (match this { Ok(v) => v, Err(_) => default });
