// ---- unit sse: theorems over the encoder's contract
pub open spec fn valid_type(t: Seq<char>) -> bool { !(t.contains('\r') || t.contains('\n')) }
// the block is complete: it ends with a blank line, so that the client dispatches the event when the block has arrived
pub open spec fn ends_with_blank_line(s: Seq<char>) -> bool { s.len() >= 2 && s[s.len() - 1] == '\n' && s[s.len() - 2] == '\n' }
#[verifier::external_body]
pub proof fn axiom_utf8_len_empty()
    ensures utf8_len(Seq::<char>::empty()) == 0
{}
pub proof fn lemma_lines_nonempty(s: Seq<char>)
    ensures lines_of(s).len() >= 1
    decreases s.len()
{
    let i = first_eol(s);
    lemma_first_eol(s);
    if 0 <= i < s.len() { lemma_lines_nonempty(s.skip(i + eol_width(s, i))); }
}
pub proof fn lemma_fields_len(ls: Seq<Seq<char>>)
    ensures data_fields(ls).len() >= 7 * ls.len(), ls.len() >= 1 ==> data_fields(ls).last() == '\n',
    decreases ls.len()
{
    if ls.len() > 0 { lemma_fields_len(ls.drop_last()); }
}

// ---- an EventSource client, written from the WHATWG text (HTML, 9.2.6 "Interpreting an event stream") over the decoded
// characters of the stream -- independently of the encoder.  Buffers: event type, data, last event id; `retry` stands for
// the reconnection time having been set.
pub struct St { pub ty: Seq<char>, pub data: Seq<char>, pub id: Option<Seq<char>>, pub retry: Option<Seq<char>> }
pub struct Dispatched { pub ty: Seq<char>, pub data: Seq<char>, pub id: Option<Seq<char>> }
pub open spec fn message() -> Seq<char> { seq!['m', 'e', 's', 's', 'a', 'g', 'e'] }
pub open spec fn name_event() -> Seq<char> { seq!['e', 'v', 'e', 'n', 't'] }
pub open spec fn name_data() -> Seq<char> { seq!['d', 'a', 't', 'a'] }
pub open spec fn name_id() -> Seq<char> { seq!['i', 'd'] }
pub open spec fn name_retry() -> Seq<char> { seq!['r', 'e', 't', 'r', 'y'] }
pub open spec fn first_colon(s: Seq<char>) -> int decreases s.len() {
    if s.len() == 0 { 0 } else if s[0] == ':' { 0 } else { 1 + first_colon(s.skip(1)) }
}
pub open spec fn strip_sp(v: Seq<char>) -> Seq<char> { if v.len() > 0 && v[0] == ' ' { v.skip(1) } else { v } }
pub open spec fn field_name(line: Seq<char>) -> Seq<char> { line.take(first_colon(line)) }
pub open spec fn field_value(line: Seq<char>) -> Seq<char> {
    if first_colon(line) < line.len() { strip_sp(line.skip(first_colon(line) + 1)) } else { Seq::empty() }
}
pub open spec fn all_digits(v: Seq<char>) -> bool { forall|i: int| 0 <= i < v.len() ==> 48 <= (#[trigger] v[i]) as u32 <= 57 }
// "process the line": the new buffers and the event dispatched by this line, if any
pub open spec fn step(st: St, line: Seq<char>) -> (St, Option<Dispatched>) {
    if line.len() == 0 {
        // blank line: dispatch -- unless the data buffer is empty, then only the buffers are reset
        if st.data.len() == 0 { (St { ty: Seq::empty(), data: Seq::empty(), ..st }, None) }
        else {
            (St { ty: Seq::empty(), data: Seq::empty(), ..st },
             Some(Dispatched { ty: if st.ty.len() == 0 { message() } else { st.ty },
                               data: if st.data.last() == '\n' { st.data.drop_last() } else { st.data }, id: st.id }))
        }
    } else if line[0] == ':' { (st, None) }   // comment
    else {
        let n = field_name(line);
        let v = field_value(line);
        if n == name_event() { (St { ty: v, ..st }, None) }
        else if n == name_data() { (St { data: st.data + v + lf(), ..st }, None) }
        else if n == name_id() { if v.contains('\0') { (st, None) } else { (St { id: Some(v), ..st }, None) } }
        else if n == name_retry() { if v.len() > 0 && all_digits(v) { (St { retry: Some(v), ..st }, None) } else { (st, None) } }
        else { (st, None) }
    }
}
pub open spec fn prepend(d: Option<Dispatched>, ds: Seq<Dispatched>) -> Seq<Dispatched> { match d { Some(x) => seq![x] + ds, None => ds } }
// the whole stream: lines end at CRLF, LF or CR; at the end of the stream an unfinished line and a pending event are discarded
pub open spec fn run(s: Seq<char>, st: St) -> (Seq<Dispatched>, St) decreases s.len() {
    let i = first_eol(s);
    if 0 <= i < s.len() {
        let (st1, d) = step(st, s.take(i));
        let (ds, st2) = run(s.skip(i + eol_width(s, i)), st1);
        (prepend(d, ds), st2)
    } else { (Seq::empty(), st) }
}

// ---- the proof
pub proof fn lemma_first_eol_at(s: Seq<char>, k: int)
    requires 0 <= k < s.len(), is_eol(s[k]), forall|j: int| 0 <= j < k ==> !is_eol(#[trigger] s[j]),
    ensures first_eol(s) == k
    decreases k
{
    if k > 0 {
        assert(s.skip(1)[k - 1] == s[k]);
        assert forall|j: int| 0 <= j < k - 1 implies !is_eol(#[trigger] s.skip(1)[j]) by { assert(s.skip(1)[j] == s[j + 1]); }
        lemma_first_eol_at(s.skip(1), k - 1);
    }
}
pub proof fn lemma_first_colon_at(s: Seq<char>, k: int)
    requires 0 <= k < s.len(), s[k] == ':', forall|j: int| 0 <= j < k ==> (#[trigger] s[j]) != ':',
    ensures first_colon(s) == k
    decreases k
{
    if k > 0 {
        assert(s.skip(1)[k - 1] == s[k]);
        assert forall|j: int| 0 <= j < k - 1 implies (#[trigger] s.skip(1)[j]) != ':' by { assert(s.skip(1)[j] == s[j + 1]); }
        lemma_first_colon_at(s.skip(1), k - 1);
    }
}
// a line without line ends, followed by LF: the client sees exactly that line, then the rest
pub proof fn lemma_one_line(p: Seq<char>, rest: Seq<char>, st: St)
    requires no_eol(p)
    ensures run(p + lf() + rest, st) == ({ let (st1, d) = step(st, p); let (ds, st2) = run(rest, st1); (prepend(d, ds), st2) })
{
    let s = p + lf() + rest;
    let k = p.len() as int;
    assert(s[k] == '\n');
    assert forall|j: int| 0 <= j < k implies !is_eol(#[trigger] s[j]) by { assert(s[j] == p[j]); }
    lemma_first_eol_at(s, k);
    assert(eol_width(s, k) == 1);
    assert(s.take(k) =~= p);
    assert(s.skip(k + 1) =~= rest);
}
pub proof fn lemma_data_line(l: Seq<char>, st: St)
    ensures step(st, lit_data() + l) == (St { data: st.data + l + lf(), ..st }, None::<Dispatched>)
{
    let line = lit_data() + l;
    assert(line[4] == ':' && line[0] == 'd' && line[1] == 'a' && line[2] == 't' && line[3] == 'a' && line[5] == ' ');
    lemma_first_colon_at(line, 4);
    assert(field_name(line) =~= name_data());
    assert(line.skip(5)[0] == ' ');
    assert(strip_sp(line.skip(5)) =~= l);
    assert(name_data() != name_event()) by { assert(name_data().len() != name_event().len()); }
}
pub proof fn lemma_event_line(t: Seq<char>, st: St)
    ensures step(st, lit_event() + t) == (St { ty: t, ..st }, None::<Dispatched>)
{
    let line = lit_event() + t;
    assert(line[5] == ':' && line[0] == 'e' && line[1] == 'v' && line[2] == 'e' && line[3] == 'n' && line[4] == 't' && line[6] == ' ');
    lemma_first_colon_at(line, 5);
    assert(field_name(line) =~= name_event());
    assert(line.skip(6)[0] == ' ');
    assert(strip_sp(line.skip(6)) =~= t);
}
// the data lines with LF after each (what the client's data buffer holds before the last LF is removed)
pub open spec fn cat_lf(ls: Seq<Seq<char>>) -> Seq<char> decreases ls.len() {
    if ls.len() == 0 { Seq::empty() } else { ls[0] + lf() + cat_lf(ls.skip(1)) }
}
pub open spec fn all_no_eol(ls: Seq<Seq<char>>) -> bool { forall|i: int| 0 <= i < ls.len() ==> no_eol(#[trigger] ls[i]) }
pub proof fn lemma_fields_cons(ls: Seq<Seq<char>>)
    requires ls.len() >= 1
    ensures data_fields(ls) == (lit_data() + ls[0] + lf()) + data_fields(ls.skip(1))
    decreases ls.len()
{
    if ls.len() == 1 {
        assert(ls.drop_last() =~= Seq::<Seq<char>>::empty());
        assert(ls.skip(1) =~= Seq::<Seq<char>>::empty());
        assert(data_fields(ls) =~= (lit_data() + ls[0] + lf()) + data_fields(ls.skip(1)));
    } else {
        lemma_fields_cons(ls.drop_last());
        assert(ls.drop_last().skip(1) =~= ls.skip(1).drop_last());
        assert(ls.drop_last()[0] == ls[0]);
        assert(ls.skip(1).last() == ls.last());
        assert(data_fields(ls) =~= (lit_data() + ls[0] + lf()) + data_fields(ls.skip(1)));
    }
}
pub proof fn lemma_data_fields_read(ls: Seq<Seq<char>>, tail: Seq<char>, st: St)
    requires all_no_eol(ls)
    ensures run(data_fields(ls) + tail, st) == run(tail, St { data: st.data + cat_lf(ls), ..st })
    decreases ls.len()
{
    if ls.len() == 0 {
        assert(data_fields(ls) + tail =~= tail);
        assert(st.data + cat_lf(ls) =~= st.data);
    } else {
        lemma_fields_cons(ls);
        let p = lit_data() + ls[0];
        let rest = data_fields(ls.skip(1)) + tail;
        assert(data_fields(ls) + tail =~= p + lf() + rest);
        assert(no_eol(ls[0]));
        assert(no_eol(p)) by { assert forall|i: int| 0 <= i < p.len() implies !is_eol(#[trigger] p[i]) by { if i >= 6 { assert(p[i] == ls[0][i - 6]); } } }
        lemma_one_line(p, rest, st);
        lemma_data_line(ls[0], st);
        let st1 = St { data: st.data + ls[0] + lf(), ..st };
        assert(all_no_eol(ls.skip(1))) by { assert forall|i: int| 0 <= i < ls.skip(1).len() implies no_eol(#[trigger] ls.skip(1)[i]) by { assert(ls.skip(1)[i] == ls[i + 1]); } }
        lemma_data_fields_read(ls.skip(1), tail, st1);
        assert(st1.data + cat_lf(ls.skip(1)) =~= st.data + cat_lf(ls));
    }
}
pub proof fn lemma_lines_no_eol(s: Seq<char>)
    ensures all_no_eol(lines_of(s))
    decreases s.len()
{
    let i = first_eol(s);
    lemma_first_eol(s);
    if 0 <= i < s.len() {
        let r = s.skip(i + eol_width(s, i));
        lemma_lines_no_eol(r);
        assert forall|k: int| 0 <= k < lines_of(s).len() implies no_eol(#[trigger] lines_of(s)[k]) by {
            if k > 0 { assert(lines_of(s)[k] == lines_of(r)[k - 1]); }
        }
    } else {
        assert(s.take(s.len() as int) =~= s);
    }
}
pub proof fn lemma_cat_lf_len(ls: Seq<Seq<char>>)
    requires ls.len() >= 1
    ensures cat_lf(ls).len() >= 1, cat_lf(ls).last() == '\n'
    decreases ls.len()
{
    let x = cat_lf(ls.skip(1));
    if ls.len() > 1 {
        lemma_cat_lf_len(ls.skip(1));
        assert((ls[0] + lf() + x).last() == x.last());
    } else {
        assert(ls.skip(1) =~= Seq::<Seq<char>>::empty());
        assert(x =~= Seq::<char>::empty());
        assert(ls[0] + lf() + x =~= ls[0] + lf());
    }
}
pub proof fn lemma_valid_type(t: Seq<char>)
    requires valid_type(t)
    ensures no_eol(t)
{
    assert forall|i: int| 0 <= i < t.len() implies !is_eol(#[trigger] t[i]) by {
        if t[i] == '\r' { assert(t.contains('\r')); }
        if t[i] == '\n' { assert(t.contains('\n')); }
    }
}
// what the client must hand to the page for event e
pub open spec fn shown_type(e: Event) -> Seq<char> { match ev_type(e) { Some(t) => if t.len() == 0 { message() } else { t }, None => message() } }
pub open spec fn shown_data(e: Event) -> Seq<char> { cat_lf(lines_of(ev_data(e))).drop_last() }
pub open spec fn well_typed(e: Event) -> bool { match ev_type(e) { Some(t) => valid_type(t), None => true } }

// THEOREM (C11, modulo the known finding that the block is not ended by a blank line -- the LF is supplied here): a client
// with empty buffers that receives the block of e, a blank line and then anything else dispatches exactly one event for
// it, with e's type ("message" when there is none) and e's data -- line ends as LF --, changes neither the last event
// id nor the reconnection time, and goes on with empty buffers: nothing in e's content reaches another field or event.
pub proof fn thm_event_reads_back(e: Event, rest: Seq<char>, st: St)
    requires well_typed(e), st.ty.len() == 0, st.data.len() == 0,
    ensures c11(run(enc(e) + lf() + rest, st) == ({ let (ds, st2) = run(rest, st); (seq![Dispatched { ty: shown_type(e), data: shown_data(e), id: st.id }] + ds, st2) })),
{
    let ls = lines_of(ev_data(e));
    lemma_lines_no_eol(ev_data(e));
    lemma_lines_nonempty(ev_data(e));
    lemma_cat_lf_len(ls);
    let tail = lf() + rest;
    assert(st.ty =~= Seq::<char>::empty());
    assert(st.data =~= Seq::<char>::empty());
    let st_t = match ev_type(e) { Some(t) => St { ty: t, ..st }, None => st };
    // the type field, if any
    assert(run(enc(e) + tail, st) == run(data_fields(ls) + tail, st_t)) by {
        match ev_type(e) {
            Some(t) => {
                lemma_valid_type(t);
                let p = lit_event() + t;
                assert(no_eol(p)) by { assert forall|i: int| 0 <= i < p.len() implies !is_eol(#[trigger] p[i]) by { if i >= 7 { assert(p[i] == t[i - 7]); } } }
                assert(enc(e) + tail =~= p + lf() + (data_fields(ls) + tail));
                lemma_one_line(p, data_fields(ls) + tail, st);
                lemma_event_line(t, st);
            }
            None => { assert(enc(e) + tail =~= data_fields(ls) + tail); }
        }
    }
    // the data fields
    lemma_data_fields_read(ls, tail, st_t);
    let st_d = St { data: st_t.data + cat_lf(ls), ..st_t };
    assert(st_d.data =~= cat_lf(ls));
    // the blank line
    assert(tail =~= Seq::<char>::empty() + lf() + rest);
    lemma_one_line(Seq::<char>::empty(), rest, st_d);
    assert(St { ty: Seq::<char>::empty(), data: Seq::<char>::empty(), ..st_d } == st);
    assert(enc(e) + lf() + rest =~= enc(e) + tail);
}
// the data comes back exactly when it has no CR (an event stream cannot carry a CR inside data: it is a line end)
pub proof fn lemma_exact_data(d: Seq<char>)
    requires !d.contains('\r')
    ensures cat_lf(lines_of(d)) == d + lf()
    decreases d.len()
{
    let i = first_eol(d);
    lemma_first_eol(d);
    if 0 <= i < d.len() {
        assert(d[i] != '\r') by { if d[i] == '\r' { assert(d.contains('\r')); } }
        let r = d.skip(i + 1);
        assert(!r.contains('\r')) by { if r.contains('\r') { let k = choose|k: int| 0 <= k < r.len() && r[k] == '\r'; assert(d[k + i + 1] == '\r'); assert(d.contains('\r')); } }
        lemma_exact_data(r);
        assert(lines_of(d).skip(1) =~= lines_of(r));
        assert(cat_lf(lines_of(d)) =~= d.take(i) + lf() + (r + lf()));
        assert(d.take(i) + lf() + (r + lf()) =~= d + lf()) by { assert(d =~= d.take(i) + seq![d[i]] + r); }
    } else {
        assert(lines_of(d) =~= seq![d]);
        assert(lines_of(d).skip(1) =~= Seq::<Seq<char>>::empty());
        assert(cat_lf(lines_of(d).skip(1)) =~= Seq::<char>::empty());
        assert(cat_lf(lines_of(d)) =~= d + lf());
    }
}
pub proof fn thm_data_exact(e: Event)
    requires !ev_data(e).contains('\r')
    ensures c11(shown_data(e) == ev_data(e))
{
    lemma_exact_data(ev_data(e));
    assert((ev_data(e) + lf()).drop_last() =~= ev_data(e));
}
// a stream of blocks, each followed by its blank line: the events arrive exactly once each, in the order sent
pub open spec fn blocks(es: Seq<Event>) -> Seq<char> decreases es.len() {
    if es.len() == 0 { Seq::empty() } else { enc(es[0]) + lf() + blocks(es.skip(1)) }
}
pub open spec fn expected(es: Seq<Event>, id: Option<Seq<char>>) -> Seq<Dispatched> {
    Seq::new(es.len(), |i: int| Dispatched { ty: shown_type(es[i]), data: shown_data(es[i]), id: id })
}
pub proof fn thm_stream_in_order(es: Seq<Event>, st: St)
    requires forall|i: int| 0 <= i < es.len() ==> well_typed(#[trigger] es[i]), st.ty.len() == 0, st.data.len() == 0,
    ensures c11(run(blocks(es), st) == (expected(es, st.id), st))
    decreases es.len()
{
    if es.len() == 0 {
        assert(first_eol(blocks(es)) == 0);
        assert(expected(es, st.id) =~= Seq::<Dispatched>::empty());
    } else {
        thm_event_reads_back(es[0], blocks(es.skip(1)), st);
        assert forall|i: int| 0 <= i < es.skip(1).len() implies well_typed(#[trigger] es.skip(1)[i]) by { assert(es.skip(1)[i] == es[i + 1]); }
        thm_stream_in_order(es.skip(1), st);
        assert(expected(es, st.id) =~= seq![Dispatched { ty: shown_type(es[0]), data: shown_data(es[0]), id: st.id }] + expected(es.skip(1), st.id));
    }
}
// vacuity canary: must fail
proof fn canary_sse() { assert(false); }
// an event's block is never empty (it has at least one data field)
pub proof fn lemma_enc_nonempty(e: Event)
    ensures enc(e).len() > 0
{
    lemma_lines_nonempty(ev_data(e));
    lemma_fields_len(lines_of(ev_data(e)));
}
// ... and neither is its byte form (a data field has at least the six bytes of `data: `)
pub proof fn lemma_delivered_nonempty(e: Event)
    ensures delivered_form(e).len() > 0
{
    lemma_lines_nonempty(ev_data(e));
    let ls = lines_of(ev_data(e));
    reveal(vlit_646174613a20);
    assert(data_fields_b(ls).len() >= 6) by {
        assert(data_fields_b(ls) == data_fields_b(ls.drop_last()) + (vlit_646174613a20() + utf8(ls.last()) + vlit_0a()));
    }
}
