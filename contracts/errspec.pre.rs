// ---- the response an error is turned into (src/http_error.rs; the full table with exact bodies is checked per
// variant by the Kani set c20): shared by units errresp (where From<HttpError> for Response is proved) and conn
pub open spec fn error_response(e: HttpError, r: Response) -> bool {
    if e is Disconnected { r.kind == ResponseKind::DropConnection }
    else { r.kind == ResponseKind::Normal && (r.code == 400 || r.code == 413 || r.code == 431 || r.code == 505 || r.code == 500) }
}
impl vstd::std_specs::convert::FromSpecImpl<HttpError> for Response {
    open spec fn obeys_from_spec() -> bool { false }
    uninterp spec fn from_spec(e: HttpError) -> Response;
}
// ---- the documented class of each error (from the property: client-caused errors get their specific 400 / 413 / 431 / 505,
// server-caused errors a 500 whose body is the fixed text)
pub open spec fn server_caused(e: HttpError) -> bool {
    e is AlreadyGotBody || e is BodyNotAvailable || e is BodyNotRead || e is CacheDirNotConfigured || e is DuplicateContentLengthHeader
    || e is DuplicateContentTypeHeader || e is DuplicateTransferEncodingHeader || e is ErrorReadingFile || e is ErrorReadingResponseBody
    || e is ErrorSavingFile || e is HandlerDeadlineExceeded || e is ResponseAlreadySent || e is ResponseNotSent || e is TimerThreadNotStarted
    || e is UnwritableResponse
}
pub open spec fn err_code(e: HttpError) -> u16 {
    if server_caused(e) { 500 } else if e is BodyTooLong { 413 } else if e is HeadTooLong { 431 } else if e is UnsupportedProtocol { 505 } else { 400 }
}
// the UTF-8 form of a text as String::into_bytes yields it (uninterpreted)
pub uninterp spec fn text_bytes(s: Seq<char>) -> Seq<u8>;
// a body that consists of exactly the text `t`, as a static text or as its bytes
pub open spec fn body_says(b: ResponseBody, t: Seq<char>) -> bool {
    match b { ResponseBody::StaticStr(s) => s@ == t, ResponseBody::Vec(v) => v@ == text_bytes(t), _ => false }
}
