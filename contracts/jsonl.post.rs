// ---- the reading side, written from RFC 8259 section 7 (independent of the encoder)
pub open spec fn hexv(c: char) -> Option<int> {
    let n = c as u32 as int;
    if 48 <= n <= 57 { Some(n - 48) } else if 97 <= n <= 102 { Some(n - 87) } else if 65 <= n <= 70 { Some(n - 55) } else { None }
}
pub open spec fn cons(c: char, r: Option<(Seq<char>, int)>) -> Option<(Seq<char>, int)> {
    match r { Some((s, j)) => Some((seq![c] + s, j)), None => None }
}
pub open spec fn simple_escape(e: char) -> Option<char> {
    if e == '"' { Some('"') } else if e == '\\' { Some('\\') } else if e == '/' { Some('/') } else if e == 'b' { Some(8u8 as char) }
    else if e == 'f' { Some(12u8 as char) } else if e == 'n' { Some('\n') } else if e == 'r' { Some('\r') } else if e == 't' { Some('\t') } else { None }
}
// t[i..] is what follows an opening quote: the decoded characters and the index just after the closing quote
pub open spec fn dec(t: Seq<char>, i: int) -> Option<(Seq<char>, int)>
    decreases t.len() - i
{
    if i < 0 || i >= t.len() { None }
    else if t[i] == '"' { Some((Seq::empty(), i + 1)) }
    else if t[i] == '\\' {
        if i + 1 >= t.len() { None }
        else if t[i + 1] == 'u' {
            if i + 5 >= t.len() { None }
            else {
                match (hexv(t[i + 2]), hexv(t[i + 3]), hexv(t[i + 4]), hexv(t[i + 5])) {
                    (Some(a), Some(b), Some(c), Some(d)) => {
                        let cp = a * 4096 + b * 256 + c * 16 + d;
                        // (surrogate escapes: the pairing rule is not needed here, they are refused)
                        if 0xD800 <= cp < 0xE000 { None } else { cons(cp as char, dec(t, i + 6)) }
                    },
                    _ => None,
                }
            }
        } else {
            match simple_escape(t[i + 1]) { Some(ch) => cons(ch, dec(t, i + 2)), None => None }
        }
    }
    else if (t[i] as u32) < 0x20 { None }
    else { cons(t[i], dec(t, i + 1)) }
}

pub proof fn lemma_esc_front(s: Seq<char>)
    requires s.len() > 0
    ensures esc_all(s) == esc(s[0]) + esc_all(s.skip(1))
    decreases s.len()
{
    if s.len() == 1 {
        assert(s.drop_last() =~= Seq::<char>::empty());
        assert(s.skip(1) =~= Seq::<char>::empty());
        assert(esc_all(s) =~= esc(s[0]) + esc_all(s.skip(1)));
    } else {
        lemma_esc_front(s.drop_last());
        assert(s.drop_last().skip(1) =~= s.skip(1).drop_last());
        assert(s.skip(1).last() == s.last());
        assert(s.drop_last()[0] == s[0]);
        assert(esc_all(s) =~= esc(s[0]) + esc_all(s.skip(1)));
    }
}
pub proof fn lemma_hex(d: int)
    requires 0 <= d < 16
    ensures hexv(hexc(d)) == Some(d), hexv('0') == Some(0int), hexv('1') == Some(1int)
{}
// one decoding step undoes one encoding step
pub proof fn lemma_dec_step(t: Seq<char>, i: int, c: char)
    requires 0 <= i, i + esc(c).len() < t.len(), forall|k: int| 0 <= k < esc(c).len() ==> t[i + k] == #[trigger] esc(c)[k],
    ensures dec(t, i) == cons(c, dec(t, i + esc(c).len()))
{
    let e = esc(c);
    let n = c as u32;
    assert(t[i] == e[0]);
    if c == '"' || c == '\\' || c == '\n' || c == '\r' || c == '\t' {
        assert(t[i + 1] == e[1]);
    } else if n < 0x20 {
        lemma_hex((n % 16) as int);
        assert(t[i + 1] == e[1] && t[i + 2] == e[2] && t[i + 3] == e[3] && t[i + 4] == e[4] && t[i + 5] == e[5]);
        let cp = (if n < 0x10 { 0int } else { 1int }) * 16 + (n % 16) as int;
        assert(cp == n);
        assert(cp as char == c);
    } else {
    }
}
// the string ends exactly at its own closing quote, whatever follows, and reads back as s
pub proof fn lemma_dec_esc(pre: Seq<char>, s: Seq<char>, rest: Seq<char>)
    ensures dec(pre + esc_all(s) + seq!['"'] + rest, pre.len() as int) == Some((s, (pre.len() + esc_all(s).len() + 1) as int))
    decreases s.len()
{
    let t = pre + esc_all(s) + seq!['"'] + rest;
    let i = pre.len() as int;
    if s.len() == 0 {
        assert(t[i] == '"');
    } else {
        lemma_esc_front(s);
        let c = s[0];
        let e = esc(c);
        let tl = s.skip(1);
        assert(t =~= (pre + e) + esc_all(tl) + seq!['"'] + rest);
        lemma_dec_esc(pre + e, tl, rest);
        assert(esc_all(s).len() == e.len() + esc_all(tl).len());
        assert(seq![c] + tl =~= s);
        assert forall|k: int| 0 <= k < e.len() implies t[i + k] == #[trigger] e[k] by {}
        lemma_dec_step(t, i, c);
    }
}
pub proof fn thm_json_str_reads_back(s: Seq<char>, before: Seq<char>, after: Seq<char>)
    ensures dec(before + json_str(s) + after, (before.len() + 1) as int) == Some((s, (before.len() + json_str(s).len()) as int))
{
    lemma_dec_esc(before + seq!['"'], s, after);
    assert(before + json_str(s) + after =~= (before + seq!['"']) + esc_all(s) + seq!['"'] + after);
}

// ---- no control character (in particular no line break) inside the line
pub open spec fn clean(s: Seq<char>) -> bool { forall|k: int| 0 <= k < s.len() ==> (#[trigger] s[k]) as u32 >= 0x20 }
pub proof fn lemma_clean_add(a: Seq<char>, b: Seq<char>)
    requires clean(a), clean(b)
    ensures clean(a + b)
{
    assert forall|k: int| 0 <= k < (a + b).len() implies (#[trigger] (a + b)[k]) as u32 >= 0x20 by {
        if k < a.len() { assert((a + b)[k] == a[k]); } else { assert((a + b)[k] == b[k - a.len()]); }
    }
}
pub proof fn lemma_esc_clean(s: Seq<char>)
    ensures clean(esc_all(s))
    decreases s.len()
{
    if s.len() > 0 {
        lemma_esc_clean(s.drop_last());
        let e = esc(s.last());
        assert(clean(e));
        lemma_clean_add(esc_all(s.drop_last()), e);
    }
}
pub proof fn thm_json_str_clean(s: Seq<char>)
    ensures c17(clean(json_str(s)))
{
    lemma_esc_clean(s);
    lemma_clean_add(seq!['"'], esc_all(s));
    lemma_clean_add(seq!['"'] + esc_all(s), seq!['"']);
}
// type invariant of TagValue::Float (assumed of std: the Display text of a finite f32 / f64 has no control character)
pub open spec fn value_ok(v: TagValue) -> bool { v matches TagValue::Float(x) ==> clean(x@) }
pub proof fn lemma_dec_int_clean(v: int)
    ensures clean(dec_int(v))
{
    axiom_dec_int(v);
}
pub proof fn lemma_value_clean(v: TagValue)
    requires value_ok(v)
    ensures clean(value_json(v))
{
    match v {
        TagValue::Str(x) => { thm_json_str_clean(x@); },
        TagValue::String(x) => { thm_json_str_clean(x@); },
        TagValue::Bool(x) => {},
        TagValue::I8(x) => { lemma_dec_int_clean(x as int); },
        TagValue::I16(x) => { lemma_dec_int_clean(x as int); },
        TagValue::I32(x) => { lemma_dec_int_clean(x as int); },
        TagValue::I64(x) => { lemma_dec_int_clean(x as int); },
        TagValue::I128(x) => { lemma_dec_int_clean(x as int); },
        TagValue::U8(x) => { lemma_dec_int_clean(x as int); },
        TagValue::U16(x) => { lemma_dec_int_clean(x as int); },
        TagValue::U32(x) => { lemma_dec_int_clean(x as int); },
        TagValue::U64(x) => { lemma_dec_int_clean(x as int); },
        TagValue::U128(x) => { lemma_dec_int_clean(x as int); },
        TagValue::Usize(x) => { lemma_dec_int_clean(x as int); },
        TagValue::Float(x) => {},
        TagValue::Null => {},
    }
}
pub proof fn lemma_tags_clean(ts: Seq<Tag>)
    requires forall|i: int| 0 <= i < ts.len() ==> value_ok(#[trigger] ts[i].value)
    ensures clean(tags_json(ts))
    decreases ts.len()
{
    if ts.len() >= 1 {
        let t = ts.last();
        thm_json_str_clean(t.name@);
        lemma_value_clean(t.value);
        lemma_clean_add(json_str(t.name@), seq![':']);
        lemma_clean_add(json_str(t.name@) + seq![':'], value_json(t.value));
        if ts.len() > 1 {
            lemma_tags_clean(ts.drop_last());
            lemma_clean_add(tags_json(ts.drop_last()), seq![',']);
            lemma_clean_add(tags_json(ts.drop_last()) + seq![','], member_json(t));
        }
    }
}
pub open spec fn dt_ok(dt: DateTime) -> bool { dt.year >= 0 && dt.month >= 0 && dt.day >= 0 && dt.hour >= 0 && dt.min >= 0 && dt.sec >= 0 }
pub open spec fn event_ok(ev: LogEvent) -> bool {
    &&& dt_ok(datetime_of(ev.time_()))
    &&& forall|i: int| 0 <= i < ev.tags_().0@.len() ==> value_ok(#[trigger] ev.tags_().0@[i].value)
}
pub proof fn lemma_pad_clean(v: int, w: nat)
    requires v >= 0
    ensures clean(pad_int(v, w))
{
    axiom_pad_int(v, w);
}
pub proof fn lemma_assoc(o: Seq<char>, x: Seq<char>, p: Seq<char>)
    ensures (o + x) + p == o + (x + p)
{
    assert((o + x) + p =~= o + (x + p));
}
pub open spec fn chain(o: Seq<char>, ps: Seq<Seq<char>>) -> Seq<char> decreases ps.len() {
    if ps.len() == 0 { o } else { chain(o, ps.drop_last()) + ps.last() }
}
pub proof fn lemma_chain_base(o: Seq<char>, ps: Seq<Seq<char>>)
    ensures chain(o, ps) == o + chain(Seq::empty(), ps)
    decreases ps.len()
{
    if ps.len() == 0 {
        assert(o + Seq::<char>::empty() =~= o);
    } else {
        lemma_chain_base(o, ps.drop_last());
        lemma_assoc(o, chain(Seq::empty(), ps.drop_last()), ps.last());
    }
}
pub proof fn lemma_chain_clean(o: Seq<char>, ps: Seq<Seq<char>>)
    requires clean(o), forall|i: int| 0 <= i < ps.len() ==> clean(#[trigger] ps[i])
    ensures clean(chain(o, ps))
    decreases ps.len()
{
    if ps.len() > 0 {
        lemma_chain_clean(o, ps.drop_last());
        lemma_clean_add(chain(o, ps.drop_last()), ps.last());
    }
}
pub open spec fn front_pieces(ev: LogEvent) -> Seq<Seq<char>> {
    let dt = datetime_of(ev.time_());
    let h = seq![seq!['{', '"', 't', 'i', 'm', 'e', '"', ':', '"'], pad_int(dt.year as int, 4), seq!['-'], pad_int(dt.month as int, 2), seq!['-'],
        pad_int(dt.day as int, 2), seq!['T'], pad_int(dt.hour as int, 2), seq![':'], pad_int(dt.min as int, 2), seq![':'],
        pad_int(dt.sec as int, 2), seq!['Z', '"', ',', '"', 'l', 'e', 'v', 'e', 'l', '"', ':', '"'], level_text(ev.level_())];
    if ev.tags_().0@.len() == 0 {
        h.push(seq!['"', ',', '"', 't', 'i', 'm', 'e', '_', 'n', 's', '"', ':']).push(dec_int(epoch_ns_of(ev.time_()) as int))
    } else {
        h.push(seq!['"', ',']).push(tags_json(ev.tags_().0@)).push(seq![',', '"', 't', 'i', 'm', 'e', '_', 'n', 's', '"', ':']).push(dec_int(epoch_ns_of(ev.time_()) as int))
    }
}
#[verifier::rlimit(100)]
pub proof fn lemma_front_is_chain(o: Seq<char>, ev: LogEvent)
    ensures line_front(o, ev) == chain(o, front_pieces(ev))
{
    let ps = front_pieces(ev);
    reveal_with_fuel(chain, 20);
    assert(ps.len() == if ev.tags_().0@.len() == 0 { 16int } else { 18int });
    let p1 = ps.drop_last();
    let p2 = p1.drop_last(); let p3 = p2.drop_last(); let p4 = p3.drop_last(); let p5 = p4.drop_last(); let p6 = p5.drop_last();
    let p7 = p6.drop_last(); let p8 = p7.drop_last(); let p9 = p8.drop_last(); let p10 = p9.drop_last(); let p11 = p10.drop_last();
    let p12 = p11.drop_last(); let p13 = p12.drop_last(); let p14 = p13.drop_last(); let p15 = p14.drop_last(); let p16 = p15.drop_last();
    if ev.tags_().0@.len() > 0 { let p17 = p16.drop_last(); let p18 = p17.drop_last(); assert(p18.len() == 0); } else { assert(p16.len() == 0); }
}
// the line written after `o` is `o` followed by the line
pub proof fn thm_line_shape(o: Seq<char>, ev: LogEvent)
    ensures c17(line_after(o, ev) == o + jsonl_line(ev))
{
    lemma_front_is_chain(o, ev);
    lemma_front_is_chain(Seq::empty(), ev);
    lemma_chain_base(o, front_pieces(ev));
    lemma_assoc(o, line_front(Seq::empty(), ev), seq!['}', '\n']);
}
// exactly one line: the only line break is the last character
pub proof fn thm_one_line(ev: LogEvent)
    requires event_ok(ev)
    ensures c17(jsonl_line(ev).last() == '\n' && clean(jsonl_line(ev).drop_last()))
{
    let dt = datetime_of(ev.time_());
    lemma_pad_clean(dt.year as int, 4); lemma_pad_clean(dt.month as int, 2); lemma_pad_clean(dt.day as int, 2);
    lemma_pad_clean(dt.hour as int, 2); lemma_pad_clean(dt.min as int, 2); lemma_pad_clean(dt.sec as int, 2);
    lemma_dec_int_clean(epoch_ns_of(ev.time_()) as int);
    lemma_tags_clean(ev.tags_().0@);
    assert(clean(level_text(ev.level_())));
    let ps = front_pieces(ev);
    assert forall|i: int| 0 <= i < ps.len() implies clean(#[trigger] ps[i]) by {}
    lemma_front_is_chain(Seq::empty(), ev);
    lemma_chain_clean(Seq::empty(), ps);
    let x = line_front(Seq::empty(), ev);
    lemma_clean_add(x, seq!['}']);
    assert((x + seq!['}', '\n']).drop_last() =~= x + seq!['}']);
}
// a string member's value reads back as the tag's string and ends at its own closing quote, whatever the value is and
// whatever follows it: it cannot break out of its string, add members or split the line
pub proof fn thm_string_member_reads_back(before: Seq<char>, t: Tag, after: Seq<char>)
    requires t.value is String || t.value is Str
    ensures
        c17(dec(before + member_json(t) + after, (before.len() + 1) as int) == Some((t.name@, (before.len() + json_str(t.name@).len()) as int))),
        c17(dec(before + member_json(t) + after, (before.len() + json_str(t.name@).len() + 2) as int)
            == Some((tag_text(t.value), (before.len() + member_json(t).len()) as int))),
{
    let n = json_str(t.name@);
    let v = json_str(tag_text(t.value));
    assert(member_json(t) == n + seq![':'] + v);
    thm_json_str_reads_back(t.name@, before, seq![':'] + v + after);
    assert(before + member_json(t) + after =~= before + n + (seq![':'] + v + after));
    thm_json_str_reads_back(tag_text(t.value), before + n + seq![':'], after);
    assert(before + member_json(t) + after =~= (before + n + seq![':']) + v + after);
}
pub open spec fn tag_text(v: TagValue) -> Seq<char> {
    match v { TagValue::Str(x) => x@, TagValue::String(x) => x@, _ => Seq::empty() }
}
// vacuity canary -- must FAIL
fn canary_jsonl(ev: &LogEvent, f: &mut Formatter<'_>, tags: &TagList, v: &TagValue)
    requires event_ok(*ev)
{
    let r1 = write_json_str(f, "a\"b");
    let r2 = tags.fmt(f);
    let r3 = v.fmt(f);
    proof { axiom_dec_int(5); axiom_pad_int(7, 2); thm_one_line(*ev); if event_ok2(*ev) { thm_line_is_object(*ev); } }
    assert(false);
}

// ---- the whole line as one JSON object (RFC 8259 section 4, restricted to what a log line may contain: a flat object
// whose values are strings or bare tokens -- numbers, true, false, null), read by a reader written from the grammar
pub enum JVal { Str(Seq<char>), Raw(Seq<char>) }
pub open spec fn raw_end(t: Seq<char>, i: int) -> int decreases t.len() - i {
    if i < 0 || i >= t.len() { t.len() as int } else if t[i] == ',' || t[i] == '}' { i } else { raw_end(t, i + 1) }
}
// a bare token: non-empty, no quote, no separator, no blank or control character
pub open spec fn raw_ok(tok: Seq<char>) -> bool {
    tok.len() > 0 && forall|k: int| 0 <= k < tok.len() ==> (#[trigger] tok[k]) != '"' && tok[k] != ',' && tok[k] != '}' && tok[k] != ':' && (tok[k] as u32) > 0x20
}
// one member starting at the opening quote of its key: the member and the index just after its value
#[verifier::opaque]
pub open spec fn parse_one(t: Seq<char>, i: int) -> Option<((Seq<char>, JVal), int)> {
    if i < 0 || i >= t.len() || t[i] != '"' { None }
    else {
        match dec(t, i + 1) {
            None => None,
            Some((key, j)) =>
                if j <= i || j + 1 >= t.len() || t[j] != ':' { None }
                else if t[j + 1] == '"' { match dec(t, j + 2) { Some((s, k)) => Some(((key, JVal::Str(s)), k)), None => None } }
                else {
                    let e = raw_end(t, j + 1);
                    if raw_ok(t.subrange(j + 1, e)) { Some(((key, JVal::Raw(t.subrange(j + 1, e))), e)) } else { None }
                },
        }
    }
}
pub open spec fn parse_members(t: Seq<char>, i: int) -> Option<(Seq<(Seq<char>, JVal)>, int)>
    decreases t.len() - i
{
    match parse_one(t, i) {
        None => None,
        Some((m, k)) =>
            if k <= i || k >= t.len() { None }
            else if t[k] == '}' { Some((seq![m], k + 1)) }
            else if t[k] == ',' { match parse_members(t, k + 1) { Some((rest, end)) => Some((seq![m] + rest, end)), None => None } }
            else { None },
    }
}
pub open spec fn parse_line(t: Seq<char>) -> Option<Seq<(Seq<char>, JVal)>> {
    if t.len() < 4 || t[0] != '{' { None }
    else { match parse_members(t, 1) { Some((ms, end)) => if end == t.len() - 1 && t[end] == '\n' { Some(ms) } else { None }, None => None } }
}
// the writing side of one member / a member list (back-recursive like tags_json)
pub open spec fn val_text(v: JVal) -> Seq<char> { match v { JVal::Str(s) => json_str(s), JVal::Raw(r) => r } }
#[verifier::opaque]
pub open spec fn mem_text(m: (Seq<char>, JVal)) -> Seq<char> { json_str(m.0) + seq![':'] + val_text(m.1) }
pub open spec fn mems_text(ms: Seq<(Seq<char>, JVal)>) -> Seq<char> decreases ms.len() {
    if ms.len() == 0 { Seq::empty() } else if ms.len() == 1 { mem_text(ms[0]) } else { mems_text(ms.drop_last()) + seq![','] + mem_text(ms.last()) }
}
pub open spec fn val_ok(v: JVal) -> bool { v matches JVal::Raw(r) ==> raw_ok(r) }
pub proof fn lemma_raw_end(pre: Seq<char>, r: Seq<char>, rest: Seq<char>, k: int)
    requires raw_ok(r), 0 <= k <= r.len(), rest.len() > 0, rest[0] == ',' || rest[0] == '}'
    ensures raw_end(pre + r + rest, pre.len() + k) == pre.len() + r.len()
    decreases r.len() - k
{
    let t = pre + r + rest;
    if k < r.len() { assert(t[pre.len() + k] == r[k]); lemma_raw_end(pre, r, rest, k + 1); }
    else { assert(t[(pre.len() + r.len()) as int] == rest[0]); }
}
pub proof fn lemma_mems_front(ms: Seq<(Seq<char>, JVal)>)
    requires ms.len() >= 2
    ensures mems_text(ms) == mem_text(ms[0]) + seq![','] + mems_text(ms.skip(1))
    decreases ms.len()
{
    if ms.len() == 2 {
        assert(ms.drop_last().len() == 1 && ms.drop_last()[0] == ms[0]);
        assert(ms.skip(1).len() == 1 && ms.skip(1)[0] == ms[1]);
        assert(ms.last() == ms[1]);
        assert(mems_text(ms.drop_last()) == mem_text(ms[0]));
        assert(mems_text(ms.skip(1)) == mem_text(ms[1]));
    } else {
        lemma_mems_front(ms.drop_last());
        assert(ms.drop_last().skip(1) =~= ms.skip(1).drop_last());
        assert(ms.skip(1).last() == ms.last());
        assert(ms.drop_last()[0] == ms[0]);
        let a = mem_text(ms[0]); let c = seq![',']; let m = mems_text(ms.skip(1).drop_last()); let z = mem_text(ms.last());
        assert(mems_text(ms) == ((a + c) + m) + c + z);
        assert(mems_text(ms.skip(1)) == m + c + z);
        assert(((a + c) + m) + c + z =~= (a + c) + (m + c + z));
    }
}
// one member as written, followed by ',' or '}', reads back as itself and ends where the separator is
pub proof fn lemma_parse_one(pre: Seq<char>, m0: (Seq<char>, JVal), tail: Seq<char>)
    requires val_ok(m0.1), tail.len() > 0, tail[0] == ',' || tail[0] == '}'
    ensures parse_one(pre + mem_text(m0) + tail, pre.len() as int) == Some((m0, (pre.len() + mem_text(m0).len()) as int)),
        (pre + mem_text(m0) + tail)[(pre.len() + mem_text(m0).len()) as int] == tail[0],
        mem_text(m0).len() > 0,
{
    reveal(parse_one);
    reveal(mem_text);
    let t = pre + mem_text(m0) + tail;
    let i = pre.len() as int;
    let key = json_str(m0.0);
    let vt = val_text(m0.1);
    assert(t =~= pre + key + (seq![':'] + vt + tail));
    thm_json_str_reads_back(m0.0, pre, seq![':'] + vt + tail);
    let j = i + key.len();
    assert(key[0] == '"');
    assert(t[i] == key[0]);
    assert(t[j] == ':');
    match m0.1 {
        JVal::Str(s) => {
            thm_json_str_reads_back(s, pre + key + seq![':'], tail);
            assert(t =~= (pre + key + seq![':']) + json_str(s) + tail);
            assert(json_str(s)[0] == '"');
            assert(t[j + 1] == json_str(s)[0]);
        },
        JVal::Raw(r) => {
            assert(t =~= (pre + key + seq![':']) + r + tail);
            assert(t[j + 1] == r[0]);
            lemma_raw_end(pre + key + seq![':'], r, tail, 0);
            assert(t.subrange(j + 1, j + 1 + r.len()) =~= r);
        },
    }
    assert(t[j + 1 + vt.len()] == tail[0]);
}
// a member list as written, followed by '}', reads back as the same list and ends just after the '}'
pub proof fn lemma_parse_members(pre: Seq<char>, ms: Seq<(Seq<char>, JVal)>, rest: Seq<char>)
    requires ms.len() >= 1, forall|i: int| 0 <= i < ms.len() ==> val_ok(#[trigger] ms[i].1)
    ensures parse_members(pre + mems_text(ms) + seq!['}'] + rest, pre.len() as int) == Some((ms, (pre.len() + mems_text(ms).len() + 1) as int))
    decreases ms.len()
{
    let t = pre + mems_text(ms) + seq!['}'] + rest;
    let m0 = ms[0];
    if ms.len() == 1 {
        let tail = seq!['}'] + rest;
        assert(mems_text(ms) == mem_text(m0));
        assert(t =~= pre + mem_text(m0) + tail);
        lemma_parse_one(pre, m0, tail);
        assert(seq![m0] =~= ms);
        let k = (pre.len() + mem_text(m0).len()) as int;
        assert(t[k] == '}');
        assert(parse_members(t, pre.len() as int) == Some((seq![m0], k + 1)));
    } else {
        lemma_mems_front(ms);
        let tail = seq![','] + mems_text(ms.skip(1)) + seq!['}'] + rest;
        assert(t =~= pre + mem_text(m0) + tail);
        lemma_parse_one(pre, m0, tail);
        let pre2 = pre + mem_text(m0) + seq![','];
        assert(t =~= pre2 + mems_text(ms.skip(1)) + seq!['}'] + rest);
        assert forall|q: int| 0 <= q < ms.skip(1).len() implies val_ok(#[trigger] ms.skip(1)[q].1) by { assert(ms.skip(1)[q] == ms[q + 1]); }
        lemma_parse_members(pre2, ms.skip(1), rest);
        assert(seq![m0] + ms.skip(1) =~= ms);
        assert(mems_text(ms).len() == mem_text(m0).len() + 1 + mems_text(ms.skip(1)).len());
        let k = (pre.len() + mem_text(m0).len()) as int;
        assert(t[k] == ',');
        assert(pre2.len() == k + 1);
        assert(parse_members(t, k + 1) == Some((ms.skip(1), (pre2.len() + mems_text(ms.skip(1)).len() + 1) as int)));
    }
}

// ---- the line a log event is written as IS one such object, with exactly the expected members
pub open spec fn jval(v: TagValue) -> JVal {
    match v { TagValue::Str(x) => JVal::Str(x@), TagValue::String(x) => JVal::Str(x@), _ => JVal::Raw(value_json(v)) }
}
pub open spec fn tag_member(t: Tag) -> (Seq<char>, JVal) { (t.name@, jval(t.value)) }
pub open spec fn tag_members(ts: Seq<Tag>) -> Seq<(Seq<char>, JVal)> { ts.map_values(|t: Tag| tag_member(t)) }
pub open spec fn k_time() -> Seq<char> { seq!['t', 'i', 'm', 'e'] }
pub open spec fn k_level() -> Seq<char> { seq!['l', 'e', 'v', 'e', 'l'] }
pub open spec fn k_time_ns() -> Seq<char> { seq!['t', 'i', 'm', 'e', '_', 'n', 's'] }
// (taken from the property: the fixed time, level and time_ns members and one member per tag, in this order)
pub open spec fn line_members(ev: LogEvent) -> Seq<(Seq<char>, JVal)> {
    seq![(k_time(), JVal::Str(time_text(datetime_of(ev.time_())))), (k_level(), JVal::Str(level_text(ev.level_())))]
        + tag_members(ev.tags_().0@) + seq![(k_time_ns(), JVal::Raw(dec_int(epoch_ns_of(ev.time_()) as int)))]
}
pub open spec fn plain(s: Seq<char>) -> bool { forall|k: int| 0 <= k < s.len() ==> (#[trigger] s[k]) as u32 >= 0x20 && s[k] != '"' && s[k] != '\\' }
pub proof fn lemma_plain_add(a: Seq<char>, b: Seq<char>)
    requires plain(a), plain(b)
    ensures plain(a + b)
{
    assert forall|k: int| 0 <= k < (a + b).len() implies (#[trigger] (a + b)[k]) as u32 >= 0x20 && (a + b)[k] != '"' && (a + b)[k] != '\\' by {
        if k < a.len() { assert((a + b)[k] == a[k]); } else { assert((a + b)[k] == b[k - a.len()]); }
    }
}
pub proof fn lemma_pad_plain(v: int, w: nat)
    requires v >= 0
    ensures plain(pad_int(v, w))
{
    axiom_pad_int(v, w);
    let d = pad_int(v, w);
    assert forall|k: int| 0 <= k < d.len() implies (#[trigger] d[k]) as u32 >= 0x20 && d[k] != '"' && d[k] != '\\' by { assert(is_digit(d[k])); }
}
pub proof fn lemma_time_plain(dt: DateTime)
    requires dt_ok(dt)
    ensures plain(time_text(dt))
{
    lemma_pad_plain(dt.year as int, 4); lemma_pad_plain(dt.month as int, 2); lemma_pad_plain(dt.day as int, 2);
    lemma_pad_plain(dt.hour as int, 2); lemma_pad_plain(dt.min as int, 2); lemma_pad_plain(dt.sec as int, 2);
    let t1 = pad_int(dt.year as int, 4) + seq!['-'];
    lemma_plain_add(pad_int(dt.year as int, 4), seq!['-']);
    lemma_plain_add(t1, pad_int(dt.month as int, 2));
    lemma_plain_add(t1 + pad_int(dt.month as int, 2), seq!['-']);
    let t2 = t1 + pad_int(dt.month as int, 2) + seq!['-'];
    lemma_plain_add(t2, pad_int(dt.day as int, 2));
    lemma_plain_add(t2 + pad_int(dt.day as int, 2), seq!['T']);
    let t3 = t2 + pad_int(dt.day as int, 2) + seq!['T'];
    lemma_plain_add(t3, pad_int(dt.hour as int, 2));
    lemma_plain_add(t3 + pad_int(dt.hour as int, 2), seq![':']);
    let t4 = t3 + pad_int(dt.hour as int, 2) + seq![':'];
    lemma_plain_add(t4, pad_int(dt.min as int, 2));
    lemma_plain_add(t4 + pad_int(dt.min as int, 2), seq![':']);
    let t5 = t4 + pad_int(dt.min as int, 2) + seq![':'];
    lemma_plain_add(t5, pad_int(dt.sec as int, 2));
    lemma_plain_add(t5 + pad_int(dt.sec as int, 2), seq!['Z']);
}
pub open spec fn time_text(dt: DateTime) -> Seq<char> {
    pad_int(dt.year as int, 4) + seq!['-'] + pad_int(dt.month as int, 2) + seq!['-'] + pad_int(dt.day as int, 2) + seq!['T']
        + pad_int(dt.hour as int, 2) + seq![':'] + pad_int(dt.min as int, 2) + seq![':'] + pad_int(dt.sec as int, 2) + seq!['Z']
}
// a string without '"', '\\' and control characters is written as it is
pub proof fn lemma_plain(s: Seq<char>)
    requires plain(s)
    ensures esc_all(s) =~= s
    decreases s.len()
{
    if s.len() > 0 {
        lemma_plain(s.drop_last());
        assert(esc(s.last()) =~= seq![s.last()]);
        assert(s.drop_last() + seq![s.last()] =~= s);
    }
}
pub proof fn lemma_json_plain(s: Seq<char>)
    requires plain(s)
    ensures json_str(s) == seq!['"'] + s + seq!['"']
{
    lemma_plain(s);
}
pub proof fn lemma_member_of_tag(t: Tag)
    ensures member_json(t) == mem_text(tag_member(t))
{
    reveal(mem_text);
}
pub proof fn lemma_tags_mems(ts: Seq<Tag>)
    ensures tags_json(ts) == mems_text(tag_members(ts))
    decreases ts.len()
{
    let ms = tag_members(ts);
    if ts.len() == 0 {
    } else if ts.len() == 1 {
        lemma_member_of_tag(ts[0]);
        assert(ms[0] == tag_member(ts[0]));
    } else {
        lemma_tags_mems(ts.drop_last());
        lemma_member_of_tag(ts.last());
        assert(tag_members(ts.drop_last()) =~= ms.drop_last());
        assert(ms.last() == tag_member(ts.last()));
    }
}
pub proof fn lemma_mems_concat(a: Seq<(Seq<char>, JVal)>, b: Seq<(Seq<char>, JVal)>)
    requires a.len() > 0, b.len() > 0
    ensures mems_text(a + b) == mems_text(a) + seq![','] + mems_text(b)
    decreases b.len()
{
    let ab = a + b;
    assert(ab.last() == b.last());
    if b.len() == 1 {
        assert(ab.drop_last() =~= a);
        assert(mems_text(b) == mem_text(b[0]));
    } else {
        lemma_mems_concat(a, b.drop_last());
        assert(ab.drop_last() =~= a + b.drop_last());
        let x = mems_text(a); let c = seq![',']; let y = mems_text(b.drop_last()); let z = mem_text(b.last());
        assert(mems_text(ab) == (x + c + y) + c + z);
        assert(mems_text(b) == y + c + z);
        assert((x + c + y) + c + z =~= x + c + (y + c + z));
    }
}
// pure regrouping of twenty pieces (no definition is unfolded here)
pub proof fn lemma_regroup(a0: Seq<char>, y: Seq<char>, c1: Seq<char>, m: Seq<char>, c2: Seq<char>, d: Seq<char>, c3: Seq<char>, h: Seq<char>, c4: Seq<char>,
        mi: Seq<char>, c5: Seq<char>, s: Seq<char>, b: Seq<char>, l: Seq<char>, c6: Seq<char>, x: Seq<char>, c7: Seq<char>, n: Seq<char>, e: Seq<char>)
    ensures
        Seq::<char>::empty() + a0 + y + c1 + m + c2 + d + c3 + h + c4 + mi + c5 + s + b + l + c6 + x + c7 + n + e
            == a0 + (y + c1 + m + c2 + d + c3 + h + c4 + mi + c5 + s + b) + l + (c6 + x + c7) + n + e,
        Seq::<char>::empty() + a0 + y + c1 + m + c2 + d + c3 + h + c4 + mi + c5 + s + b + l + c6 + n + e
            == a0 + (y + c1 + m + c2 + d + c3 + h + c4 + mi + c5 + s + b) + l + c6 + n + e,
{
    assert(Seq::<char>::empty() + a0 + y + c1 + m + c2 + d + c3 + h + c4 + mi + c5 + s + b + l + c6 + x + c7 + n + e
        =~= a0 + (y + c1 + m + c2 + d + c3 + h + c4 + mi + c5 + s + b) + l + (c6 + x + c7) + n + e);
    assert(Seq::<char>::empty() + a0 + y + c1 + m + c2 + d + c3 + h + c4 + mi + c5 + s + b + l + c6 + n + e
        =~= a0 + (y + c1 + m + c2 + d + c3 + h + c4 + mi + c5 + s + b) + l + c6 + n + e);
}
pub open spec fn event_ok2(ev: LogEvent) -> bool {
    &&& dt_ok(datetime_of(ev.time_()))
    &&& forall|i: int| 0 <= i < ev.tags_().0@.len() ==> ((#[trigger] ev.tags_().0@[i]).value matches TagValue::Float(x) ==> raw_ok(x@))
}
pub proof fn lemma_raw_value_ok(v: TagValue)
    requires v matches TagValue::Float(x) ==> raw_ok(x@)
    ensures val_ok(jval(v))
{
    match v {
        TagValue::Str(x) => {}, TagValue::String(x) => {},
        TagValue::Bool(x) => {}, TagValue::Null => {}, TagValue::Float(x) => {},
        TagValue::I8(x) => { lemma_dec_raw(x as int); }, TagValue::I16(x) => { lemma_dec_raw(x as int); }, TagValue::I32(x) => { lemma_dec_raw(x as int); },
        TagValue::I64(x) => { lemma_dec_raw(x as int); }, TagValue::I128(x) => { lemma_dec_raw(x as int); }, TagValue::U8(x) => { lemma_dec_raw(x as int); },
        TagValue::U16(x) => { lemma_dec_raw(x as int); }, TagValue::U32(x) => { lemma_dec_raw(x as int); }, TagValue::U64(x) => { lemma_dec_raw(x as int); },
        TagValue::U128(x) => { lemma_dec_raw(x as int); }, TagValue::Usize(x) => { lemma_dec_raw(x as int); },
    }
}
pub proof fn lemma_dec_raw(v: int)
    ensures raw_ok(dec_int(v))
{
    axiom_dec_int(v);
    let d = dec_int(v);
    assert forall|k: int| 0 <= k < d.len() implies (#[trigger] d[k]) != '"' && d[k] != ',' && d[k] != '}' && d[k] != ':' && (d[k] as u32) > 0x20 by {
        assert(is_digit(d[k]) || d[k] == '-');
    }
}
pub open spec fn lit_time() -> Seq<char> { seq!['"', 't', 'i', 'm', 'e', '"', ':', '"'] }
pub open spec fn lit_level() -> Seq<char> { seq!['"', ',', '"', 'l', 'e', 'v', 'e', 'l', '"', ':', '"'] }
pub open spec fn lit_ns() -> Seq<char> { seq!['"', 't', 'i', 'm', 'e', '_', 'n', 's', '"', ':'] }
// a member with a plain key (no quote, backslash or control character) as text
pub proof fn lemma_mem_str(key: Seq<char>, v: Seq<char>)
    requires plain(key), plain(v)
    ensures mem_text((key, JVal::Str(v))) == seq!['"'] + key + seq!['"', ':', '"'] + v + seq!['"']
{
    reveal(mem_text);
    lemma_json_plain(key); lemma_json_plain(v);
    let q = seq!['"'];
    assert((q + key + q) + seq![':'] + (q + v + q) =~= q + key + seq!['"', ':', '"'] + v + q);
}
pub proof fn lemma_mem_raw(key: Seq<char>, r: Seq<char>)
    requires plain(key)
    ensures mem_text((key, JVal::Raw(r))) == seq!['"'] + key + seq!['"', ':'] + r
{
    reveal(mem_text);
    lemma_json_plain(key);
    let q = seq!['"'];
    assert((q + key + q) + seq![':'] + r =~= q + key + seq!['"', ':'] + r);
}
// the fixed members as text
pub proof fn lemma_fixed_text(tt: Seq<char>, lt: Seq<char>, nn: Seq<char>)
    requires plain(tt), plain(lt)
    ensures
        mems_text(seq![(k_time(), JVal::Str(tt)), (k_level(), JVal::Str(lt))]) == lit_time() + tt + lit_level() + lt + seq!['"'],
        mems_text(seq![(k_time_ns(), JVal::Raw(nn))]) == lit_ns() + nn,
{
    let m_time = (k_time(), JVal::Str(tt));
    let m_level = (k_level(), JVal::Str(lt));
    let m_ns = (k_time_ns(), JVal::Raw(nn));
    assert(plain(k_time())); assert(plain(k_level())); assert(plain(k_time_ns()));
    lemma_mem_str(k_time(), tt); lemma_mem_str(k_level(), lt); lemma_mem_raw(k_time_ns(), nn);
    let a = mem_text(m_time); let b = mem_text(m_level); let c = mem_text(m_ns);
    let fixed = seq![m_time, m_level];
    assert(fixed.len() == 2 && fixed.last() == m_level);
    assert(fixed.drop_last().len() == 1 && fixed.drop_last()[0] == m_time);
    assert(mems_text(fixed.drop_last()) == a);
    assert(mems_text(fixed) == a + seq![','] + b);
    lemma_fixed_glue(tt, lt, nn);
    let one = seq![m_ns];
    assert(one.len() == 1 && one[0] == m_ns);
    assert(mems_text(one) == c);
}
pub proof fn lemma_fixed_glue(tt: Seq<char>, lt: Seq<char>, nn: Seq<char>)
    ensures
        (seq!['"'] + k_time() + seq!['"', ':', '"'] + tt + seq!['"']) + seq![','] + (seq!['"'] + k_level() + seq!['"', ':', '"'] + lt + seq!['"'])
            == lit_time() + tt + lit_level() + lt + seq!['"'],
        seq!['"'] + k_time_ns() + seq!['"', ':'] + nn == lit_ns() + nn,
{
    assert((seq!['"'] + k_time() + seq!['"', ':', '"'] + tt + seq!['"']) + seq![','] + (seq!['"'] + k_level() + seq!['"', ':', '"'] + lt + seq!['"'])
            =~= lit_time() + tt + lit_level() + lt + seq!['"']);
    assert(seq!['"'] + k_time_ns() + seq!['"', ':'] + nn =~= lit_ns() + nn);
}
// the written line is '{' + the member list as text + '}' + line break
pub proof fn lemma_line_text(ev: LogEvent)
    requires event_ok2(ev)
    ensures jsonl_line(ev) == seq!['{'] + mems_text(line_members(ev)) + seq!['}'] + seq!['\n']
{
    let dt = datetime_of(ev.time_());
    let ts = ev.tags_().0@;
    let tt = time_text(dt);
    let lt = level_text(ev.level_());
    let nn = dec_int(epoch_ns_of(ev.time_()) as int);
    let fixed = seq![(k_time(), JVal::Str(tt)), (k_level(), JVal::Str(lt))];
    let last = seq![(k_time_ns(), JVal::Raw(nn))];
    let ms = line_members(ev);
    lemma_time_plain(dt);
    assert(plain(lt));
    lemma_fixed_text(tt, lt, nn);
    lemma_tags_mems(ts);
    let ft = mems_text(fixed);
    let xt = tags_json(ts);
    let nt = mems_text(last);
    if ts.len() == 0 {
        assert(tag_members(ts) =~= Seq::<(Seq<char>, JVal)>::empty());
        assert(ms =~= fixed + last);
        lemma_mems_concat(fixed, last);
        assert(mems_text(ms) == ft + seq![','] + nt);
    } else {
        lemma_mems_concat(fixed, tag_members(ts));
        lemma_mems_concat(fixed + tag_members(ts), last);
        assert(mems_text(ms) == ft + seq![','] + xt + seq![','] + nt);
    }
    lemma_regroup(seq!['{', '"', 't', 'i', 'm', 'e', '"', ':', '"'], pad_int(dt.year as int, 4), seq!['-'], pad_int(dt.month as int, 2), seq!['-'],
        pad_int(dt.day as int, 2), seq!['T'], pad_int(dt.hour as int, 2), seq![':'], pad_int(dt.min as int, 2), seq![':'], pad_int(dt.sec as int, 2),
        seq!['Z', '"', ',', '"', 'l', 'e', 'v', 'e', 'l', '"', ':', '"'], lt,
        if ts.len() == 0 { seq!['"', ',', '"', 't', 'i', 'm', 'e', '_', 'n', 's', '"', ':'] } else { seq!['"', ','] },
        xt, seq![',', '"', 't', 'i', 'm', 'e', '_', 'n', 's', '"', ':'], nn, seq!['}', '\n']);
    lemma_glue(tt, lt, xt, nn, ts.len() == 0, pad_int(dt.year as int, 4), pad_int(dt.month as int, 2), pad_int(dt.day as int, 2), pad_int(dt.hour as int, 2), pad_int(dt.min as int, 2), pad_int(dt.sec as int, 2));
}
// the regrouped pieces are '{' + fixed members + [',' tags] + ',' + time_ns member + '}' + line break (literal pieces only)
pub proof fn lemma_glue(tt: Seq<char>, lt: Seq<char>, xt: Seq<char>, nn: Seq<char>, no_tags: bool, y: Seq<char>, m: Seq<char>, d: Seq<char>, h: Seq<char>, mi: Seq<char>, s: Seq<char>)
    requires tt == y + seq!['-'] + m + seq!['-'] + d + seq!['T'] + h + seq![':'] + mi + seq![':'] + s + seq!['Z']
    ensures
        no_tags ==> seq!['{', '"', 't', 'i', 'm', 'e', '"', ':', '"'] + (y + seq!['-'] + m + seq!['-'] + d + seq!['T'] + h + seq![':'] + mi + seq![':'] + s + seq!['Z', '"', ',', '"', 'l', 'e', 'v', 'e', 'l', '"', ':', '"'])
                + lt + seq!['"', ',', '"', 't', 'i', 'm', 'e', '_', 'n', 's', '"', ':'] + nn + seq!['}', '\n']
            == seq!['{'] + ((lit_time() + tt + lit_level() + lt + seq!['"']) + seq![','] + (lit_ns() + nn)) + seq!['}'] + seq!['\n'],
        !no_tags ==> seq!['{', '"', 't', 'i', 'm', 'e', '"', ':', '"'] + (y + seq!['-'] + m + seq!['-'] + d + seq!['T'] + h + seq![':'] + mi + seq![':'] + s + seq!['Z', '"', ',', '"', 'l', 'e', 'v', 'e', 'l', '"', ':', '"'])
                + lt + (seq!['"', ','] + xt + seq![',', '"', 't', 'i', 'm', 'e', '_', 'n', 's', '"', ':']) + nn + seq!['}', '\n']
            == seq!['{'] + ((lit_time() + tt + lit_level() + lt + seq!['"']) + seq![','] + xt + seq![','] + (lit_ns() + nn)) + seq!['}'] + seq!['\n'],
{
    if no_tags {
        assert(seq!['{', '"', 't', 'i', 'm', 'e', '"', ':', '"'] + (y + seq!['-'] + m + seq!['-'] + d + seq!['T'] + h + seq![':'] + mi + seq![':'] + s + seq!['Z', '"', ',', '"', 'l', 'e', 'v', 'e', 'l', '"', ':', '"'])
                + lt + seq!['"', ',', '"', 't', 'i', 'm', 'e', '_', 'n', 's', '"', ':'] + nn + seq!['}', '\n']
            =~= seq!['{'] + ((lit_time() + tt + lit_level() + lt + seq!['"']) + seq![','] + (lit_ns() + nn)) + seq!['}'] + seq!['\n']);
    } else {
        assert(seq!['{', '"', 't', 'i', 'm', 'e', '"', ':', '"'] + (y + seq!['-'] + m + seq!['-'] + d + seq!['T'] + h + seq![':'] + mi + seq![':'] + s + seq!['Z', '"', ',', '"', 'l', 'e', 'v', 'e', 'l', '"', ':', '"'])
                + lt + (seq!['"', ','] + xt + seq![',', '"', 't', 'i', 'm', 'e', '_', 'n', 's', '"', ':']) + nn + seq!['}', '\n']
            =~= seq!['{'] + ((lit_time() + tt + lit_level() + lt + seq!['"']) + seq![','] + xt + seq![','] + (lit_ns() + nn)) + seq!['}'] + seq!['\n']);
    }
}
// THE object-level theorem: the line written for an event is one JSON object, on one line, whose members are exactly
// time, level, one member per tag in order (string tags as strings that read back as the tag's text, the others as their
// bare token), and time_ns
pub proof fn thm_line_is_object(ev: LogEvent)
    requires event_ok2(ev)
    ensures c17(parse_line(jsonl_line(ev)) == Some(line_members(ev)))
{
    let ts = ev.tags_().0@;
    let ms = line_members(ev);
    lemma_dec_raw(epoch_ns_of(ev.time_()) as int);
    assert forall|i: int| 0 <= i < ms.len() implies val_ok(#[trigger] ms[i].1) by {
        if 2 <= i < 2 + ts.len() { assert(ms[i] == tag_member(ts[i - 2])); lemma_raw_value_ok(ts[i - 2].value); }
    }
    lemma_line_text(ev);
    let t = seq!['{'] + mems_text(ms) + seq!['}'] + seq!['\n'];
    lemma_parse_members(seq!['{'], ms, seq!['\n']);
    assert(t[0] == '{');
    assert(t[t.len() - 1] == '\n');
}
