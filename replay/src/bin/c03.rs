//! C03 witness search / replay: real `read_http_request` (+ `read_http_body_to_vec`) over an in-memory
//! stream of concatenated messages, against a reference framing model written from RFC 7230 3.3.
use fixed_buffer::FixedBuf;
use futures_lite::AsyncReadExt;
use servlin::internal::{read_http_body_to_vec, read_http_request};
use servlin::RequestBody;
use verif_replay::{block_on, ScriptReader, Step};

#[derive(Debug, PartialEq, Clone)]
enum Framing { Reject, Empty, Known(u64), Unknown }

fn model(method: &str, cls: &[&str], tes: &[&str], expect: bool) -> (Framing, bool, bool) {
    if tes.len() > 1 || cls.len() > 1 { return (Framing::Reject, false, false); }
    let (gzip, chunked) = match tes.first() {
        None => (false, false),
        Some(v) => {
            let parts: Vec<&str> = v.split(',').map(str::trim).filter(|s| !s.is_empty()).collect();
            match parts.as_slice() { ["gzip", "chunked"] => (true, true), ["gzip"] => (true, false), ["chunked"] => (false, true), [] => (false, false), _ => return (Framing::Reject, false, false) }
        }
    };
    let cl = match cls.first() {
        None => None,
        Some(v) => { let v = v.trim_matches(|c| c == ' ' || c == '\t'); if v.is_empty() || !v.bytes().all(|b| b.is_ascii_digit()) { return (Framing::Reject, false, false); } match v.parse::<u64>() { Ok(n) => Some(n), Err(_) => return (Framing::Reject, false, false) } }
    };
    let f = if chunked { Framing::Unknown } else { match cl { Some(0) => Framing::Empty, Some(n) => Framing::Known(n), None => if method == "POST" || method == "PUT" || expect || gzip { Framing::Unknown } else { Framing::Empty } } };
    (f, gzip, chunked)
}
fn message(method: &str, cls: &[&str], tes: &[&str], expect: bool, body: &[u8]) -> Vec<u8> {
    let mut m = format!("{method} /p HTTP/1.1\r\nx-a: 1\r\n").into_bytes();
    // interleave so that duplicates are not adjacent
    for (i, v) in cls.iter().enumerate() { m.extend(format!("{}: {v}\r\nx-b{i}: 2\r\n", if i % 2 == 0 { "Content-Length" } else { "content-length" }).bytes()); }
    for (i, v) in tes.iter().enumerate() { m.extend(format!("{}: {v}\r\n", if i % 2 == 0 { "Transfer-Encoding" } else { "transfer-encoding" }).bytes()); }
    if expect { m.extend(b"Expect: 100-continue\r\n"); }
    m.extend(b"\r\n");
    m.extend(body);
    m
}
/// Expect / Content-Type: what the handler is told is a function of those header fields alone, and exactly those fields are
/// consumed -- every other field stays in the list, in order
fn derived(expects: &[&str], cts: &[&str]) -> Option<String> {
    let desc = format!("derived expect={expects:?} ct={cts:?}");
    let mut m = b"GET /p HTTP/1.1\r\nx-a: 1\r\n".to_vec();
    for (i, v) in expects.iter().enumerate() { m.extend(format!("{}: {v}\r\n", if i % 2 == 0 { "Expect" } else { "expect" }).bytes()); }
    m.extend(b"x-b: 2\r\n");
    for (i, v) in cts.iter().enumerate() { m.extend(format!("{}: {v}\r\n", if i % 2 == 0 { "Content-Type" } else { "content-type" }).bytes()); }
    m.extend(b"x-c: 3\r\n\r\n");
    let want_expect = expects.len() == 1 && expects[0].trim_matches(|c| c == ' ' || c == '\t') == "100-continue";   // (the head parser strips surrounding blanks)
    // the media types the library documents, by their IANA names (parameters are not part of the type)
    let table: [(&str, servlin::ContentType); 16] = [("text/css", servlin::ContentType::Css), ("text/csv", servlin::ContentType::Csv), ("text/event-stream", servlin::ContentType::EventStream),
        ("application/x-www-form-urlencoded", servlin::ContentType::FormUrlEncoded), ("image/gif", servlin::ContentType::Gif), ("text/html", servlin::ContentType::Html),
        ("text/javascript", servlin::ContentType::JavaScript), ("image/jpeg", servlin::ContentType::Jpeg), ("application/json", servlin::ContentType::Json), ("text/markdown", servlin::ContentType::Markdown),
        ("multipart/form-data", servlin::ContentType::MultipartForm), ("application/octet-stream", servlin::ContentType::OctetStream), ("application/pdf", servlin::ContentType::Pdf),
        ("text/plain", servlin::ContentType::PlainText), ("image/png", servlin::ContentType::Png), ("image/svg+xml", servlin::ContentType::Svg)];
    let want_ct = if cts.len() != 1 { servlin::ContentType::None } else {
        let whole = cts[0].trim_matches(|c| c == ' ' || c == '\t');
        let essence = whole.split(';').next().unwrap_or("");
        if essence.is_empty() { servlin::ContentType::None } else { table.iter().find(|(n, _)| *n == essence).map(|(_, t)| t.clone()).unwrap_or(servlin::ContentType::String(whole.to_string())) } };
    let res = std::panic::catch_unwind(|| {
        let mut buf: FixedBuf<8192> = FixedBuf::new();
        let mut rd = ScriptReader::new(vec![Step::Data(m.clone()), Step::Eof]);
        let addr = std::net::SocketAddr::from(([127, 0, 0, 1], 1));
        block_on(read_http_request(addr, &mut buf, &mut rd))
    });
    let req = match res { Err(_) => return Some(format!("{desc} expected=request actual=panic")), Ok(Err(e)) => return Some(format!("{desc} expected=request actual={e:?}")), Ok(Ok(r)) => r };
    if req.expect_continue != want_expect { return Some(format!("{desc} expected=expect_continue={want_expect} actual={}", req.expect_continue)); }
    if req.content_type != want_ct { return Some(format!("{desc} expected=content_type={want_ct:?} actual={:?}", req.content_type)); }
    let left: Vec<String> = req.headers.iter().map(|h| h.name.as_str().to_ascii_lowercase()).collect();
    let mut want_left = vec!["x-a".to_string()];
    if expects.len() > 1 { want_left.extend(std::iter::repeat("expect".to_string()).take(0)); }
    want_left.push("x-b".into()); want_left.push("x-c".into());
    let others: Vec<String> = left.iter().filter(|n| n.starts_with("x-")).cloned().collect();
    if others != want_left { return Some(format!("{desc} expected=other fields kept in order {want_left:?} actual={others:?}")); }
    None
}
/// one message followed by a marker request; returns a finding if the framing disagrees or the
/// byte after the body is not taken as the start of the next request
fn run(method: &str, cls: &[&str], tes: &[&str], expect: bool, split: usize) -> Option<String> {
    let (want, wgzip, wchunked) = model(method, cls, tes, expect);
    let body_len = match &want { Framing::Known(n) if *n <= 64 => *n as usize, _ => 0 };
    let body: Vec<u8> = (0..body_len).map(|i| b'A' + (i % 26) as u8).collect();
    let mut stream = message(method, cls, tes, expect, &body);
    // a smuggled request hidden where a mis-framed body would be read as the next message
    let hidden = b"GET /hidden HTTP/1.1\r\n\r\n";
    if matches!(want, Framing::Reject) { stream.extend_from_slice(hidden); }
    stream.extend_from_slice(b"GET /next HTTP/1.1\r\n\r\n");
    let desc = format!("framing method={method} cl={cls:?} te={tes:?} expect={expect} split={split}");
    let cut = split.min(stream.len());
    let steps = vec![Step::Data(stream[..cut].to_vec()), Step::Data(stream[cut..].to_vec()), Step::Eof];
    let res = std::panic::catch_unwind(|| {
        let mut buf: FixedBuf<8192> = FixedBuf::new();
        let mut rd = ScriptReader::new(steps.into_iter().filter(|s| !matches!(s, Step::Data(d) if d.is_empty())).collect());
        let addr = std::net::SocketAddr::from(([127, 0, 0, 1], 1));
        let r1 = block_on(read_http_request(addr, &mut buf, &mut rd));
        let req = match r1 { Err(_) => return (Framing::Reject, false, false, None), Ok(r) => r };
        let got = match &req.body { RequestBody::PendingKnown(n) => Framing::Known(*n), RequestBody::PendingUnknown => Framing::Unknown, b if b.len() == Some(0) => Framing::Empty, _ => Framing::Unknown };
        let mut next_path = None;
        if let Framing::Known(n) = got { if n <= 64 { let _ = block_on(read_http_body_to_vec((&mut buf).chain(&mut rd), n as usize)); } }
        if matches!(got, Framing::Known(_) | Framing::Empty) {
            if let Ok(r2) = block_on(read_http_request(addr, &mut buf, &mut rd)) { next_path = Some(r2.url.path().to_string()); }
        }
        (got, req.gzip, req.chunked, next_path)
    });
    let (got, ggzip, gchunked, next) = match res { Ok(x) => x, Err(_) => return Some(format!("{desc} expected={want:?} actual=panic")) };
    if got != want { return Some(format!("{desc} expected={want:?} actual={got:?}")); }
    if !matches!(want, Framing::Reject) && (ggzip, gchunked) != (wgzip, wchunked) { return Some(format!("{desc} expected=gzip/chunked={wgzip}/{wchunked} actual={ggzip}/{gchunked}")); }
    if matches!(want, Framing::Known(n) if n <= 64) || matches!(want, Framing::Empty) {
        if next.as_deref() != Some("/next") { return Some(format!("{desc} expected=next-request=/next actual={next:?}")); }
    }
    None
}
/// a declared body followed at once by the next request, everything delivered as early as the reader asks: the next request
/// starts at the byte after the body however much of the connection buffer body and head occupy between them
fn pipefill(n: usize, pad: usize) -> Option<String> {
    let desc = format!("pipefill body={n} pad={pad}");
    let mut stream = format!("POST /a HTTP/1.1\r\nContent-Length: {n}\r\n\r\n").into_bytes();
    stream.extend(std::iter::repeat(b'x').take(n));
    stream.extend_from_slice(format!("GET /next HTTP/1.1\r\nx-pad: {}\r\n\r\n", "p".repeat(pad)).as_bytes());
    let res = std::panic::catch_unwind(|| {
        let mut buf: FixedBuf<8192> = FixedBuf::new();
        let mut rd = ScriptReader::new(vec![Step::Data(stream.clone()), Step::Eof]);
        let addr = std::net::SocketAddr::from(([127, 0, 0, 1], 1));
        let r1 = block_on(read_http_request(addr, &mut buf, &mut rd)).map_err(|e| format!("first request: {e:?}"))?;
        if !matches!(r1.body, RequestBody::PendingKnown(k) if k as usize == n) { return Err(format!("first request body {:?}", r1.body)); }
        let b = block_on(read_http_body_to_vec((&mut buf).chain(&mut rd), n)).map_err(|e| format!("body: {e:?}"))?;
        if b.len() != Some(n as u64) { return Err(format!("body length {:?}", b.len())); }
        let r2 = block_on(read_http_request(addr, &mut buf, &mut rd)).map_err(|e| format!("second request: {e:?}"))?;
        Ok(r2.url.path().to_string())
    });
    match res { Err(_) => Some(format!("{desc} expected=next-request=/next actual=panic")), Ok(Err(e)) => Some(format!("{desc} expected=next-request=/next actual={e}")),
        Ok(Ok(p)) => if p == "/next" { None } else { Some(format!("{desc} expected=next-request=/next actual={p}")) } }
}
fn main() {
    std::panic::set_hook(Box::new(|_| {}));
    let args: Vec<String> = std::env::args().collect();
    let cl_sets: Vec<Vec<&str>> = vec![vec![], vec!["0"], vec!["5"], vec!["64"], vec!["18446744073709551615"], vec!["18446744073709551616"], vec!["+5"], vec!["-5"],
        vec!["5 "], vec!["abc"], vec![""], vec!["5", "5"], vec!["5", "7"], vec!["0", "24"], vec!["24", "0"], vec!["5", "5", "5"]];
    let long_vals: Vec<String> = {
        let mut v = Vec::new();
        for lead in 1..=9u128 { for digits in [19u32, 20, 21, 22, 25] { v.push((lead * 10u128.pow(digits - 1)).to_string()); v.push((lead * 10u128.pow(digits - 1) + 7).to_string()); } }
        for k in [1u128, 2, 3, 5, 16, 1000] { v.push(((u64::MAX as u128) * k + k).to_string()); v.push(((u64::MAX as u128) + k).to_string()); }
        v.push("00000000000000000000000005".to_string()); v.push("18446744073709551615".to_string()); v.push("18446744073709551614".to_string());
        v
    };
    let mut cl_sets = cl_sets;
    for v in &long_vals { cl_sets.push(vec![v.as_str()]); }
    let te_sets: Vec<Vec<&str>> = vec![vec![], vec!["chunked"], vec!["gzip"], vec!["gzip, chunked"], vec!["gzip,chunked"], vec!["chunked, gzip"], vec!["br"], vec![","],
        vec!["chunked", "chunked"], vec!["gzip", "chunked"], vec!["identity"], vec!["chunked", "identity"]];
    if args.len() >= 3 && args[1] == "replay" {
        let w = args[2..].join(" ");
        let get = |k: &str| w.split(&format!("{k}=")).nth(1).unwrap_or("").to_string();
        let lists0 = |s: String| -> Vec<String> { s.split(']').next().unwrap().trim_start_matches('[').split("\", \"").map(|x| x.trim_matches('"').to_string()).filter(|x| !(x.is_empty() && s.starts_with("[]"))).collect() };
        if w.starts_with("pipefill ") {
            let g = |k: &str| -> usize { get(k).split(' ').next().unwrap().parse().unwrap() };
            match pipefill(g("body"), g("pad")) { Some(m) => { println!("WITNESS {m}"); std::process::exit(1) } None => { println!("OK witness no longer fails"); std::process::exit(0) } }
        }
        if w.starts_with("derived ") {
            let e = lists0(get("expect")); let c = lists0(get("ct"));
            let e: Vec<&str> = e.iter().map(String::as_str).collect(); let c: Vec<&str> = c.iter().map(String::as_str).collect();
            match derived(&e, &c) { Some(m) => { println!("WITNESS {m}"); std::process::exit(1) } None => { println!("OK witness no longer fails"); std::process::exit(0) } }
        }
        let method = get("method").split(' ').next().unwrap().to_string();
        let lists = |s: String| -> Vec<String> { s.split(']').next().unwrap().trim_start_matches('[').split("\", \"").map(|x| x.trim_matches('"').to_string()).filter(|x| !(x.is_empty() && s.starts_with("[]"))).collect() };
        let cls = lists(get("cl")); let tes = lists(get("te"));
        let cls: Vec<&str> = cls.iter().map(String::as_str).collect(); let tes: Vec<&str> = tes.iter().map(String::as_str).collect();
        let expect = get("expect").starts_with("true");
        let split: usize = get("split").trim().parse().unwrap_or(0);
        match run(&method, &cls, &tes, expect, split) {
            Some(m) => { println!("WITNESS {m}"); std::process::exit(1) }
            None => { println!("OK witness no longer fails"); std::process::exit(0) }
        }
    }
    let mut n = 0u64;
    let mut found = Vec::new();
    for method in ["GET", "POST", "PUT", "DELETE"] {
        for cls in &cl_sets { for tes in &te_sets { for expect in [false, true] { for split in [0usize, 1, 30, 10_000] {
            n += 1;
            if let Some(m) = run(method, cls, tes, expect, split) { if found.len() < 8 { found.push(m) } }
        }}}}
    }
    let exp_sets: Vec<Vec<&str>> = vec![vec![], vec!["100-continue"], vec!["100-Continue"], vec!["100-continue "], vec!["other"], vec![""], vec!["100-continue", "100-continue"], vec!["other", "100-continue"]];
    let mut ct_sets: Vec<Vec<&str>> = vec![vec![], vec![""], vec!["text/unknown"], vec!["TEXT/PLAIN"], vec!["text/plain", "text/html"], vec![";charset=x"], vec!["text/plain ;x"]];
    let names = ["text/css", "text/csv", "text/event-stream", "application/x-www-form-urlencoded", "image/gif", "text/html", "text/javascript", "image/jpeg", "application/json", "text/markdown",
        "multipart/form-data", "application/octet-stream", "application/pdf", "text/plain", "image/png", "image/svg+xml"];
    let with_param: Vec<String> = names.iter().map(|n| format!("{n}; charset=UTF-8")).collect();
    for n_ in names.iter() { ct_sets.push(vec![n_]); }
    for w in with_param.iter() { ct_sets.push(vec![w.as_str()]); }
    for e in &exp_sets { for c in &ct_sets { n += 1; if let Some(m) = derived(e, c) { if found.len() < 8 { found.push(m) } } } }
    for body in [1usize, 100, 4000, 7000, 7900, 8100, 8192, 9000, 20000] { for pad in [0usize, 200, 1000, 4000, 8000] {
        n += 1; if let Some(m) = pipefill(body, pad) { if found.len() < 8 { found.push(m) } }
    } }
    println!("EVALUATED {n}");
    for f in &found { println!("WITNESS {f}"); }
    std::process::exit(if found.is_empty() { 0 } else { 1 });
}
