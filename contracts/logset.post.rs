// vacuity canary -- must FAIL
fn canary_logset(set: &mut PrefixFileSet, f: PrefixFile, p: &PathBuf)
    requires wf(*old(set)), old(set).len_() + f.len <= u64::MAX
{
    proof { axiom_system_time(); }
    set.push(f);
    let x = set.files.peek();
    proof { set.files_().front_is_oldest(); }
    let r = remove_file(p);
    let y = set.files.pop();
    assert(false);
}
