"""rsx -- mechanical extraction of Rust items from /repo/src for the verifiers.

A small, self-contained Rust *lexer* plus a handful of structural scanners
(items, fn anatomy, loops, statements, returns).  Nothing here interprets Rust;
it only finds byte spans so that item text can be copied verbatim, a closed list
of rewrite rules applied, and contract text inserted at ordinal sites.

Everything that is added to or changed in the copied text is wrapped in marker
comments so that `roundtrip()` can undo it from the *generated file alone* and
compare the token stream with the source item (DESIGN.md section 2.1 item 4):

    /*+*/ injected text /*-*/                     -- pure insertion
    /*~RULE:<hex of original text>*/new text/*~*/ -- rewrite by rule RULE
"""
import re
import binascii

# --------------------------------------------------------------------------- lexer

class Tok:
    __slots__ = ("kind", "text", "start", "end")

    def __init__(self, kind, text, start, end):
        self.kind, self.text, self.start, self.end = kind, text, start, end

    def __repr__(self):
        return "Tok(%s,%r,%d)" % (self.kind, self.text, self.start)


class LexError(Exception):
    pass


_ident_re = re.compile(r"[A-Za-z_][A-Za-z0-9_]*")
_num_re = re.compile(r"[0-9][0-9A-Za-z_]*(\.[0-9][0-9A-Za-z_]*)?")
_ws_re = re.compile(r"\s+")


def lex(src):
    """Tokenise Rust source. kinds: ws, comment, ident, lifetime, char, str, num, punct."""
    toks = []
    i, n = 0, len(src)
    while i < n:
        c = src[i]
        m = _ws_re.match(src, i)
        if m:
            toks.append(Tok("ws", m.group(0), i, m.end()))
            i = m.end()
            continue
        if src.startswith("//", i):
            j = src.find("\n", i)
            j = n if j < 0 else j
            toks.append(Tok("comment", src[i:j], i, j))
            i = j
            continue
        if src.startswith("/*", i):
            depth, j = 1, i + 2
            while j < n and depth:
                if src.startswith("/*", j):
                    depth += 1
                    j += 2
                elif src.startswith("*/", j):
                    depth -= 1
                    j += 2
                else:
                    j += 1
            if depth:
                raise LexError("unterminated block comment at %d" % i)
            toks.append(Tok("comment", src[i:j], i, j))
            i = j
            continue
        # raw strings r"..", r#".."#, br"..", br#".."#
        m = re.match(r"(b?r)(#*)\"", src[i:i + 40])
        if m:
            hashes = m.group(2)
            close = '"' + hashes
            j = src.find(close, i + len(m.group(0)))
            if j < 0:
                raise LexError("unterminated raw string at %d" % i)
            j += len(close)
            toks.append(Tok("str", src[i:j], i, j))
            i = j
            continue
        if c == '"' or (c == "b" and src.startswith('b"', i)):
            j = i + (2 if c == "b" else 1)
            while j < n and src[j] != '"':
                j += 2 if src[j] == "\\" else 1
            if j >= n:
                raise LexError("unterminated string at %d" % i)
            j += 1
            toks.append(Tok("str", src[i:j], i, j))
            i = j
            continue
        if c == "'" or (c == "b" and src.startswith("b'", i)):
            k = i + (2 if c == "b" else 1)
            # char literal or lifetime
            if k < n and src[k] == "\\":
                j = k + 2
                while j < n and src[j] != "'":
                    j += 1
                j += 1
                toks.append(Tok("char", src[i:j], i, j))
                i = j
                continue
            if k + 1 < n and src[k + 1] == "'" and src[k] != "'":
                toks.append(Tok("char", src[i:k + 2], i, k + 2))
                i = k + 2
                continue
            if c == "'":
                m = _ident_re.match(src, k)
                if m:
                    toks.append(Tok("lifetime", src[i:m.end()], i, m.end()))
                    i = m.end()
                    continue
            # multi-byte char literal such as '\u{20AC}' handled above; a UTF-8 char:
            j = src.find("'", k)
            if j < 0 or j - k > 8:
                raise LexError("bad char literal at %d" % i)
            toks.append(Tok("char", src[i:j + 1], i, j + 1))
            i = j + 1
            continue
        m = _ident_re.match(src, i)
        if m:
            toks.append(Tok("ident", m.group(0), i, m.end()))
            i = m.end()
            continue
        m = _num_re.match(src, i)
        if m:
            # do not swallow `..` of a range: 0..5
            txt = m.group(0)
            if "." in txt and src.startswith("..", i + txt.index(".")):
                txt = txt[:txt.index(".")]
            toks.append(Tok("num", txt, i, i + len(txt)))
            i += len(txt)
            continue
        toks.append(Tok("punct", c, i, i + 1))
        i += 1
    return toks


def sig_tokens(toks):
    """significant tokens only (no whitespace / comments)"""
    return [t for t in toks if t.kind not in ("ws", "comment")]


OPEN = {"(": ")", "[": "]", "{": "}"}
CLOSE = {")": "(", "]": "[", "}": "{"}


def match_close(st, i):
    """st: significant token list; st[i] is an opening bracket; return index of its partner."""
    depth = 0
    for j in range(i, len(st)):
        t = st[j]
        if t.kind == "punct":
            if t.text in OPEN:
                depth += 1
            elif t.text in CLOSE:
                depth -= 1
                if depth == 0:
                    return j
    raise LexError("unbalanced bracket at %d" % st[i].start)


def is_p(t, s):
    return t.kind == "punct" and t.text == s


def is_id(t, s=None):
    return t.kind == "ident" and (s is None or t.text == s)


# --------------------------------------------------------------------------- items

class Item:
    """A located item: kind in {fn, struct, enum, impl, trait}; span covers the item
    proper (from visibility / keyword to closing brace or semicolon); attr_start covers
    the preceding outer attributes and doc comments as well."""

    def __init__(self, kind, name, start, end, attr_start, header=None, parent=None):
        self.kind, self.name = kind, name
        self.start, self.end, self.attr_start = start, end, attr_start
        self.header = header      # impl header text without whitespace, generics of `impl<..>` stripped
        self.parent = parent      # enclosing impl Item for methods
        self.children = []

    def __repr__(self):
        return "Item(%s %s %s)" % (self.kind, self.name, self.header)


_MODS = {"pub", "async", "const", "unsafe", "extern", "default"}


def _scan_items(src, st, lo, hi, parent, out):
    """scan significant tokens st[lo:hi] at one nesting level for items"""
    i = lo
    attr_start = None
    while i < hi:
        t = st[i]
        # outer attribute
        if is_p(t, "#") and i + 1 < hi and is_p(st[i + 1], "["):
            if attr_start is None:
                attr_start = t.start
            i = match_close(st, i + 1) + 1
            continue
        j = i
        # visibility / modifiers
        while j < hi and is_id(st[j]) and st[j].text in _MODS:
            if st[j].text == "pub" and j + 1 < hi and is_p(st[j + 1], "("):
                j = match_close(st, j + 1) + 1
            elif st[j].text == "extern" and j + 1 < hi and st[j + 1].kind == "str":
                j += 2
            else:
                j += 1
        if j >= hi:
            break
        k = st[j]
        a0 = attr_start if attr_start is not None else t.start
        if is_id(k, "fn") and j + 1 < hi and is_id(st[j + 1]):
            name = st[j + 1].text
            # body: first `{` or `;` at bracket depth 0
            m = j + 2
            end = None
            while m < hi:
                if st[m].kind == "punct" and st[m].text in "([":
                    m = match_close(st, m) + 1
                    continue
                if is_p(st[m], "{"):
                    end = match_close(st, m)
                    break
                if is_p(st[m], ";"):
                    end = m
                    break
                m += 1
            if end is None:
                raise LexError("fn %s: no body" % name)
            it = Item("fn", name, t.start, st[end].end, a0, parent=parent)
            (parent.children if parent else out).append(it)
            i = end + 1
            attr_start = None
            continue
        if is_id(k) and k.text in ("struct", "enum", "union", "trait", "mod") and j + 1 < hi and is_id(st[j + 1]):
            name = st[j + 1].text
            m = j + 2
            end = None
            while m < hi:
                if st[m].kind == "punct" and st[m].text in "([":
                    m = match_close(st, m) + 1
                    if k.text == "struct":
                        # tuple struct: `struct X(..);` possibly with where clause
                        pass
                    continue
                if is_p(st[m], "{"):
                    end = match_close(st, m)
                    break
                if is_p(st[m], ";"):
                    end = m
                    break
                m += 1
            if end is None:
                raise LexError("%s %s: no end" % (k.text, name))
            it = Item(k.text, name, t.start, st[end].end, a0, parent=parent)
            (parent.children if parent else out).append(it)
            if k.text in ("trait", "mod") and is_p(st[end], "}"):
                _scan_items(src, st, m + 1, end, it, out)
            i = end + 1
            attr_start = None
            continue
        if is_id(k, "impl"):
            m = j + 1
            # skip generics of impl<...>
            hstart = m
            if m < hi and is_p(st[m], "<"):
                depth = 0
                while m < hi:
                    if is_p(st[m], "<"):
                        depth += 1
                    elif is_p(st[m], ">") and not (m > 0 and is_p(st[m - 1], "-")):
                        depth -= 1
                        if depth == 0:
                            m += 1
                            break
                    m += 1
                hstart = m
            while m < hi and not is_p(st[m], "{"):
                if st[m].kind == "punct" and st[m].text in "([":
                    m = match_close(st, m) + 1
                    continue
                m += 1
            end = match_close(st, m)
            # header text: tokens hstart..m, up to `where`
            htoks = []
            for q in range(hstart, m):
                if is_id(st[q], "where"):
                    break
                htoks.append(st[q].text)
            header = _join_header(htoks)
            it = Item("impl", header, t.start, st[end].end, a0, header=header, parent=parent)
            it.body_open = st[m].start
            out.append(it) if parent is None else parent.children.append(it)
            _scan_items(src, st, m + 1, end, it, out)
            i = end + 1
            attr_start = None
            continue
        # anything else (use, const, static, type, macro invocations ...): skip to `;` or balanced `{}`
        m = j
        while m < hi:
            if st[m].kind == "punct" and st[m].text in OPEN:
                e = match_close(st, m)
                if is_p(st[m], "{"):
                    # `macro! { .. }` or similar ends here unless followed by `;`
                    m = e + 1
                    if m < hi and is_p(st[m], ";"):
                        m += 1
                    break
                m = e + 1
                continue
            if is_p(st[m], ";"):
                m += 1
                break
            m += 1
        i = max(m, i + 1)
        attr_start = None


def top_consts(src):
    """top-level `const NAME: T = EXPR;` items of a source file: {NAME: (start, end)} (offsets of `const` .. `;`)"""
    st = sig_tokens(lex(src))
    out = {}
    depth = 0
    i = 0
    while i < len(st):
        t = st[i]
        if t.kind == "punct" and t.text in OPEN:
            depth += 1
        elif t.kind == "punct" and t.text in CLOSE:
            depth -= 1
        elif depth == 0 and is_id(t, "const") and i + 2 < len(st) and is_id(st[i + 1]) and is_p(st[i + 2], ":") and not is_id(st[i + 1], "fn"):
            q = i
            d2 = 0
            while q < len(st):
                if st[q].kind == "punct" and st[q].text in OPEN:
                    d2 += 1
                elif st[q].kind == "punct" and st[q].text in CLOSE:
                    d2 -= 1
                elif d2 == 0 and is_p(st[q], ";"):
                    break
                q += 1
            if q < len(st):
                out[st[i + 1].text] = (t.start, st[q].end)
                i = q
        i += 1
    return out


def _join_header(texts):
    out = ""
    for s in texts:
        if out and (out[-1].isalnum() or out[-1] == "_") and (s[0].isalnum() or s[0] == "_"):
            out += " "
        out += s
    return out


def norm_header(s):
    return _join_header([t.text for t in sig_tokens(lex(s))])


def scan_file(src):
    st = sig_tokens(lex(src))
    out = []
    _scan_items(src, st, 0, len(st), None, out)
    return out


def find_item(items, path):
    """path: 'fn NAME' | 'struct NAME' | 'enum NAME' | 'trait NAME' | 'impl HEADER' |
    'impl HEADER / fn NAME'.  Must be unique."""
    parts = [p.strip() for p in path.split(" / ")]
    cur = items
    found = None
    for p in parts:
        kind, _, name = p.partition(" ")
        name = name.strip()
        if kind == "impl":
            want = norm_header(name)
            cands = [it for it in cur if it.kind == "impl" and it.header == want]
        else:
            cands = [it for it in cur if it.kind == kind and it.name == name]
        if len(cands) != 1:
            raise KeyError("item %r: %d candidates for %r" % (path, len(cands), p))
        found = cands[0]
        cur = found.children
    return found


# --------------------------------------------------------------------------- fn anatomy

class FnAnatomy:
    """Offsets (relative to the fn text) of the syntactic sites contracts attach to."""

    def __init__(self, text):
        self.text = text
        self.toks = lex(text)
        self.st = sig_tokens(self.toks)
        st = self.st
        # locate `fn`
        f = 0
        while not is_id(st[f], "fn"):
            f += 1
        self.fn_kw = f
        self.name = st[f + 1].text
        # params: first `(` at angle depth 0 after the name
        m = f + 2
        if is_p(st[m], "<"):
            depth = 0
            while True:
                if is_p(st[m], "<"):
                    depth += 1
                elif is_p(st[m], ">") and not is_p(st[m - 1], "-"):
                    depth -= 1
                    if depth == 0:
                        m += 1
                        break
                m += 1
        assert is_p(st[m], "("), "fn %s: expected (" % self.name
        self.params_open = m
        self.params_close = match_close(st, m)
        m = self.params_close + 1
        self.ret_start = self.ret_end = None     # significant-token indexes of the return type
        self.where_kw = None
        body = None
        q = m
        while q < len(st):
            if st[q].kind == "punct" and st[q].text in "([":
                q = match_close(st, q) + 1
                continue
            if is_p(st[q], "{"):
                body = q
                break
            if is_p(st[q], ";"):
                break
            if is_id(st[q], "where") and self.where_kw is None:
                self.where_kw = q
            q += 1
        self.body_open = body
        self.body_close = match_close(st, body) if body is not None else None
        if is_p(st[m], "-") and is_p(st[m + 1], ">"):
            self.ret_start = m + 2
            self.ret_end = (self.where_kw if self.where_kw is not None else (body if body is not None else q))
        # the site for requires/ensures: just before the body `{`
        self.sig_end_off = st[body].start if body is not None else st[q].start
        self._loops = None

    # ---- loops
    def loops(self):
        """[(kw_index, body_open_index, body_close_index, kind)] in source order"""
        if self._loops is None:
            st = self.st
            res = []
            i = self.body_open + 1
            while i < self.body_close:
                t = st[i]
                if is_id(t) and t.text in ("while", "loop", "for") and not is_p(st[i - 1], "."):
                    q = i + 1
                    while not is_p(st[q], "{"):
                        if st[q].kind == "punct" and st[q].text in "([":
                            q = match_close(st, q)
                        q += 1
                    res.append((i, q, match_close(st, q), t.text))
                i += 1
            self._loops = res
        return self._loops

    def returns(self):
        """significant-token indexes of `return` keywords in the body, source order"""
        return [i for i in range(self.body_open + 1, self.body_close) if is_id(self.st[i], "return")]

    def statements(self, open_idx, close_idx):
        """split st[open_idx+1 : close_idx] (a block body) into statements at nesting depth 0.
        returns list of (first_tok_idx, last_tok_idx, terminated_by_semicolon)"""
        st = self.st
        res = []
        i = open_idx + 1
        while i < close_idx:
            start = i
            q = i
            blocklike = is_id(st[q]) and st[q].text in ("if", "while", "loop", "for", "match", "unsafe") or is_p(st[q], "{")
            term = False
            while q < close_idx:
                t = st[q]
                if t.kind == "punct" and t.text in OPEN:
                    e = match_close(st, q)
                    if is_p(t, "{") and blocklike:
                        nxt = st[e + 1] if e + 1 < close_idx else None
                        if nxt is not None and is_id(nxt, "else"):
                            q = e + 1
                            continue
                        if nxt is None or not (nxt.kind == "punct" and nxt.text in ".?;"):
                            q = e
                            break
                    q = e + 1
                    continue
                if is_p(t, ";"):
                    term = True
                    break
                q += 1
            if q >= close_idx:
                q = close_idx - 1
            res.append((start, q, term))
            i = q + 1
        return res


# --------------------------------------------------------------------------- edits

def hexs(s):
    return binascii.hexlify(s.encode()).decode()


def unhexs(s):
    return binascii.unhexlify(s.encode()).decode()


def INJ(text):
    return "/*+*/" + text + "/*-*/"


def RW(rule, orig, new):
    return "/*~%s:%s*/%s/*~*/" % (rule, hexs(orig), new)


class Edits:
    """collects (offset, kind, ...) edits on one text and applies them right-to-left"""

    def __init__(self, text):
        self.text = text
        self.ins = []     # (off, seq, text)
        self.rep = []     # (start, end, rule, new)
        self.seq = 0
        self.rule_counts = {}

    def insert(self, off, text):
        self.seq += 1
        self.ins.append((off, self.seq, text))

    def replace(self, start, end, rule, new):
        self.rep.append((start, end, rule, new))
        self.rule_counts[rule] = self.rule_counts.get(rule, 0) + 1

    def apply(self):
        ops = []
        for off, seq, text in self.ins:
            ops.append((off, 1, seq, off, INJ(text)))
        for s, e, rule, new in self.rep:
            ops.append((s, 0, 0, e, RW(rule, self.text[s:e], new)))
        # insertion at offset X comes before a replacement starting at X
        ops.sort(key=lambda o: (o[0], -o[1], o[2]))
        out = []
        pos = 0
        for off, isins, seq, end, txt in ops:
            if off < pos:
                raise ValueError("overlapping edits at %d" % off)
            out.append(self.text[pos:off])
            out.append(txt)
            pos = end
        out.append(self.text[pos:])
        return "".join(out)


_marker_re = re.compile(r"/\*\+\*/.*?/\*-\*/|/\*~([A-Za-z0-9]+):([0-9a-f]*)\*/.*?/\*~\*/", re.S)


def strip_markers(gen):
    """undo every marked insertion and rewrite"""
    def sub(m):
        if m.group(0).startswith("/*+*/"):
            return ""
        return unhexs(m.group(2))
    return _marker_re.sub(sub, gen)


def same_tokens(a, b):
    ta = [(t.kind, t.text) for t in sig_tokens(lex(a))]
    tb = [(t.kind, t.text) for t in sig_tokens(lex(b))]
    return ta == tb


# --------------------------------------------------------------------------- rewrite rules


FMT_LITS = {}    # hex -> bytes of the literal pieces seen by rule R9 since the last reset


def _fmt_pieces(lit_tok, pad=False):
    """split a plain string literal token used as a format string into [('lit', bytes) | ('arg', None) | ('named', ident)];
    None if it uses anything beyond `{}` / `{ident}` / `{{` / `}}` and simple escapes"""
    if not (lit_tok.startswith('"') and lit_tok.endswith('"')):
        return None
    body = lit_tok[1:-1]
    out = []
    cur = bytearray()
    i = 0
    esc = {"n": 10, "r": 13, "t": 9, "\\": 92, '"': 34, "0": 0, "'": 39}
    while i < len(body):
        c = body[i]
        if c == "\\":
            if i + 1 >= len(body):
                return None
            d = body[i + 1]
            if d in esc:
                cur.append(esc[d]); i += 2; continue
            if d == "x" and i + 3 < len(body):
                cur.append(int(body[i + 2:i + 4], 16)); i += 4; continue
            return None
        if c == "{":
            if body[i + 1:i + 2] == "{":
                cur.append(123); i += 2; continue
            j = body.find("}", i)
            if j < 0:
                return None
            inner = body[i + 1:j]
            if cur:
                out.append(("lit", bytes(cur))); cur = bytearray()
            if inner == "":
                out.append(("arg", None))
            elif re.match(r"[A-Za-z_][A-Za-z0-9_]*$", inner):
                out.append(("named", inner))
            elif pad and re.match(r"([A-Za-z_][A-Za-z0-9_]*)?:0(\d+)$", inner):
                m_ = re.match(r"([A-Za-z_][A-Za-z0-9_]*)?:0(\d+)$", inner)
                out.append(("padnamed" if m_.group(1) else "padarg", (m_.group(1), int(m_.group(2)))))
            else:
                return None
            i = j + 1
            continue
        if c == "}":
            if body[i + 1:i + 2] == "}":
                cur.append(125); i += 2; continue
            return None
        cur.extend(c.encode())
        i += 1
    if cur:
        out.append(("lit", bytes(cur)))
    return out


def _lit_src(bs):
    """a Rust string literal denoting exactly the bytes bs (ASCII + simple escapes)"""
    o = []
    for b in bs:
        if b == 10: o.append("\\n")
        elif b == 13: o.append("\\r")
        elif b == 9: o.append("\\t")
        elif b == 34: o.append('\\"')
        elif b == 92: o.append("\\\\")
        elif 32 <= b < 127: o.append(chr(b))
        else: o.append("\\x%02x" % b)
    return '"' + "".join(o) + '"'


def _split_args(st, open_i, close_i):
    """top-level comma-separated argument token ranges [(a, b)] inside st[open_i] .. st[close_i]"""
    args = []
    a = open_i + 1
    depth = 0
    for q in range(open_i + 1, close_i):
        t = st[q]
        if t.kind == "punct" and t.text in OPEN:
            depth += 1
        elif t.kind == "punct" and t.text in CLOSE:
            depth -= 1
        elif depth == 0 and is_p(t, ","):
            args.append((a, q - 1))
            a = q + 1
    if a <= close_i - 1:
        args.append((a, close_i - 1))
    return args


def _fmt_expand(text, st, args, pieces, sink, lit_fn, arg_fn):
    """the statements that append the formatted pieces to `sink`"""
    out = []
    k = 0
    for kind, v in pieces:
        if kind == "lit":
            # the bytes of the literal piece as an opaque named constant `vlit_<hex of the bytes>()`, defined once per unit
            # (build_unit appends the definitions): long literal sequences never reach the solver
            FMT_LITS[v.hex()] = v
            out.append("%s(&mut %s, %s, Ghost(vlit_%s()));" % (lit_fn, sink, _lit_src(v), v.hex()))
        elif kind == "arg":
            if k >= len(args):
                return None
            a, b = args[k]
            k += 1
            out.append("%s(&mut %s, &(%s));" % (arg_fn, sink, text[st[a].start:st[b].end]))
        else:
            out.append("%s(&mut %s, &(%s));" % (arg_fn, sink, v))
    if k != len(args):
        return None
    return " ".join(out)

FMT_LITSC = {}        # rule R12: literal pieces of format strings written to a char sink
IO_UNWRAP = set()     # rule R11: callee names whose `.unwrap()` is an accepted panic on I/O failure (set per unit build)


def _chain_steps(text, st, pieces, rest, sink):
    """rules R12 / R13: the stand-in calls that write the pieces of a format string to `sink`, threading the Result"""
    k = 0
    steps = []
    for kind, v in pieces:
        if kind == "lit":
            if any(b_ >= 128 for b_ in v):
                raise LexError("non-ASCII literal piece in a format string")
            FMT_LITSC[v.hex()] = v
            steps.append("let vr_ = vfw_lit(%s, vr_, Ghost(vlitc_%s()));" % (sink, v.hex()))
        elif kind in ("arg", "padarg"):
            if k >= len(rest):
                raise LexError("format arguments do not match the placeholders")
            a, b = rest[k]
            k += 1
            ex = text[st[a].start:st[b].end]
            steps.append(("let vr_ = vfw_arg(%s, vr_, &(%s));" % (sink, ex)) if kind == "arg" else ("let vr_ = vfw_pad(%s, vr_, &(%s), %d);" % (sink, ex, v[1])))
        elif kind == "named":
            steps.append("let vr_ = vfw_arg(%s, vr_, &(%s));" % (sink, v))
        else:
            steps.append("let vr_ = vfw_pad(%s, vr_, &(%s), %d);" % (sink, v[0], v[1]))
    if k != len(rest):
        raise LexError("format arguments do not match the placeholders")
    return steps


def apply_rules(text, rules, ed, base=0, regex_map=None):
    """Apply the closed list of rewrite rules (DESIGN.md 2.1 item 2) to `text`;
    edits are recorded in `ed` at offset `base`."""
    toks = lex(text)
    st = sig_tokens(toks)
    n = len(st)
    i = 0
    while i < n:
        t = st[i]
        if "D1" in rules and is_id(t, "async") and i + 1 < n and is_id(st[i + 1], "fn"):
            ed.replace(base + t.start, base + t.end, "D1", "")
        elif "D2" in rules and is_p(t, ".") and i + 1 < n and is_id(st[i + 1], "await"):
            ed.replace(base + t.start, base + st[i + 1].end, "D2", "")
            i += 1
        elif "D3" in rules and is_id(t, "Box") and i + 4 < n and is_p(st[i + 1], ":") and is_p(st[i + 2], ":") \
                and is_id(st[i + 3], "pin") and is_p(st[i + 4], "("):
            ed.replace(base + st[i + 3].start, base + st[i + 3].end, "D3", "new")
            i += 3
        elif "R2" in rules and is_p(t, "|") and i + 2 < n and is_id(st[i + 1], "_") and is_p(st[i + 2], "|") \
                and st[i + 1].text == "_":
            ed.replace(base + st[i + 1].start, base + st[i + 1].end, "R2", "_e")
            i += 2
        elif "R6" in rules and is_id(t, "if") and i > 0:
            # match arm `P1 | P2 if G => E,`  ->  `P1 if G => E, P2 if G => E,` (Verus rejects or-pattern + guard)
            b = i - 1
            depth = 0
            bars = []
            ok = True
            while b >= 0:
                tb = st[b]
                if tb.kind == "punct" and tb.text in CLOSE:
                    depth += 1
                elif tb.kind == "punct" and tb.text in OPEN:
                    if depth == 0:
                        break
                    depth -= 1
                elif depth == 0 and (is_p(tb, ",") or is_p(tb, ";")):
                    break
                elif depth == 0 and is_p(tb, "|"):
                    bars.append(b)
                elif depth == 0 and is_p(tb, ">") and b > 0 and is_p(st[b - 1], "="):
                    ok = False
                    break
                b -= 1
            pat_start = b + 1
            # forward: guard up to `=>`, then the arm expression
            f = i + 1
            arrow = None
            while f < n:
                tf = st[f]
                if tf.kind == "punct" and tf.text in OPEN:
                    if is_p(tf, "{"):
                        break
                    f = match_close(st, f) + 1
                    continue
                if is_p(tf, "=") and f + 1 < n and is_p(st[f + 1], ">"):
                    arrow = f
                    break
                if is_p(tf, ";"):
                    break
                f += 1
            if ok and bars and arrow is not None and b >= 0 and (is_p(st[b], "{") or is_p(st[b], ",")):
                e0 = arrow + 2
                if is_p(st[e0], "{"):
                    e1 = match_close(st, e0)
                else:
                    e1 = e0
                    while True:
                        te = st[e1]
                        if te.kind == "punct" and te.text in OPEN:
                            e1 = match_close(st, e1) + 1
                            continue
                        if is_p(te, ",") or (te.kind == "punct" and te.text in CLOSE):
                            break
                        e1 += 1
                    e1 -= 1
                bars.sort()
                alts = []
                lo = pat_start
                for bb in bars:
                    alts.append(text[st[lo].start:st[bb - 1].end])
                    lo = bb + 1
                alts.append(text[st[lo].start:st[i - 1].end])
                guard = text[st[i].start:st[arrow - 1].end]
                expr = text[st[e0].start:st[e1].end]
                new = ", ".join("%s %s => %s" % (a, guard, expr) for a in alts)
                ed.replace(base + st[pat_start].start, base + st[e1].end, "R6", new)
                i = e1
        elif "R7" in rules and is_id(t, "regex") and i + 4 < n and is_p(st[i + 1], "!") and is_p(st[i + 2], "(") \
                and st[i + 3].kind == "str" and is_p(st[i + 4], ")"):
            # `regex!(LIT)` -> the stand-in matcher the sidecar names for exactly this literal
            lit = st[i + 3].text
            if not regex_map or lit not in regex_map:
                raise LexError("regex literal %s has no stand-in matcher (the literal changed?)" % lit)
            ed.replace(base + t.start, base + st[i + 4].end, "R7", regex_map[lit])
            i += 4
        elif "R9" in rules and is_id(t, "format") and i + 3 < n and is_p(st[i + 1], "!") and is_p(st[i + 2], "(") \
                and st[i + 3].kind == "str" and _fmt_pieces(st[i + 3].text) is not None:
            # format!(LIT, args..) with only `{}` / `{ident}` placeholders: the String built piece by piece
            # (assumed meaning of std's format machinery: concatenation of the literal pieces and the Display
            # output of the arguments, in order)
            e = match_close(st, i + 2)
            args = _split_args(st, i + 2, e)[1:]
            body = _fmt_expand(text, st, args, _fmt_pieces(st[i + 3].text), "vf_", "vf_lit", "vf_arg")
            if body is None:
                raise LexError("format! arguments do not match its placeholders")
            ed.replace(base + t.start, base + st[e].end, "R9", "({ let mut vf_ = vf_new(); " + body + " vf_ })")
            i = e
        elif "R9" in rules and is_id(t, "write") and i + 2 < n and is_p(st[i + 1], "!") and is_p(st[i + 2], "(") \
                and (("R12" not in rules) or (lambda e_: e_ + 2 < n and is_p(st[e_ + 1], ".") and is_id(st[e_ + 2], "unwrap"))(match_close(st, i + 2))):
            # write!(SINK, LIT, args..).unwrap() on a Vec<u8> sink (infallible): the pieces appended one by one
            e = match_close(st, i + 2)
            args = _split_args(st, i + 2, e)
            ok = (len(args) >= 2 and args[0][0] == args[0][1] and st[args[0][0]].kind == "ident"
                  and args[1][0] == args[1][1] and st[args[1][0]].kind == "str" and _fmt_pieces(st[args[1][0]].text) is not None
                  and e + 4 < n and is_p(st[e + 1], ".") and is_id(st[e + 2], "unwrap") and is_p(st[e + 3], "(") and is_p(st[e + 4], ")"))
            if not ok:
                raise LexError("write! outside the supported form write!(IDENT, LIT, args..).unwrap()")
            sink = st[args[0][0]].text
            body = _fmt_expand(text, st, args[2:], _fmt_pieces(st[args[1][0]].text), sink, "vw_lit", "vw_arg")
            if body is None:
                raise LexError("write! arguments do not match its placeholders")
            ed.replace(base + t.start, base + st[e + 4].end, "R9", "{ " + body + " }")
            i = e + 4
        elif "R10" in rules and is_id(t, "extend") and i >= 1 and is_p(st[i - 1], ".") and i + 3 < n and is_p(st[i + 1], "(") \
                and st[i + 2].kind == "str" and st[i + 2].text.startswith("b\"") and is_p(st[i + 3], ")"):
            # VEC.extend(b"..") -> VEC.extend_from_slice(b".."): the same bytes appended (Vec<u8> receiver)
            ed.replace(base + t.start, base + t.end, "R10", "extend_from_slice")
            i += 3
        elif "R5" in rules and is_id(t, "format") and i + 2 < n and is_p(st[i + 1], "!") and is_p(st[i + 2], "("):
            e = match_close(st, i + 2)
            ed.replace(base + t.start, base + st[e].end, "R5", "verif_fmt()")
            i = e
        elif "R12" in rules and is_id(t) and t.text in ("write", "writeln") and i + 2 < n and is_p(st[i + 1], "!") and is_p(st[i + 2], "(") \
                and not (lambda e_: e_ + 2 < n and is_p(st[e_ + 1], ".") and is_id(st[e_ + 2], "unwrap"))(match_close(st, i + 2)):
            # write!(SINK, LIT, args..) / writeln!(..) whose Result is used (`?`, tail): the pieces are written one after the
            # other, stopping at the first error -- a chain of stand-in calls threading the Result (assumed meaning of
            # std::fmt: literal pieces verbatim, `{}` = the argument's Display output, `{:0N}` = zero-padded decimal)
            e = match_close(st, i + 2)
            args = _split_args(st, i + 2, e)
            pieces = _fmt_pieces(st[args[1][0]].text, pad=True) if (len(args) >= 2 and args[1][0] == args[1][1] and st[args[1][0]].kind == "str") else None
            if pieces is None or not (args[0][0] == args[0][1] and st[args[0][0]].kind == "ident"):
                raise LexError("write!/writeln! outside the supported form (IDENT, LIT with {} / {name} / {name:0N} placeholders, args..)")
            sink = st[args[0][0]].text
            if t.text == "writeln":
                if pieces and pieces[-1][0] == "lit":
                    pieces[-1] = ("lit", pieces[-1][1] + b"\n")
                else:
                    pieces.append(("lit", b"\n"))
            steps = _chain_steps(text, st, pieces, args[2:], sink)
            ed.replace(base + t.start, base + st[e].end, "R12", "({ let vr_ = vfw_start(%s); %s vr_ })" % (sink, " ".join(steps)))
            i = e
        elif "R13" in rules and is_id(t, "format") and i + 3 < n and is_p(st[i + 1], "!") and is_p(st[i + 2], "(") \
                and st[i + 3].kind == "str" and _fmt_pieces(st[i + 3].text, pad=True) is not None:
            # format!(LIT, args..) with {} / {name} / {:0N} / {name:0N} placeholders: the String built by the same chain
            # of stand-in calls as rule R12, on a fresh String as the sink (writing to a String cannot fail)
            e = match_close(st, i + 2)
            args = _split_args(st, i + 2, e)
            steps = _chain_steps(text, st, _fmt_pieces(st[i + 3].text, pad=True), args[1:], "&mut vs_")
            ed.replace(base + t.start, base + st[e].end, "R13", "({ let mut vs_ = vs_new(); let vr_ = vfw_start(&mut vs_); %s vs_ok(&vs_, vr_); vs_ })" % " ".join(steps))
            i = e
        elif "R11" in rules and is_id(t, "unwrap") and i >= 2 and is_p(st[i - 1], ".") and is_p(st[i - 2], ")") \
                and i + 2 < n and is_p(st[i + 1], "(") and is_p(st[i + 2], ")"):
            # `CALLEE(..).unwrap()` where CALLEE is one of the I/O operations the sidecar lists (`io_unwrap NAME..`):
            # a panic on an I/O failure ends the thread, so the states that follow exist only for Ok -- the unwrap
            # becomes the stand-in io_unwrap() (no precondition, ensures the value was Ok).  Every other unwrap keeps
            # Verus' own precondition.
            depth = 0
            b = i - 2
            while b >= 0:
                if st[b].kind == "punct" and st[b].text in CLOSE:
                    depth += 1
                elif st[b].kind == "punct" and st[b].text in OPEN:
                    depth -= 1
                    if depth == 0:
                        break
                b -= 1
            if b >= 1 and is_id(st[b - 1]) and st[b - 1].text in IO_UNWRAP:
                ed.replace(base + t.start, base + t.end, "R11", "io_unwrap")
        elif "R8" in rules and is_id(t, "println") and i + 2 < n and is_p(st[i + 1], "!") and is_p(st[i + 2], "("):
            # the print and the evaluation of its arguments are dropped (stdout is outside every property)
            e = match_close(st, i + 2)
            ed.replace(base + t.start, base + st[e].end, "R8", "verif_print()")
            i = e
        i += 1
